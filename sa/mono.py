"""E-mono: canonical monomial / multiset-of-monomials normal form for the
arithmetic the repository writes twice (forward-mode vs reverse-mode
coefficients, `get_ueg` vs `fill_fwd`), a tiny straight-line evaluator that
inlines single-assignment locals into that form, and a units-of-measure
inference (linear equations over Q) for value/derivative routine pairs.

Nothing here differentiates, simplifies by a CAS, imports the repository or
evaluates repository code.  The normal form is

    sum_k  c_k * prod_a  a ** e_(k,a)

with c_k a Fraction, atoms `a` being names, primes (for irrational constant
powers), pi, *opaque* function applications `f(args)` and *opaque* sums raised
to a non-natural power; exponents e are themselves normal forms (so that
`rho ** (power - 1)` is representable).  Two normal forms that are equal
denote equal functions on the positive reals.  The converse is only claimed
when the differing terms share one and the same opaque part (see
`definitely_different`); otherwise a comparison is `not-comparable` and must
never be reported as a violation.
"""
import ast
from fractions import Fraction

from sa import pyfacts as pf
from sa.core import AnalysisError


class NotComparable(Exception):
    """The expression is outside the sum-of-monomials fragment."""


# ----------------------------------------------------------------------------
# normal form
# ----------------------------------------------------------------------------
def _skey(x):
    return repr(x)


def _factor(n):
    """prime factorisation of a positive int (trial division; small numbers only)"""
    if n > 10 ** 12:
        raise NotComparable("constant too large to factor: %d" % n)
    out = {}
    p = 2
    while p * p <= n:
        while n % p == 0:
            out[p] = out.get(p, 0) + 1
            n //= p
        p += 1 if p == 2 else 2
    if n > 1:
        out[n] = out.get(n, 0) + 1
    return out


class Poly:
    """Immutable normal form.  terms: {monokey: Fraction}; monokey is a sorted
    tuple of (atom, exponent_key) with exponent_key = Poly.key of a non-zero Poly."""

    __slots__ = ("terms", "_key")

    def __init__(self, terms=None):
        self.terms = {m: c for m, c in (terms or {}).items() if c != 0}
        self._key = None

    # -- constructors --------------------------------------------------------
    @staticmethod
    def const(c):
        c = Fraction(c)
        return Poly({(): c}) if c != 0 else Poly()

    @staticmethod
    def atom(a):
        return Poly({((a, ONE.key),): Fraction(1)})

    @staticmethod
    def name(n):
        return Poly.atom(("n", n))

    # -- queries -------------------------------------------------------------
    @property
    def key(self):
        if self._key is None:
            self._key = tuple(sorted(self.terms.items(), key=_skey))
        return self._key

    def __eq__(self, other):
        return isinstance(other, Poly) and self.key == other.key

    def __hash__(self):
        return hash(self.key)

    def is_zero(self):
        return not self.terms

    def as_const(self):
        """Fraction if the form is a rational constant, else None"""
        if not self.terms:
            return Fraction(0)
        if len(self.terms) == 1 and () in self.terms:
            return self.terms[()]
        return None

    def is_monomial(self):
        return len(self.terms) == 1

    def atoms(self, deep=True):
        out = set()
        for m in self.terms:
            for a, ek in m:
                out.add(a)
                if deep:
                    out |= _atoms_of_key(ek)
                    if a[0] == "s":
                        out |= _atoms_of_key(a[1])
                    elif a[0] == "f":
                        for k in a[2]:
                            out |= _atoms_of_key(k)
        return out

    # -- arithmetic ----------------------------------------------------------
    def __add__(self, o):
        t = dict(self.terms)
        for m, c in o.terms.items():
            t[m] = t.get(m, 0) + c
        return Poly(t)

    def __neg__(self):
        return Poly({m: -c for m, c in self.terms.items()})

    def __sub__(self, o):
        return self + (-o)

    def scale(self, c):
        return Poly({m: v * c for m, v in self.terms.items()})

    def __mul__(self, o):
        t = {}
        for m1, c1 in self.terms.items():
            for m2, c2 in o.terms.items():
                c, m = _mono_mul(m1, m2)
                c = c * c1 * c2
                t[m] = t.get(m, 0) + c
        return Poly(t)

    def pow(self, e):
        """self ** e with e a Poly (rational constant or symbolic)."""
        ec = e.as_const()
        if ec is not None and ec == 0:
            return ONE
        if self.is_zero():
            if ec is not None and ec > 0:
                return Poly()
            raise NotComparable("0 ** non-positive")
        if ec is not None and ec.denominator == 1 and 0 < ec <= 6:
            r = ONE
            for _ in range(int(ec)):
                r = r * self
            return r
        if self.is_monomial():
            (m, c), = self.terms.items()
            return _mono_pow(m, c, e)
        # a constant of Q(sqrt(p)) to a negative integer power: rationalise exactly
        if ec is not None and ec.denominator == 1 and ec < 0:
            q = self._quadratic_surd()
            if q is not None:
                u, v, pr = q
                norm = u * u - v * v * pr
                if norm != 0:
                    inv = Poly.const(u / norm) - Poly({((("#", pr), Poly.const(Fraction(1, 2)).key),): v / norm})
                    return inv.pow(Poly.const(-ec))
        # a sum raised to a negative / fractional / symbolic power: split off the
        # rational content, keep the primitive part as an opaque atom
        cont, prim = self.primitive()
        base = Poly.atom(("s", prim.key))
        res = _mono_pow(next(iter(base.terms)), Fraction(1), e)
        if cont != 1:
            res = res * _mono_pow((), cont, e)
        return res

    def _quadratic_surd(self):
        """(u, v, p) when the form is the constant u + v*sqrt(p) with v != 0, else None"""
        u = v = Fraction(0)
        pr = None
        for m, c in self.terms.items():
            if m == ():
                u = c
            elif len(m) == 1 and m[0][0][0] == "#" and from_key(m[0][1]).as_const() == Fraction(1, 2) \
                    and (pr is None or pr == m[0][0][1]):
                pr = m[0][0][1]
                v = c
            else:
                return None
        return (u, v, pr) if pr is not None and v != 0 else None

    def primitive(self):
        """(content, primitive part): content = gcd of the coefficients with the
        sign of the first term in canonical order."""
        from math import gcd
        cs = [c for _, c in self.key]
        num = 0
        den = 1
        for c in cs:
            num = gcd(num, abs(c.numerator))
            den = den * c.denominator // gcd(den, c.denominator)
        cont = Fraction(num, den)
        if cs[0] < 0:
            cont = -cont
        return cont, self.scale(1 / cont)

    def __truediv__(self, o):
        return self * o.pow(Poly.const(-1))

    def subst(self, mapping):
        """replace name atoms by Polys *at the top level of monomials only*;
        refuses when a replaced atom occurs inside an opaque atom or exponent."""
        res = Poly()
        names = set(mapping)
        for m, c in self.terms.items():
            term = Poly.const(c)
            for a, ek in m:
                inner = set()
                if a[0] == "s":
                    inner = _atoms_of_key(a[1])
                elif a[0] == "f":
                    for k in a[2]:
                        inner |= _atoms_of_key(k)
                inner |= _atoms_of_key(ek)
                if inner & names:
                    raise NotComparable("substitution under an opaque atom")
                base = mapping[a] if a in mapping else Poly.atom(a)
                term = term * base.pow(from_key(ek))
            res = res + term
        return res

    # -- printing ------------------------------------------------------------
    def __repr__(self):
        return show(self)


def _atoms_of_key(key):
    out = set()
    for m, _ in key:
        for a, ek in m:
            out.add(a)
            out |= _atoms_of_key(ek)
            if a[0] == "s":
                out |= _atoms_of_key(a[1])
            elif a[0] == "f":
                for k in a[2]:
                    out |= _atoms_of_key(k)
    return out


def from_key(key):
    return Poly(dict(key))


ONE = Poly({(): Fraction(1)})
ZERO = Poly()


def _mono_mul(m1, m2):
    """-> (rational coefficient produced by folding prime atoms, monokey)"""
    d = {}
    for a, ek in m1:
        d[a] = from_key(ek)
    for a, ek in m2:
        d[a] = d[a] + from_key(ek) if a in d else from_key(ek)
    return _mono_norm(d)


def _mono_norm(d):
    coef = Fraction(1)
    out = []
    for a, e in d.items():
        if e.is_zero():
            continue
        if a[0] == "#":
            ec = e.as_const()
            if ec is not None:
                # integer part of a prime power goes to the coefficient
                ip = ec.numerator // ec.denominator
                if ip != 0:
                    coef *= Fraction(a[1]) ** ip
                    e = Poly.const(ec - ip)
                    if e.is_zero():
                        continue
        out.append((a, e.key))
    return coef, tuple(sorted(out, key=_skey))


def _mono_pow(m, c, e):
    """(c * m) ** e  -> Poly"""
    d = {}
    for a, ek in m:
        d[a] = from_key(ek) * e
    res_c = Fraction(1)
    if c != 1:
        ec = e.as_const()
        if c < 0:
            if ec is not None and ec.denominator == 1:
                if int(ec) % 2:
                    res_c = Fraction(-1)
                c = -c
            else:
                raise NotComparable("negative constant to a non-integer power")
        if c != 1:
            if ec is not None and ec.denominator == 1:
                res_c *= c ** int(ec)
            else:
                for p, k in _factor(c.numerator).items():
                    a = ("#", p)
                    d[a] = (d[a] if a in d else ZERO) + e.scale(k)
                for p, k in _factor(c.denominator).items():
                    a = ("#", p)
                    d[a] = (d[a] if a in d else ZERO) - e.scale(k)
    coef, mk = _mono_norm(d)
    return Poly({mk: coef * res_c})


def show_atom(a):
    k = a[0]
    if k == "n":
        return a[1]
    if k == "#":
        return str(a[1])
    if k == "pi":
        return "pi"
    if k == "s":
        return "(" + show(from_key(a[1])) + ")"
    if k == "f":
        return "%s(%s)" % (a[1], ", ".join(show(from_key(x)) for x in a[2]))
    return repr(a)


def show(p):
    if p.is_zero():
        return "0"
    parts = []
    for m, c in p.key:
        fs = []
        for a, ek in m:
            e = from_key(ek)
            ec = e.as_const()
            if ec == 1:
                fs.append(show_atom(a))
            elif ec is not None:
                fs.append("%s^%s" % (show_atom(a), ec if ec.denominator == 1 and ec > 0 else "(%s)" % ec))
            else:
                fs.append("%s^(%s)" % (show_atom(a), show(e)))
        body = "*".join(fs)
        if not body:
            parts.append(str(c))
        elif c == 1:
            parts.append(body)
        elif c == -1:
            parts.append("-" + body)
        else:
            parts.append("%s*%s" % (c, body))
    return " + ".join(parts).replace("+ -", "- ")


OPAQUE_KINDS = ("s", "f")


def opaque_part(m):
    return tuple((a, ek) for a, ek in m if a[0] in OPAQUE_KINDS)


def _benign_function_atoms(d):
    """Function atoms that may be treated as independent variables in an identity test:
    a single exp / log / sin / cos atom (transcendental over the rational functions of its argument),
    and clamp atoms max/min(name, constants...) of pairwise different names whose name does not occur
    outside the clamp (on the unclamped region the clamp *is* the variable)."""
    fs = [a for a in d.atoms() if a[0] == "f"]
    out = set()
    by_kind = {}
    for a in fs:
        by_kind.setdefault(a[1], []).append(a)
    for kind in ("exp", "log", "sin", "cos"):
        if len(by_kind.get(kind, [])) == 1 and sum(len(by_kind.get(k, [])) for k in ("exp", "log", "sin", "cos")) == 1:
            a = by_kind[kind][0]
            if any(x[0] == "n" for x in from_key(a[2][0]).atoms()) and not any(
                    x[0] == "f" and x[1] != "abs" for x in from_key(a[2][0]).atoms()):
                out.add(a)
    seen = {}
    for a in by_kind.get("max", []) + by_kind.get("min", []):
        names = set()
        for k in a[2]:
            names |= {x for x in from_key(k).atoms() if x[0] == "n"}
            if any(x[0] in OPAQUE_KINDS for x in from_key(k).atoms()):
                names = None
                break
        if not names:
            continue
        var = [n for n in names if Poly.atom(n).key in a[2]]
        if len(var) != 1:
            continue
        seen.setdefault(var[0], []).append(a)
    for var, atoms in seen.items():
        if len(atoms) == 1 and not occurs(d, var, skip=atoms[0]):
            out.add(atoms[0])
    return out


def definitely_different(p, q, _no_frac=False):
    """Decide p == q as functions.  Returns 'equal', 'different' or 'not-comparable'.

    d = p - q is written as  G * N  where G is a product of opaque atoms common to all
    terms (a non-vanishing factor) and N is obtained by multiplying every term with the
    natural power of each opaque *sum* by which its exponent exceeds the smallest one,
    the sums being expanded.  N is then a generalised polynomial in names, primes and pi
    only, for which the normal form is complete: d == 0 iff N == 0.  Whenever this
    reduction is not possible (exponents of an opaque atom differ by a non-integer or
    symbolic amount, an opaque function occurs with different exponents, a sum that has
    to be expanded contains opaque atoms itself) the answer is 'not-comparable'."""
    d = p - q
    if d.is_zero():
        return "equal"
    if not _no_frac and p.is_monomial() and q.is_monomial():
        # single products of positive quantities: A == B  iff  A**L == B**L; L clears the fractional
        # constant exponents of opaque sums so that they can be expanded
        from math import gcd
        L = 1
        for poly in (p, q):
            for m in poly.terms:
                for a, ek in m:
                    if a[0] == "s":
                        c = from_key(ek).as_const()
                        if c is not None:
                            L = L * c.denominator // gcd(L, c.denominator)
        if 1 < L <= 6:
            try:
                return definitely_different(p.pow(Poly.const(L)), q.pow(Poly.const(L)), _no_frac=True)
            except NotComparable:
                pass
    monos = list(d.terms.items())
    benign = _benign_function_atoms(d)
    opaque = set()
    for m, _ in monos:
        for a, _ek in m:
            if a[0] in OPAQUE_KINDS and a not in benign:
                opaque.add(a)
    # Terms whose opaque factors carry different *symbolic* exponents (s**p vs s**0, p a free name) are
    # linearly independent functions (exponential in p with a non-constant base vs not), so d == 0 iff
    # every class of equal symbolic exponent parts vanishes on its own.
    def sym_part(m):
        out = []
        for a in sorted(opaque, key=_skey):
            e = ZERO
            for b, ek in m:
                if b == a:
                    e = from_key(ek)
            c = e.terms.get((), Fraction(0))
            out.append((e - Poly.const(c)).key)
        return tuple(out)

    classes = {}
    for m, c in monos:
        classes.setdefault(sym_part(m), {})[m] = c
    if len(classes) > 1:
        verdicts = [definitely_different(Poly(t), ZERO, _no_frac=True) for t in classes.values()]
        if "different" in verdicts:
            return "different"
        return "equal" if all(v == "equal" for v in verdicts) else "not-comparable"
    shifts = {}  # atom -> list of natural numbers per monomial
    for a in opaque:
        exps = []
        for m, _ in monos:
            e = ZERO
            for b, ek in m:
                if b == a:
                    e = from_key(ek)
            exps.append(e)
        diffs = []
        for e in exps:
            c = (e - exps[0]).as_const()
            if c is None or c.denominator != 1:
                return "not-comparable"
            diffs.append(int(c))
        lo = min(diffs)
        sh = [x - lo for x in diffs]
        if any(sh):
            if a[0] != "s" or max(sh) > 6:
                return "not-comparable"
            # top-level factors of the sum only: what sits inside a benign function atom is part of that variable
            if any(x[0] in OPAQUE_KINDS and x not in benign for x in from_key(a[1]).atoms(deep=False)):
                return "not-comparable"
        shifts[a] = sh
    N = Poly()
    for i, (m, c) in enumerate(monos):
        rest = tuple(x for x in m if x[0][0] not in OPAQUE_KINDS or x[0] in benign)
        term = Poly({rest: c})
        for a, sh in shifts.items():
            if sh[i]:
                term = term * from_key(a[1]).pow(Poly.const(sh[i]))
        N = N + term
    return "equal" if N.is_zero() else "different"


def coefficient(p, atom):
    """p must be affine in `atom`: returns (coef, rest) with p = coef*atom + rest
    where neither contains atom at top level.  Raises NotComparable when atom
    occurs with another exponent or inside an opaque atom/exponent."""
    coef, rest = {}, {}
    for m, c in p.terms.items():
        hit = [(a, ek) for a, ek in m if a == atom]
        deep = set()
        for a, ek in m:
            if a != atom:
                deep |= Poly({((a, ek),): Fraction(1)}).atoms() - {a}
            else:
                deep |= _atoms_of_key(ek)
        if atom in deep:
            raise NotComparable("%s occurs inside an opaque factor or exponent" % show_atom(atom))
        if not hit:
            rest[m] = c
            continue
        if from_key(hit[0][1]).as_const() != 1:
            raise NonLinear("%s occurs with exponent %s" % (show_atom(atom), show(from_key(hit[0][1]))))
        m2 = tuple(x for x in m if x[0] != atom)
        coef[m2] = coef.get(m2, 0) + c
    return Poly(coef), Poly(rest)


class NonLinear(NotComparable):
    pass


# ----------------------------------------------------------------------------
# deep substitution and the even-in-t idiom  exp(-|t|)
# ----------------------------------------------------------------------------
def deep_subst(p, mapping):
    """replace atoms by forms everywhere (also inside opaque sums, function arguments and exponents);
    the result is re-normalised"""
    def atom_form(a):
        if a in mapping:
            return mapping[a]
        if a[0] == "s":
            return None  # rebuilt by the caller with its exponent
        if a[0] == "f":
            args = [deep_subst(from_key(k), mapping) for k in a[2]]
            keys = [x.key for x in args]
            if a[1] in ("max", "min"):
                keys = sorted(keys, key=_skey)
            return Poly.atom(("f", a[1], tuple(keys)))
        return Poly.atom(a)

    res = Poly()
    for m, c in p.terms.items():
        term = Poly.const(c)
        for a, ek in m:
            e = deep_subst(from_key(ek), mapping)
            if a[0] == "s" and a not in mapping:
                base = deep_subst(from_key(a[1]), mapping)
            else:
                base = atom_form(a)
            term = term * base.pow(e)
        res = res + term
    return res


def resolve_even_exp_abs(p):
    """u = exp(-|t|) takes only the values exp(t) and exp(-t) = 1/exp(t).  When the form is invariant
    under u -> 1/u (as a rational function) it equals the same form with u = exp(t); return that.
    Otherwise the form is returned unchanged."""
    for a in list(p.atoms()):
        if not (a[0] == "f" and a[1] == "exp" and len(a[2]) == 1):
            continue
        arg = from_key(a[2][0])
        if not arg.is_monomial():
            continue
        (m, c), = arg.terms.items()
        if c != -1 or len(m) != 1 or m[0][0][0] != "f" or m[0][0][1] != "abs" or from_key(m[0][1]).as_const() != 1:
            continue
        t = from_key(m[0][0][2][0])
        u = Poly.atom(a)
        try:
            flipped = deep_subst(p, {a: u.pow(Poly.const(-1))})
            if definitely_different(flipped, p) != "equal":
                continue
            p = deep_subst(p, {a: Poly.atom(("f", "exp", (t.key,)))})
        except NotComparable:
            continue
    return p


# ----------------------------------------------------------------------------
# differentiation of normal forms (product / power / chain rule; exp, log, sin, cos)
# ----------------------------------------------------------------------------
def occurs(p, atom, skip=None):
    """does `atom` occur anywhere in p (exponents, opaque sums, function arguments), not counting
    occurrences inside the atom `skip`"""
    def in_key(key):
        for m, _ in key:
            for a, ek in m:
                if in_atom(a) or in_key(ek):
                    return True
        return False

    def in_atom(a):
        if skip is not None and a == skip:
            return False
        if a == atom:
            return True
        if a[0] == "s":
            return in_key(a[1])
        if a[0] == "f":
            return any(in_key(k) for k in a[2])
        return False

    return in_key(p.key)


def diff_atom(a, v):
    if a == v:
        return ONE
    k = a[0]
    if k in ("n", "#", "pi"):
        return ZERO
    if k == "s":
        return diff(from_key(a[1]), v)
    if k == "f":
        args = [from_key(x) for x in a[2]]
        if not any(occurs(x, v) for x in args):
            return ZERO
        if a[1] == "exp" and len(args) == 1:
            return Poly.atom(a) * diff(args[0], v)
        if a[1] == "log" and len(args) == 1:
            return diff(args[0], v) / args[0]
        if a[1] == "sin" and len(args) == 1:
            return Poly.atom(("f", "cos", a[2])) * diff(args[0], v)
        if a[1] == "cos" and len(args) == 1:
            return -(Poly.atom(("f", "sin", a[2])) * diff(args[0], v))
        raise NotComparable("derivative of %s(...) with respect to %s" % (a[1], show_atom(v)))
    raise NotComparable("derivative of atom %r" % (a,))


def diff(p, v):
    """d p / d v for an atom v (a name, or an opaque atom treated as the independent variable)"""
    res = ZERO
    for m, c in p.terms.items():
        for i, (a, ek) in enumerate(m):
            e = from_key(ek)
            if occurs(e, v):
                raise NotComparable("%s occurs in an exponent" % show_atom(v))
            da = diff_atom(a, v)
            if da.is_zero():
                continue
            rest = Poly({tuple(x for j, x in enumerate(m) if j != i): c})
            res = res + rest * e * Poly.atom(a).pow(e - ONE) * da
    return res


# ----------------------------------------------------------------------------
# expression / straight-line evaluator
# ----------------------------------------------------------------------------
class Unknown:
    """A value outside the fragment; poisons whatever uses it."""

    def __init__(self, why):
        self.why = why

    def __repr__(self):
        return "<unknown: %s>" % self.why


class PyConst:
    """None / str / bool literal carried through the evaluator"""

    def __init__(self, v):
        self.v = v

    def __repr__(self):
        return "PyConst(%r)" % (self.v,)


class Buf:
    """an array the routine writes into (output parameter or fresh np.empty/zeros);
    stores through it are recorded, it has no symbolic value"""

    def __init__(self, role):
        self.role = role

    def __repr__(self):
        return "<buffer %s>" % self.role


class BuiltArray:
    """a small array constructed in the routine: np.zeros(<literal shape>) followed by stores at
    constant indices.  entries: index prefix -> Poly (everything else is 0)."""

    def __init__(self, shape):
        self.shape = tuple(shape)
        self.entries = {}

    def load(self, pattern):
        """pattern: per dimension an int or None (full slice).  The common value of all selected
        elements, or None when they differ / the pattern does not fit."""
        import itertools
        if len(pattern) > len(self.shape):
            return None
        pattern = list(pattern) + [None] * (len(self.shape) - len(pattern))
        ranges = []
        for p_, n in zip(pattern, self.shape):
            if n is None:  # extent not a literal: only a constant non-negative index can be followed
                if p_ is None or p_ < 0:
                    return None
                ranges.append([p_])
            elif p_ is None:
                ranges.append(range(n))
            else:
                if not (-n <= p_ < n):
                    return None
                ranges.append([p_ % n])
        vals = []
        for full in itertools.product(*ranges):
            best, v = -1, ZERO
            for k, val in self.entries.items():
                if len(k) > best and tuple(full[:len(k)]) == k:
                    best, v = len(k), val
            vals.append(v)
        if not vals or any(not (isinstance(v, Poly) and v == vals[0]) for v in vals):
            return None
        return vals[0]

    def __repr__(self):
        return "<built array %s %r>" % (self.shape, self.entries)


class Mask:
    """boolean array  L <op> R  with both sides in the monomial fragment"""

    def __init__(self, op, left, right, node=None):
        self.op, self.left, self.right, self.node = op, left, right, node

    @property
    def key(self):
        return (self.op, self.left.key, self.right.key)

    def dead(self):
        """never true: max(.., c) < c   /   min(.., c) > c   /  c > max(.., c)  / c < min(.., c)"""
        def bounded(p, fn, c):
            if not p.is_monomial():
                return False
            (m, k), = p.terms.items()
            if k != 1 or len(m) != 1:
                return False
            a, ek = m[0]
            return a[0] == "f" and a[1] == fn and from_key(ek).as_const() == 1 and c.key in a[2]
        if self.op == "<":
            return bounded(self.left, "max", self.right) or bounded(self.right, "min", self.left)
        if self.op == ">":
            return bounded(self.left, "min", self.right) or bounded(self.right, "max", self.left)
        return False

    def __repr__(self):
        return "%s %s %s" % (show(self.left), self.op, show(self.right))


class ArrayIn:
    """an input array whose rows are atoms ROLE[k]"""

    def __init__(self, role):
        self.role = role

    def __repr__(self):
        return "<array %s>" % self.role


ELSE = object()  # assumption value that is different from every literal


def num_const(v):
    if isinstance(v, bool):
        raise NotComparable("bool in arithmetic")
    if isinstance(v, int):
        return Poly.const(v)
    if isinstance(v, float):
        if v != v or v in (float("inf"), float("-inf")):
            raise NotComparable("non-finite literal")
        return Poly.const(Fraction(repr(v)))
    raise NotComparable("literal %r" % (v,))


def sub_key(sl):
    """normalised subscript: full slices / None / Ellipsis dropped; constants kept;
    anything else kept as ('e', source)."""
    elts = sl.elts if isinstance(sl, ast.Tuple) else [sl]
    out = []
    for e in elts:
        if isinstance(e, ast.Slice) and e.lower is None and e.upper is None and e.step is None:
            continue
        if isinstance(e, ast.Constant) and (e.value is None or e.value is Ellipsis):
            continue
        if isinstance(e, ast.Constant) and isinstance(e.value, int):
            out.append(e.value)
        else:
            out.append(("e", pf.src(e)))
    return tuple(out)


class Store:
    def __init__(self, base, key, op, value, node, depth, target=None, masks=None):
        self.masks = masks or []  # Mask values (or Unknown) found among the subscript elements
        self.target = target  # env value of the root name at the time of the store (Buf | ...)
        self.base = base  # root local name
        self.key = key  # sub_key
        self.op = op  # '=', '+=', '-=', '*=', '/='
        self.value = value  # Poly | Unknown
        self.node = node
        self.depth = depth  # number of enclosing loops / undecided branches

    def __repr__(self):
        return "<store %s%s %s %r>" % (self.base, list(self.key), self.op, self.value)


NP_UNARY_POW = {"np.sqrt": Fraction(1, 2), "numpy.sqrt": Fraction(1, 2)}
NP_OPAQUE_FUNCS = {"max": "max", "min": "min", "np.exp": "exp", "np.log": "log", "np.abs": "abs", "abs": "abs",
                   "np.maximum": "max", "np.minimum": "min", "np.cos": "cos", "np.sin": "sin"}
NP_IDENTITY = {"np.asarray", "np.array", "np.ascontiguousarray", "float", "np.float64"}


class Evaluator:
    """Evaluates expressions and straight-line statement lists of one function
    to normal forms.

    env        name -> Poly | tuple | PyConst | Unknown
    assume     {source text of an expression: python value | ELSE} used to decide
               `if` tests of the form  <expr> == <literal>  /  in [...]
    leaf(node) hook for Attribute / Subscript / free Name -> value or None
    call(node, self) hook for calls the evaluator does not know -> value or None
    """

    def __init__(self, env=None, assume=None, leaf=None, call=None, module_consts=None):
        self.env = dict(env or {})
        self.assume = dict(assume or {})
        self.leaf = leaf
        self.call = call
        self.module_consts = module_consts or {}
        self.elementwise_index = False  # a constant index into an elementwise expression selects "the" element
        self.eval_expr_calls = False  # evaluate calls made for effect (lets the call hook observe them)
        self.name_atoms = {}  # local name -> atom name, applied when the name is bound to a non-Poly value
        self.stores = []
        self.returns = []  # (value, depth)
        self.depth = 0
        self._const_busy = set()

    # -- expressions ---------------------------------------------------------
    def ev(self, node):
        """-> Poly | tuple | PyConst | Unknown ; raises NotComparable on use of
        Unknown in arithmetic"""
        if isinstance(node, ast.Constant):
            if node.value is None or isinstance(node.value, (str, bool)):
                return PyConst(node.value)
            return num_const(node.value)
        if isinstance(node, ast.Name):
            if node.id in self.env:
                return self.env[node.id]
            if self.leaf is not None:
                v = self.leaf(node)
                if v is not None:
                    return v
            if node.id in self.module_consts and node.id not in self._const_busy:
                self._const_busy.add(node.id)
                try:
                    return Evaluator(module_consts=self.module_consts, leaf=None).ev(self.module_consts[node.id])
                finally:
                    self._const_busy.discard(node.id)
            return Unknown("free name %s" % node.id)
        if isinstance(node, (ast.Tuple, ast.List)):
            return tuple(self.ev(e) for e in node.elts)
        if isinstance(node, ast.UnaryOp):
            if isinstance(node.op, ast.USub):
                return -self.poly(node.operand)
            if isinstance(node.op, ast.UAdd):
                return self.poly(node.operand)
            return Unknown("unary %s" % type(node.op).__name__)
        if isinstance(node, ast.BinOp):
            a = self.poly(node.left)
            b = self.poly(node.right)
            if isinstance(node.op, ast.Add):
                return a + b
            if isinstance(node.op, ast.Sub):
                return a - b
            if isinstance(node.op, ast.Mult):
                return a * b
            if isinstance(node.op, ast.Div):
                return a / b
            if isinstance(node.op, ast.Pow):
                return a.pow(b)
            raise NotComparable("operator %s" % type(node.op).__name__)
        if isinstance(node, ast.Attribute):
            s = pf.src(node)
            if s in ("np.pi", "numpy.pi", "math.pi"):
                return Poly.atom(("pi",))
            if self.leaf is not None:
                v = self.leaf(node)
                if v is not None:
                    return v
            if pf.is_self_attr(node):
                return Poly.name("self." + node.attr)
            return Unknown("attribute %s" % s)
        if isinstance(node, ast.Subscript):
            if self.leaf is not None:
                v = self.leaf(node)
                if v is not None:
                    return v
            base = self.ev(node.value)
            if isinstance(base, ArrayIn):
                k = sub_key(node.slice)
                if k and all(isinstance(x, int) for x in k):
                    return Poly.name("%s[%s]" % (base.role, ",".join(str(x) for x in k)))
                if k == ():
                    return base
                return Unknown("row %s of %s" % (pf.src(node.slice), base.role))
            if isinstance(base, BuiltArray):
                sl = node.slice
                pat = []
                for e in (sl.elts if isinstance(sl, ast.Tuple) else [sl]):
                    if isinstance(e, ast.Slice) and e.lower is None and e.upper is None and e.step is None:
                        pat.append(None)
                    elif isinstance(e, ast.Constant) and isinstance(e.value, int) and not isinstance(e.value, bool):
                        pat.append(e.value)
                    else:
                        return Unknown("index %s of a constructed array" % pf.src(e))
                v = base.load(pat)
                return v if v is not None else Unknown("elements %s of a constructed array differ" % pf.src(sl))
            if isinstance(base, Mask):
                return base  # a row / slice of a mask is governed by the same condition
            if isinstance(base, tuple):
                k = sub_key(node.slice)
                if len(k) == 1 and isinstance(k[0], int) and -len(base) <= k[0] < len(base):
                    return base[k[0]]
                return Unknown("tuple index %s" % pf.src(node.slice))
            if isinstance(base, Poly):
                k = sub_key(node.slice)
                if k == ():
                    return base  # x[:] / x[None, :]
                if self.elementwise_index and all(isinstance(x, int) for x in k):
                    return base
            return Unknown("subscript %s" % pf.src(node))
        if isinstance(node, ast.Call):
            return self._call(node)
        if isinstance(node, ast.Compare):
            ops = {ast.Lt: "<", ast.Gt: ">", ast.LtE: "<=", ast.GtE: ">="}
            if len(node.ops) == 1 and type(node.ops[0]) in ops:
                try:
                    return Mask(ops[type(node.ops[0])], self.poly(node.left), self.poly(node.comparators[0]), node)
                except NotComparable:
                    pass
            return Unknown("comparison")
        if isinstance(node, ast.IfExp):
            d = self.decide(node.test)
            if d is True:
                return self.ev(node.body)
            if d is False:
                return self.ev(node.orelse)
            return Unknown("undecided conditional expression")
        return Unknown("expression %s" % type(node).__name__)

    def poly(self, node):
        v = self.ev(node)
        if isinstance(v, Poly):
            return v
        raise NotComparable("%s is %r" % (pf.src(node)[:60], v))

    def _call(self, node):
        name = pf.call_name(node)
        if isinstance(self.assume.get(pf.src(node)), bool):
            return PyConst(self.assume[pf.src(node)])  # e.g. isinstance(rho, np.ndarray) assumed true
        if name in NP_UNARY_POW and len(node.args) == 1:
            return self.poly(node.args[0]).pow(Poly.const(NP_UNARY_POW[name]))
        if name in NP_OPAQUE_FUNCS and not node.keywords:
            args = [self.poly(a) for a in node.args]
            keys = [a.key for a in args]
            f = NP_OPAQUE_FUNCS[name]
            if f in ("max", "min"):
                keys = sorted(keys, key=_skey)
            return Poly.atom(("f", f, tuple(keys)))
        if name in NP_IDENTITY and len(node.args) >= 1 and name.startswith("np.") \
                and isinstance(node.args[0], (ast.List, ast.Tuple)) and len(node.args[0].elts) == 1:
            return self.ev(node.args[0].elts[0])  # np.asarray([v]): the scalar wrapped as a one-point array
        if name in NP_IDENTITY and len(node.args) == 1:
            return self.ev(node.args[0])
        if name in ("np.divide", "np.true_divide") and len(node.args) == 2:
            return self.poly(node.args[0]) / self.poly(node.args[1])
        if name in ("np.power",) and len(node.args) == 2:
            return self.poly(node.args[0]).pow(self.poly(node.args[1]))
        if name in ("np.multiply",) and len(node.args) == 2:
            return self.poly(node.args[0]) * self.poly(node.args[1])
        if isinstance(node.func, ast.Attribute) and node.func.attr in ("copy", "item") and not node.args:
            return self.ev(node.func.value)
        if name in ("np.zeros", "numpy.zeros") and node.args and isinstance(node.args[0], (ast.Tuple, ast.List)) \
                and 0 < len(node.args[0].elts) <= 4:
            dims = [e.value if isinstance(e, ast.Constant) and isinstance(e.value, int) and 0 < e.value <= 8 else None
                    for e in node.args[0].elts]
            if any(d is not None for d in dims):
                return BuiltArray(dims)
        if self.call is not None:
            v = self.call(node, self)
            if v is not None:
                return v
        if name in ("np.empty_like", "np.zeros_like", "np.empty", "np.zeros"):
            return Buf("fresh:%s" % name)
        return Unknown("call %s" % (name or pf.src(node.func)))

    # -- tests ---------------------------------------------------------------
    def decide(self, test):
        """True / False / None"""
        ts = pf.src(test)
        if ts in self.assume and isinstance(self.assume[ts], bool):
            return self.assume[ts]
        if isinstance(test, ast.Name) and isinstance(self.env.get(test.id), PyConst) \
                and isinstance(self.env[test.id].v, bool):
            return self.env[test.id].v
        if isinstance(test, ast.BoolOp):
            vals = [self.decide(v) for v in test.values]
            if isinstance(test.op, ast.And):
                if any(v is False for v in vals):
                    return False
                return True if all(v is True for v in vals) else None
            if any(v is True for v in vals):
                return True
            return False if all(v is False for v in vals) else None
        if isinstance(test, ast.UnaryOp) and isinstance(test.op, ast.Not):
            d = self.decide(test.operand)
            return None if d is None else (not d)
        if isinstance(test, ast.Compare) and len(test.ops) == 1:
            l, op, r = test.left, test.ops[0], test.comparators[0]
            ls = pf.src(l)
            if ls in self.assume and isinstance(self.assume[ls], tuple) and len(self.assume[ls]) == 2 \
                    and self.assume[ls][0] in ("gt", "lt") and isinstance(r, ast.Constant) \
                    and isinstance(r.value, (int, float)) and not isinstance(r.value, bool):
                # the value is only known to lie above / below a bound
                kind, c = self.assume[ls]
                rv = r.value
                if kind == "gt" and rv <= c:      # value > c >= rv
                    return {ast.Gt: True, ast.GtE: True, ast.NotEq: True, ast.Lt: False, ast.LtE: False,
                            ast.Eq: False}.get(type(op))
                if kind == "lt" and rv >= c:      # value < c <= rv
                    return {ast.Lt: True, ast.LtE: True, ast.NotEq: True, ast.Gt: False, ast.GtE: False,
                            ast.Eq: False}.get(type(op))
                return None
            if ls in self.assume:
                val = self.assume[ls]
                if isinstance(op, (ast.Lt, ast.LtE, ast.Gt, ast.GtE)) and isinstance(r, ast.Constant) \
                        and val is not ELSE and isinstance(val, (int, float)) and isinstance(r.value, (int, float)):
                    return {ast.Lt: val < r.value, ast.LtE: val <= r.value, ast.Gt: val > r.value,
                            ast.GtE: val >= r.value}[type(op)]
                if isinstance(op, (ast.Eq, ast.NotEq)) and isinstance(r, ast.Constant):
                    eq = (val is not ELSE) and val == r.value
                    return eq if isinstance(op, ast.Eq) else not eq
                if isinstance(op, (ast.In, ast.NotIn)) and isinstance(r, (ast.List, ast.Tuple, ast.Set)) \
                        and all(isinstance(e, ast.Constant) for e in r.elts):
                    isin = (val is not ELSE) and val in [e.value for e in r.elts]
                    return isin if isinstance(op, ast.In) else not isin
            if isinstance(op, (ast.Eq, ast.NotEq, ast.Lt, ast.LtE, ast.Gt, ast.GtE)) and ls not in self.assume:
                try:
                    a_, b_ = self.ev(l), self.ev(r)
                except NotComparable:
                    a_ = b_ = None
                ca = a_.as_const() if isinstance(a_, Poly) else None
                cb = b_.as_const() if isinstance(b_, Poly) else None
                if ca is not None and cb is not None:
                    return {ast.Eq: ca == cb, ast.NotEq: ca != cb, ast.Lt: ca < cb, ast.LtE: ca <= cb,
                            ast.Gt: ca > cb, ast.GtE: ca >= cb}[type(op)]
            if isinstance(op, (ast.Is, ast.IsNot)) and isinstance(r, ast.Constant) and r.value is None \
                    and isinstance(l, ast.Name) and l.id in self.env:
                v = self.env[l.id]
                if isinstance(v, PyConst):
                    isn = v.v is None
                    return isn if isinstance(op, ast.Is) else not isn
                if not isinstance(v, Unknown):
                    return isinstance(op, ast.IsNot)
        return None

    # -- statements ----------------------------------------------------------
    def run(self, stmts):
        for st in stmts:
            self.stmt(st)

    def _bind(self, target, value, node):
        if isinstance(target, ast.Name):
            if target.id in self.name_atoms and not isinstance(value, Poly):
                value = Poly.name(self.name_atoms[target.id])
            self.env[target.id] = value
        elif isinstance(target, (ast.Tuple, ast.List)):
            if isinstance(value, tuple) and len(value) == len(target.elts):
                for t, v in zip(target.elts, value):
                    self._bind(t, v, node)
            else:
                for t in target.elts:
                    self._bind(t, Unknown("unpacking of %r" % (value,)), node)
        elif isinstance(target, ast.Subscript):
            base = pf.base_name(target)
            key = sub_key(target.slice) if isinstance(target.value, ast.Name) else (("e", pf.src(target)),)
            cur = self.env.get(base)
            if isinstance(cur, BuiltArray) and isinstance(target.value, ast.Name):
                sl = target.slice
                elts = sl.elts if isinstance(sl, ast.Tuple) else [sl]
                if all(isinstance(e, ast.Constant) and isinstance(e.value, int) for e in elts) and isinstance(value, Poly) \
                        and len(elts) <= len(cur.shape) \
                        and all(0 <= e.value and (n is None or e.value < n) for e, n in zip(elts, cur.shape)):
                    cur.entries[tuple(e.value for e in elts)] = value
                else:
                    self.env[base] = Unknown("store %s into a constructed array" % pf.src(node)[:50])
                return
            if isinstance(cur, Poly) and isinstance(target.value, ast.Name):
                # store into a local that currently has a symbolic value
                if key == ():
                    self.env[base] = value  # name[:] = e   rebinds the whole array
                    return
                # masked store: harmless only when it re-asserts a bound already
                # present in the value ( x = max(y, c); x[x < c] = c )
                if isinstance(value, Poly) and _reasserts_bound(cur, value):
                    return
                ms = self._masks_of(target)
                if len(ms) == 1 and isinstance(ms[0], Mask) and isinstance(value, Poly):
                    mk = ms[0]
                    if mk.dead() or mask_never(mk):
                        return  # the mask is never true
                    if mk.op == "<" and mk.left == cur and mk.right == value:
                        self.env[base] = Poly.atom(("f", "max", tuple(sorted([cur.key, value.key], key=_skey))))
                        return
                self.env[base] = Unknown("partial store %s" % pf.src(node)[:60])
                return
            self.stores.append(Store(base, key, "=", value, node, self.depth, self.env.get(base),
                                     self._masks_of(target)))
        else:
            pass

    def _masks_of(self, target):
        """boolean-mask elements of a store's subscript: every element that is not an
        integer constant, a slice, None/Ellipsis or a plain loop index"""
        out = []
        if not isinstance(target, ast.Subscript):
            return out
        sl = target.slice
        for e in (sl.elts if isinstance(sl, ast.Tuple) else [sl]):
            if isinstance(e, (ast.Slice, ast.Constant)):
                continue
            v = self._safe(lambda e=e: self.ev(e))
            if isinstance(v, Mask):
                out.append(v)
            elif isinstance(e, ast.Compare) or (isinstance(v, Unknown) and "comparison" in v.why):
                out.append(v)
        return out

    def _safe(self, fn):
        try:
            return fn()
        except NotComparable as e:
            return Unknown(str(e))

    def stmt(self, st):
        if isinstance(st, ast.Assign):
            v = self._safe(lambda: self.ev(st.value))
            for t in st.targets:
                self._bind(t, v, st)
            return
        if isinstance(st, ast.AnnAssign) and st.value is not None:
            self._bind(st.target, self._safe(lambda: self.ev(st.value)), st)
            return
        if isinstance(st, ast.AugAssign):
            ops = {ast.Add: "+=", ast.Sub: "-=", ast.Mult: "*=", ast.Div: "/="}
            op = ops.get(type(st.op))
            v = self._safe(lambda: self.poly(st.value))
            if isinstance(st.target, ast.Name) or (
                    isinstance(st.target, ast.Subscript) and isinstance(st.target.value, ast.Name)
                    and isinstance(self.env.get(st.target.value.id), Poly) and sub_key(st.target.slice) == ()):
                nm = st.target.id if isinstance(st.target, ast.Name) else st.target.value.id
                cur = self.env.get(nm, Unknown("augmented assignment to unbound %s" % nm))
                if op is None or not isinstance(cur, Poly) or not isinstance(v, Poly):
                    self.env[nm] = Unknown("augmented assignment %s" % pf.src(st)[:60])
                else:
                    try:
                        self.env[nm] = {"+=": cur + v, "-=": cur - v, "*=": cur * v}[op] if op != "/=" else cur / v
                    except NotComparable as e:
                        self.env[nm] = Unknown(str(e))
                return
            if isinstance(st.target, ast.Subscript):
                base = pf.base_name(st.target)
                key = sub_key(st.target.slice) if isinstance(st.target.value, ast.Name) else (("e", pf.src(st.target)),)
                if isinstance(self.env.get(base), Poly):
                    self.env[base] = Unknown("partial augmented store %s" % pf.src(st)[:60])
                    return
                self.stores.append(Store(base, key, op or "?=", v, st, self.depth, self.env.get(base),
                                         self._masks_of(st.target)))
            return
        if isinstance(st, ast.Return):
            v = self._safe(lambda: self.ev(st.value)) if st.value is not None else PyConst(None)
            self.returns.append((v, self.depth))
            raise _Returned()
        if isinstance(st, ast.If):
            d = self.decide(st.test)
            if d is True:
                self.run(st.body)
            elif d is False:
                self.run(st.orelse)
            else:
                self._both(st.body, st.orelse)
            return
        if isinstance(st, (ast.For, ast.While)):
            # the body is evaluated once, as a conditional region; names it
            # rebinds become unknown afterwards
            before = dict(self.env)
            if isinstance(st, ast.For):
                self._bind(st.target, Unknown("loop variable"), st)
            self.depth += 1
            try:
                self.run(st.body)
            except _Returned:
                pass
            self.depth -= 1
            for k, v in list(self.env.items()):
                if k not in before or before[k] is not v:
                    if not (isinstance(v, Poly) and isinstance(before.get(k), Poly) and before[k] == v):
                        self.env[k] = Unknown("assigned in a loop")
            return
        if isinstance(st, ast.Expr):
            if self.eval_expr_calls and isinstance(st.value, ast.Call):
                self._safe(lambda: self.ev(st.value))
            return  # calls for effect keep the symbolic identity of their arguments
        if isinstance(st, (ast.Pass, ast.Assert, ast.Raise)):
            if isinstance(st, ast.Raise):
                raise _Returned()
            return
        if isinstance(st, (ast.With,)):
            self.run(st.body)
            return
        if isinstance(st, ast.Try):
            self._both(st.body, [])
            return
        # anything else: poison every name it may bind
        for n in ast.walk(st):
            if isinstance(n, ast.Name) and isinstance(n.ctx, ast.Store):
                self.env[n.id] = Unknown("bound by %s" % type(st).__name__)

    def _both(self, body, orelse):
        e0 = dict(self.env)
        self.depth += 1
        r1 = r2 = False
        try:
            self.run(body)
        except _Returned:
            r1 = True
        e1 = self.env
        self.env = dict(e0)
        try:
            self.run(orelse)
        except _Returned:
            r2 = True
        e2 = self.env
        self.depth -= 1
        if r1 and r2:
            raise _Returned()
        if r1:
            self.env = e2
            return
        if r2:
            self.env = e1
            return
        out = {}
        for k in set(e1) | set(e2):
            a, b = e1.get(k), e2.get(k)
            if a is b or (isinstance(a, Poly) and isinstance(b, Poly) and a == b):
                out[k] = a
            elif isinstance(a, tuple) and isinstance(b, tuple) and a == b:
                out[k] = a
            else:
                out[k] = Unknown("differs between branches")
        self.env = out

    def run_function(self, fn):
        """Evaluate a whole function body.  Returns the value of its single
        unconditional return (Unknown otherwise; PyConst(None) if it falls off)."""
        try:
            self.run(fn.body)
        except _Returned:
            pass
        uncond = [v for v, d in self.returns if d == 0]
        if len(self.returns) == 1 and uncond:
            return uncond[0]
        if not self.returns:
            return PyConst(None)
        return Unknown("several returns")


class _Returned(Exception):
    pass


def positive_monomial(p):
    """a single product with a positive coefficient: positive for positive names"""
    if not p.is_monomial():
        return False
    (m, c), = p.terms.items()
    return c > 0 and all(a[0] in ("n", "#", "pi") for a, _ in m)


def mask_never(mk):
    """L < c with L a positive product and c <= 0 (names denote positive reals)"""
    c = mk.right.as_const()
    if mk.op in ("<", "<=") and c is not None and (c < 0 or (c == 0 and mk.op == "<")) and positive_monomial(mk.left):
        return True
    c = mk.left.as_const()
    if mk.op in (">", ">=") and c is not None and (c < 0 or (c == 0 and mk.op == ">")) and positive_monomial(mk.right):
        return True
    return False


def drop_inactive_clamps(p):
    """max(P, c) -> P when P is a positive product and c <= 0 (never active for positive names)"""
    mapping = {}
    for a in p.atoms():
        if a[0] == "f" and a[1] == "max" and len(a[2]) == 2:
            x, y = from_key(a[2][0]), from_key(a[2][1])
            for u, v in ((x, y), (y, x)):
                c = v.as_const()
                if c is not None and c <= 0 and positive_monomial(u):
                    mapping[a] = u
    if not mapping:
        return p
    try:
        return p.subst(mapping)
    except NotComparable:
        return p


def link_imported_constants(prog):
    """`from <repo module> import NAME`: make the module-level expression of NAME visible in the
    importing module's table of constants (never overriding its own assignments)."""
    for rel, m in prog.modules.items():
        for local, (src_mod, orig) in list(m.imports.items()):
            if orig is None or local in m.assigns:
                continue
            rel2 = prog._modname.get(src_mod)
            if rel2 is None or rel2 == rel:
                continue
            m2 = prog.modules[rel2]
            if orig in m2.assigns:
                m.assigns[local] = m2.assigns[orig]


def _reasserts_bound(cur, value):
    """cur contains, as its only content, max/min(…, value)"""
    if not cur.is_monomial():
        return False
    (m, c), = cur.terms.items()
    if c != 1 or len(m) != 1:
        return False
    a, ek = m[0]
    if a[0] != "f" or a[1] not in ("max", "min") or from_key(ek).as_const() != 1:
        return False
    return value.key in a[2]


def bind_params(fn, values, skip_self=True):
    """positional binding of a FunctionDef's parameters to values (list); missing
    ones get their default expression evaluated by a bare Evaluator or Unknown."""
    args = list(fn.args.args)
    if skip_self and args and args[0].arg in ("self", "cls"):
        args = args[1:]
    env = {}
    defaults = fn.args.defaults
    ndef = len(defaults)
    for i, a in enumerate(args):
        if i < len(values):
            env[a.arg] = values[i]
        else:
            j = i - (len(args) - ndef)
            if j >= 0:
                try:
                    env[a.arg] = Evaluator().ev(defaults[j])
                except NotComparable:
                    env[a.arg] = Unknown("default")
            else:
                env[a.arg] = Unknown("unbound parameter %s" % a.arg)
    return env


# ----------------------------------------------------------------------------
# units of measure: linear equations over Q
# ----------------------------------------------------------------------------
class UVec:
    """exponent vector over unknown unit symbols"""

    __slots__ = ("d",)

    def __init__(self, d=None):
        self.d = {k: Fraction(v) for k, v in (d or {}).items() if v != 0}

    def __add__(self, o):
        r = dict(self.d)
        for k, v in o.d.items():
            r[k] = r.get(k, 0) + v
        return UVec(r)

    def __sub__(self, o):
        return self + o.scale(-1)

    def scale(self, c):
        return UVec({k: v * c for k, v in self.d.items()})

    def is_zero(self):
        return not self.d

    def __repr__(self):
        if not self.d:
            return "1"
        return " ".join("%s^%s" % (k, v) if v != 1 else k for k, v in sorted(self.d.items()))


POLYM = "polymorphic"  # any unit (literal zero, clamp constants, np.zeros)


class Equation:
    def __init__(self, vec, why, node=None):
        self.vec = vec
        self.why = why
        self.node = node


class LinSys:
    """Row space over Q; incremental Gaussian elimination."""

    def __init__(self):
        self.rows = []  # (pivot symbol, {sym: Fraction}) with pivot coefficient 1

    def reduce(self, vec):
        v = dict(vec.d)
        for piv, row in self.rows:
            c = v.get(piv)
            if c:
                for k, x in row.items():
                    v[k] = v.get(k, 0) - c * x
                    if v[k] == 0:
                        del v[k]
        return UVec(v)

    def add(self, vec):
        """returns True when vec was independent of the rows so far"""
        v = self.reduce(vec)
        if v.is_zero():
            return False
        piv = sorted(v.d)[0]
        c = v.d[piv]
        row = {k: x / c for k, x in v.d.items()}
        # keep reduced form: eliminate the new pivot from the older rows
        new_rows = []
        for p, r in self.rows:
            if piv in r:
                f = r[piv]
                r = dict(r)
                for k, x in row.items():
                    r[k] = r.get(k, 0) - f * x
                    if r[k] == 0:
                        del r[k]
            new_rows.append((p, r))
        new_rows.append((piv, row))
        self.rows = new_rows
        return True

    def implied(self, vec):
        return self.reduce(vec).is_zero()


class UnitInfer:
    """Units-of-measure inference for one routine body.

    env     name -> UVec | POLYM | ('idx', attr) | tuple
    unknown(kind, name) creates/returns the unit symbol of a leaf
    Equations are appended to self.eqs; they are *collected*, not solved here.
    """

    SMALL = 1e-6

    def __init__(self, leaf, env=None, class_consts=None):
        self.leaf = leaf  # leaf(node, self) -> UVec | POLYM | ('idx', name) | None
        self.env = dict(env or {})
        self.eqs = []
        self.sinks = []  # (kind, key, op, UVec|POLYM, node) for stores the driver cares about
        self.class_consts = class_consts or {}

    def same(self, a, b, why, node):
        """a and b must have equal units; returns the joined unit"""
        if a is POLYM:
            return b
        if b is POLYM:
            return a
        d = a - b
        if not d.is_zero():
            self.eqs.append(Equation(d, why, node))
        return a

    def dimless(self, a, why, node):
        if a is POLYM:
            return
        if not a.is_zero():
            self.eqs.append(Equation(a, why, node))

    def is_bound(self, node):
        """a clamp bound: a numeric literal, possibly through a named module/class-level constant"""
        if isinstance(node, ast.Constant) and isinstance(node.value, (int, float)) and not isinstance(node.value, bool):
            return True
        if _is_neg_const(node):
            return True
        return self.leaf(("const?", node), self) is True

    def const_exponent(self, node):
        """Fraction value of a constant-foldable exponent or None"""
        try:
            v = Evaluator().ev(node)
        except NotComparable:
            return None
        if isinstance(v, Poly):
            return v.as_const()
        return None

    def u(self, node, clamp=False):
        """unit of an expression"""
        if isinstance(node, ast.Constant):
            v = node.value
            if isinstance(v, (int, float)) and not isinstance(v, bool):
                if v == 0 or clamp:
                    return POLYM
                return UVec()
            return UVec()
        if isinstance(node, ast.Name):
            if node.id in self.env:
                v = self.env[node.id]
                if isinstance(v, tuple) and v and v[0] == "idx":
                    raise AnalysisError("index alias %s used as a value" % node.id)
                return v
            r = self.leaf(node, self)
            if r is None:
                raise AnalysisError("units: free name %s" % node.id)
            return r
        if isinstance(node, ast.Attribute):
            s = pf.src(node)
            if s in ("np.pi", "numpy.pi", "math.pi", "np.inf"):
                return UVec()
            if node.attr in ("size", "ndim", "shape"):
                return UVec()
            if node.attr == "T":
                return self.u(node.value)
            r = self.leaf(node, self)
            if r is None:
                raise AnalysisError("units: attribute %s" % s)
            return r
        if isinstance(node, ast.Subscript):
            r = self.leaf(node, self)
            if r is not None:
                return r
            return self.u(node.value)  # indexing / slicing a local preserves its unit
        if isinstance(node, ast.UnaryOp):
            if isinstance(node.op, ast.Not):
                return UVec()
            if isinstance(node.op, ast.USub) and isinstance(node.operand, ast.Constant) and clamp:
                return POLYM
            return self.u(node.operand)
        if isinstance(node, ast.BinOp):
            op = node.op
            if isinstance(op, (ast.Add, ast.Sub)):
                a = self.u(node.left)
                b = self.u(node.right)
                # additive regulariser literal (x + 1e-16)
                for lit, other in ((node.left, b), (node.right, a)):
                    if isinstance(lit, ast.Constant) and isinstance(lit.value, (int, float)) \
                            and 0 < abs(lit.value) <= self.SMALL:
                        return other
                return self.same(a, b, "operands of %s in `%s`" % (
                    "+" if isinstance(op, ast.Add) else "-", pf.src(node)[:90]), node)
            if isinstance(op, (ast.Mult, ast.Div)):
                a = self.u(node.left)
                b = self.u(node.right)
                if a is POLYM or b is POLYM:
                    return POLYM
                return a + b if isinstance(op, ast.Mult) else a - b
            if isinstance(op, ast.Pow):
                a = self.u(node.left)
                c = self.const_exponent(node.right)
                if c is not None:
                    return POLYM if a is POLYM else a.scale(c)
                # symbolic exponent: base and exponent must be dimensionless
                self.dimless(self.u(node.right), "exponent `%s`" % pf.src(node.right)[:60], node)
                self.dimless(a, "base of a symbolic power `%s`" % pf.src(node)[:90], node)
                return UVec()
            if isinstance(op, (ast.BitOr, ast.BitAnd)):
                return UVec()
            raise AnalysisError("units: operator %s" % type(op).__name__)
        if isinstance(node, ast.Compare):
            a = self.u(node.left)
            for c in node.comparators:
                a = self.same(a, self.u(c, clamp=True), "operands of the comparison `%s`" % pf.src(node)[:80], node)
            return UVec()
        if isinstance(node, ast.BoolOp):
            for v in node.values:
                self.u(v)
            return UVec()
        if isinstance(node, ast.Tuple):
            return tuple(self.u(e) for e in node.elts)
        if isinstance(node, ast.Call):
            return self._call(node)
        raise AnalysisError("units: expression %s" % type(node).__name__)

    def _call(self, node):
        name = pf.call_name(node) or ""
        args = node.args
        short = name.split(".")[-1]
        if name.startswith(("np.", "numpy.")) or name in ("abs", "float"):
            if short in ("sqrt",) and len(args) == 1:
                a = self.u(args[0])
                return a if a is POLYM else a.scale(Fraction(1, 2))
            if short in ("exp", "log", "cos", "sin", "tanh", "arcsinh") and len(args) == 1:
                self.dimless(self.u(args[0]), "argument of %s in `%s`" % (short, pf.src(node)[:90]), node)
                return UVec()
            if short in ("abs", "asarray", "array", "ascontiguousarray", "float", "copy", "real") and len(args) >= 1:
                return self.u(args[0])
            if short in ("maximum", "minimum") and len(args) == 2:
                a = POLYM if self.is_bound(args[0]) else self.u(args[0])
                b = POLYM if self.is_bound(args[1]) else self.u(args[1])
                return self.same(a, b, "arguments of %s in `%s`" % (short, pf.src(node)[:90]), node)
            if short == "clip" and len(args) == 3:
                a = self.u(args[0])
                for b in args[1:]:
                    a = self.same(a, POLYM if self.is_bound(b) else self.u(b),
                                  "bounds of clip in `%s`" % pf.src(node)[:90], node)
                return a
            if short in ("divide", "true_divide") and len(args) == 2:
                a, b = self.u(args[0]), self.u(args[1])
                for kw in node.keywords:
                    self.u(kw.value)
                return POLYM if (a is POLYM or b is POLYM) else a - b
            if short == "multiply" and len(args) == 2:
                a, b = self.u(args[0]), self.u(args[1])
                return POLYM if (a is POLYM or b is POLYM) else a + b
            if short == "power" and len(args) == 2:
                a = self.u(args[0])
                for kw in node.keywords:
                    self.u(kw.value)
                c = self.const_exponent(args[1])
                if c is None:
                    self.dimless(self.u(args[1]), "exponent", node)
                    self.dimless(a, "base of a symbolic power `%s`" % pf.src(node)[:90], node)
                    return UVec()
                return POLYM if a is POLYM else a.scale(c)
            if short in ("isnan", "isfinite", "isinf") and len(args) == 1:
                self.u(args[0])
                return UVec()
            if short in ("zeros_like", "zeros", "empty_like", "empty"):
                return POLYM
            if short in ("ones_like", "ones"):
                return UVec()
            if short == "where" and len(args) == 3:
                self.u(args[0])
                return self.same(self.u(args[1]), self.u(args[2]), "branches of where", node)
        if isinstance(node.func, ast.Attribute) and node.func.attr in ("copy", "item", "astype"):
            return self.u(node.func.value)
        r = self.leaf(node, self)
        if r is not None:
            return r
        raise AnalysisError("units: unrecognised call `%s`" % pf.src(node)[:80])

    # -- statements ----------------------------------------------------------
    def run(self, stmts):
        for st in stmts:
            self.stmt(st)

    def bind(self, t, v, st):
        if isinstance(t, ast.Name):
            self.env[t.id] = v
        elif isinstance(t, (ast.Tuple, ast.List)):
            if isinstance(v, tuple) and len(v) == len(t.elts) and not (v and v[0] == "idx"):
                for tt, vv in zip(t.elts, v):
                    self.bind(tt, vv, st)
            else:
                raise AnalysisError("units: cannot unpack in `%s`" % pf.src(st)[:80])
        elif isinstance(t, ast.Subscript):
            self.store(t, "=", v, st)
        else:
            raise AnalysisError("units: assignment target in `%s`" % pf.src(st)[:80])

    def store(self, t, op, v, st):
        base = pf.base_name(t)
        r = self.leaf(("store", t, op, v, st), self)
        if r is True:
            return
        if base in self.env and isinstance(t.value, ast.Name):
            cur = self.env[base]
            full = sub_key(t.slice) == ()
            if op == "=" and full:
                self.env[base] = v  # name[:] = e
                return
            if op in ("=", "+=", "-="):
                if cur is POLYM:
                    if v is not POLYM:
                        self.env[base] = v
                elif v is not POLYM:
                    self.same(cur, v, "store `%s`" % pf.src(st)[:90], st)
                return
            if op in ("*=", "/="):
                if cur is POLYM or v is POLYM:
                    self.env[base] = POLYM
                elif full:
                    self.env[base] = cur + v if op == "*=" else cur - v
                else:
                    self.dimless(v, "partial scaling `%s`" % pf.src(st)[:90], st)
                return
        raise AnalysisError("units: store to `%s` not understood" % pf.src(t)[:60])

    def value(self, node):
        """unit of an rvalue that may be a tuple / index alias"""
        if isinstance(node, ast.Tuple):
            return tuple(self.value(e) for e in node.elts)
        r = self.leaf(("rvalue", node), self)
        if r is not None:
            return r
        return self.u(node)

    def stmt(self, st):
        if isinstance(st, ast.Assign):
            v = self.value(st.value)
            if any(isinstance(t, ast.Subscript) and sub_key(t.slice) != () for t in st.targets) and (
                    isinstance(st.value, ast.Constant) or _is_neg_const(st.value)):
                v = POLYM  # masked store of a literal: clamp / sanitising constant
            for t in st.targets:
                self.bind(t, v, st)
        elif isinstance(st, ast.AugAssign):
            ops = {ast.Add: "+=", ast.Sub: "-=", ast.Mult: "*=", ast.Div: "/="}
            op = ops.get(type(st.op))
            if op is None:
                raise AnalysisError("units: augmented operator in `%s`" % pf.src(st)[:80])
            v = self.u(st.value)
            if isinstance(st.target, ast.Name):
                cur = self.env.get(st.target.id)
                if cur is None:
                    raise AnalysisError("units: augmented assignment to unbound %s" % st.target.id)
                if op in ("+=", "-="):
                    self.env[st.target.id] = self.same(cur, v, "`%s`" % pf.src(st)[:90], st)
                elif cur is POLYM or v is POLYM:
                    self.env[st.target.id] = POLYM
                else:
                    self.env[st.target.id] = cur + v if op == "*=" else cur - v
            else:
                self.store(st.target, op, v, st)
        elif isinstance(st, ast.If):
            self.u(st.test)
            self.run(st.body)
            self.run(st.orelse)
        elif isinstance(st, (ast.Raise, ast.Pass, ast.Return)):
            if isinstance(st, ast.Return) and st.value is not None:
                self.sinks.append(("return", None, "=", self.value(st.value), st))
        elif isinstance(st, ast.Expr):
            if isinstance(st.value, ast.Constant):
                return
            raise AnalysisError("units: expression statement `%s`" % pf.src(st)[:80])
        elif isinstance(st, ast.Assert):
            return
        else:
            raise AnalysisError("units: statement %s" % type(st).__name__)


def _is_neg_const(n):
    return isinstance(n, ast.UnaryOp) and isinstance(n.op, ast.USub) and isinstance(n.operand, ast.Constant)
