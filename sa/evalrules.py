"""Rules shared by the evaluator properties (C04, C08, C11).

 * return_shapes       -- the shapes (tuple arity / None / single value) a Python function can
                          return, over every CFG path, through calls to sibling functions
 * accumulate rule     -- a FuncEvaluator.__call__ writes its shared buffers only by += / -=
 * c_accumulate        -- the same across the language boundary (clang AST): stores through
                          pointers derived from given parameters are compound assignments
 * cutoff pairing      -- in MappedDFTKernel*.__call__ every spin mode zeroes the value *and*
                          the derivative under masks built from the same density and cutoff
 * mode ladders        -- every if/elif ladder on self.mode serves each spin mode

Pure ast / clang-JSON; nothing is imported from the repository or executed.
"""
import ast

from sa import cfacts
from sa import cfg as cfgm
from sa import pyfacts as pf
from sa.core import AnalysisError

MODES = ("SEP", "NPOL", "POL")


# ----------------------------------------------------------------------------
# small helpers
# ----------------------------------------------------------------------------
def assigns_to(fn, name):
    """All statements in fn (not nested defs) that bind the local `name`:
    list of (stmt, value_expr or None, kind) kind in assign/aug/unpack/for/with."""
    out = []
    for n in pf.walk_no_nested(fn):
        if isinstance(n, ast.Assign):
            for t in n.targets:
                if isinstance(t, ast.Name) and t.id == name:
                    out.append((n, n.value, "assign"))
                elif isinstance(t, (ast.Tuple, ast.List)):
                    for i, e in enumerate(t.elts):
                        if isinstance(e, ast.Name) and e.id == name:
                            v = n.value
                            if isinstance(v, (ast.Tuple, ast.List)) and len(v.elts) == len(t.elts):
                                out.append((n, v.elts[i], "assign"))
                            else:
                                out.append((n, v, "unpack"))
        elif isinstance(n, ast.AnnAssign) and isinstance(n.target, ast.Name) and n.target.id == name \
                and n.value is not None:
            out.append((n, n.value, "assign"))
        elif isinstance(n, ast.AugAssign) and isinstance(n.target, ast.Name) and n.target.id == name:
            out.append((n, n.value, "aug"))
        elif isinstance(n, (ast.For, ast.AsyncFor)):
            for e in ast.walk(n.target):
                if isinstance(e, ast.Name) and e.id == name:
                    out.append((n, None, "for"))
        elif isinstance(n, ast.NamedExpr) and n.target.id == name:
            out.append((n, n.value, "assign"))
    return out


def param_names(fn):
    a = fn.args
    return [x.arg for x in a.posonlyargs + a.args + a.kwonlyargs] + \
        ([a.vararg.arg] if a.vararg else []) + ([a.kwarg.arg] if a.kwarg else [])


def is_zero(node):
    return isinstance(node, ast.Constant) and isinstance(node.value, (int, float)) \
        and not isinstance(node.value, bool) and node.value == 0


def names_in(node):
    return {n.id for n in ast.walk(node) if isinstance(n, ast.Name)}


def anchor(prog, rel, qual):
    """(module, function) for 'f' or 'Class.method'; a method moved to a base class or mixin is
    found through the MRO."""
    mod = prog.module(rel)
    if "." not in qual:
        return mod, mod.func(qual)
    cname, mname = qual.split(".", 1)
    cls = mod.cls(cname)
    r = prog.find_method(mod, cls, mname)
    if r is None:
        raise AnalysisError("anchor method %s vanished from %s (also not found in its base classes)" % (qual, rel))
    return r[0], r[2]


def native_name(v):
    """`lib.name` or `getattr(lib, "name")` -> "name" """
    if isinstance(v, ast.Attribute) and isinstance(v.value, ast.Name):
        return v.attr
    if isinstance(v, ast.Call) and pf.call_name(v) == "getattr" and len(v.args) >= 2 \
            and isinstance(v.args[1], ast.Constant) and isinstance(v.args[1].value, str):
        return v.args[1].value
    return None


def asserted(node):
    """The expression a CFG node asserts to be true for control to continue normally:
    `assert c` -> c ;  `if not c: raise` -> c ;  `if c: raise` -> not c (returned as ('not', c)).
    None for other nodes."""
    st = node.ast
    if node.kind == "stmt" and isinstance(st, ast.Assert):
        return st.test
    if node.kind == "test" and isinstance(st, ast.If) and not st.orelse and cfgm._raises(st.body):
        t = st.test
        if isinstance(t, ast.UnaryOp) and isinstance(t.op, ast.Not):
            return t.operand
        return ("not", t)
    return None


def asserted_stmt(st):
    """same for a statement outside a CFG: -> asserted expression, ('not', expr) or None"""
    if isinstance(st, ast.Assert):
        return st.test
    if isinstance(st, ast.If) and not st.orelse and cfgm._raises(st.body):
        t = st.test
        if isinstance(t, ast.UnaryOp) and isinstance(t.op, ast.Not):
            return t.operand
        return ("not", t)
    return None


def native_binding(mod, cls):
    """(attribute name, native function name) for the class attribute of `cls` that is bound to a function
    of a loaded shared library: `<attr> = <lib>.<name>` / getattr(<lib>, "<name>") with <lib> a module-level
    name.  None when the class body has none."""
    for k, v in pf.class_attrs(cls).items():
        nm = native_name(v)
        if nm is None:
            continue
        lib = v.value if isinstance(v, ast.Attribute) else v.args[0]
        if isinstance(lib, ast.Name) and lib.id in mod.assigns:
            return k, nm
    return None


def baseline_graph(mod, table="BASELINE_CODES"):
    """Structure behind the public registry of native baselines:
       registered  code -> function name
       helpers     name of a module function handed on as a *callable argument* by a registered function
                   (the per-spin kernels behind the spin-scaling wrapper) -> code
       reach       every module function reachable from the registry (callees and such callables)
       features    function name -> parameter names that receive (a slice of) the raw feature array, i.e.
                   the first parameter of a registered function, propagated through the calls"""
    tab = mod.assigns.get(table)
    if not isinstance(tab, ast.Dict):
        raise AnalysisError("%s is no longer a literal dict in %s" % (table, mod.rel))
    registered = {}
    for k, v in zip(tab.keys, tab.values):
        if isinstance(v, ast.Name) and v.id in mod.functions:
            registered[k.value if isinstance(k, ast.Constant) else pf.src(k)] = v.id
    features, helpers, reach = {}, {}, set()
    callables = {}   # (function, parameter) -> set of module functions it may be bound to
    todo = []
    for code, fname in registered.items():
        ps = param_names(mod.functions[fname])
        if ps:
            todo.append((fname, ps[0], code))
    seen = set()
    while todo:
        fname, pname, code = todo.pop()
        if (fname, pname) in seen:
            continue
        seen.add((fname, pname))
        reach.add(fname)
        features.setdefault(fname, set()).add(pname)
        fn = mod.functions[fname]
        for c in pf.walk_no_nested(fn):
            if not (isinstance(c, ast.Call) and isinstance(c.func, ast.Name)):
                continue
            targets = []
            if c.func.id in mod.functions:
                targets = [c.func.id]
            elif (fname, c.func.id) in callables:
                targets = sorted(callables[(fname, c.func.id)])
            for g in targets:
                gps = param_names(mod.functions[g])
                reach.add(g)
                for i, a in enumerate(c.args):
                    if i >= len(gps):
                        break
                    if isinstance(a, ast.Name) and a.id in mod.functions and a.id not in (fname,):
                        callables.setdefault((g, gps[i]), set()).add(a.id)
                        helpers.setdefault(a.id, code)
                        reach.add(a.id)
                    if pf.base_name(a) == pname:
                        todo.append((g, gps[i], code))
                for kw in c.keywords:
                    if kw.arg in gps and pf.base_name(kw.value) == pname:
                        todo.append((g, kw.arg, code))
    # second sweep so that callables discovered late are followed
    changed = True
    while changed:
        changed = False
        for fname in sorted(reach):
            fn = mod.functions[fname]
            for pname in sorted(features.get(fname, ())):
                for c in pf.walk_no_nested(fn):
                    if isinstance(c, ast.Call) and isinstance(c.func, ast.Name) and (fname, c.func.id) in callables:
                        for h in callables[(fname, c.func.id)]:
                            hps = param_names(mod.functions[h])
                            for i, a in enumerate(c.args):
                                if i < len(hps) and pf.base_name(a) == pname and hps[i] not in features.get(h, set()):
                                    features.setdefault(h, set()).add(hps[i])
                                    reach.add(h)
                                    changed = True
    return {"registered": registered, "helpers": helpers, "reach": reach, "features": features}


STR_CONSTS = {}


def register_str_consts(mod):
    """module-level `NAME = "literal"` constants may stand for the literal in mode tests"""
    for k, v in mod.assigns.items():
        if isinstance(v, ast.Constant) and isinstance(v.value, str):
            STR_CONSTS[k] = v.value


def _str_value(c):
    if isinstance(c, ast.Constant) and isinstance(c.value, str):
        return c.value
    if isinstance(c, ast.Name) and c.id in STR_CONSTS:
        return STR_CONSTS[c.id]
    return None


def value_depends(fn, expr, param, _seen=None):
    """Does the value of `expr` depend on the *contents* of parameter `param` (not merely on its
    shape/ndim/dtype/len), following local assignments flow-insensitively?"""
    _seen = _seen if _seen is not None else set()
    skip = set()
    for n in ast.walk(expr):
        if isinstance(n, ast.Attribute) and n.attr in ("shape", "ndim", "size", "dtype") and isinstance(n.value, ast.Name):
            skip.add(id(n.value))
        if isinstance(n, ast.Call) and pf.call_name(n) == "len" and n.args and isinstance(n.args[0], ast.Name):
            skip.add(id(n.args[0]))
    for n in ast.walk(expr):
        if isinstance(n, ast.Name) and isinstance(n.ctx, ast.Load) and id(n) not in skip:
            if n.id == param:
                return True
            if n.id in _seen:
                continue
            _seen.add(n.id)
            for st, v, kind in assigns_to(fn, n.id):
                if v is not None and value_depends(fn, v, param, _seen):
                    return True
                if kind == "for" and value_depends(fn, st.iter, param, _seen):
                    return True
    return False


# ----------------------------------------------------------------------------
# return shapes
# ----------------------------------------------------------------------------
def return_shapes(mod, fn, _stack=None):
    """Set of shapes over all normal exits of fn: int n (an n-tuple), 'None'
    (bare return / falling off the end), 'value' (one non-tuple value),
    ('unknown', text) when the returned expression cannot be classified.
    Each shape comes with a witness: dict shape -> (line, text)."""
    _stack = _stack or ()
    if fn in _stack:
        return {}
    g = cfgm.CFG(fn)
    out = {}
    for p in sorted(g.pred[g.exit.id]):
        node = g.nodes[p]
        st = node.ast
        if node.kind == "stmt" and isinstance(st, ast.Return):
            for sh, wit in _expr_shapes(mod, fn, st.value, _stack + (fn,), st).items():
                out.setdefault(sh, wit)
        else:
            line = getattr(st, "lineno", fn.lineno) if st is not None else fn.lineno
            last = fn.body[-1]
            out.setdefault("None", (getattr(last, "end_lineno", line),
                                    "control falls off the end of %s after `%s`" % (
                                        fn.name, pf.src(last).splitlines()[0][:60])))
    return out


def _expr_shapes(mod, fn, e, stack, st, depth=0):
    wit = (st.lineno, pf.src(st).splitlines()[0][:80])
    if e is None or (isinstance(e, ast.Constant) and e.value is None):
        return {"None": wit}
    if isinstance(e, ast.Tuple):
        if any(isinstance(x, ast.Starred) for x in e.elts):
            return {("unknown", pf.src(e)): wit}
        return {len(e.elts): wit}
    if isinstance(e, ast.IfExp):
        d = _expr_shapes(mod, fn, e.body, stack, st, depth)
        d.update(_expr_shapes(mod, fn, e.orelse, stack, st, depth))
        return d
    if isinstance(e, ast.Call):
        cn = pf.call_name(e)
        if cn in mod.functions:
            sub = return_shapes(mod, mod.functions[cn], stack)
            return {sh: (wit[0], "%s -> %s" % (wit[1], w[1])) for sh, w in sub.items()}
        if cn == "tuple":
            return {("unknown", pf.src(e)): wit}
        return {("unknown", pf.src(e)): wit}
    if isinstance(e, ast.Name) and depth < 4:
        defs = assigns_to(fn, e.id)
        if defs and all(k == "assign" for _, _, k in defs):
            d = {}
            for s, v, _ in defs:
                d.update(_expr_shapes(mod, fn, v, stack, st, depth + 1))
            return d
        return {("unknown", pf.src(e)): wit}
    if isinstance(e, (ast.BinOp, ast.UnaryOp, ast.Subscript, ast.Attribute, ast.Constant, ast.Compare,
                      ast.List, ast.ListComp, ast.Dict)):
        return {"value": wit}
    return {("unknown", pf.src(e)): wit}


# ----------------------------------------------------------------------------
# accumulate-into-shared-buffers (Python side)
# ----------------------------------------------------------------------------
VIEW_METHODS = {"reshape", "view", "ravel", "transpose", "swapaxes", "squeeze"}
INPLACE_METHODS = {"fill", "sort", "put", "itemset", "resize", "setfield", "partition", "byteswap"}


def buffer_aliases(fn, roots):
    """name -> root parameter for locals that are views of a buffer parameter
    (x = p, x = p[...], x = p.T, x = p.reshape(...)); flow-insensitive."""
    alias = {r: r for r in roots}
    changed = True
    while changed:
        changed = False
        for n in pf.walk_no_nested(fn):
            if isinstance(n, ast.Assign) and len(n.targets) == 1 and isinstance(n.targets[0], ast.Name):
                t = n.targets[0].id
                if t in alias:
                    continue
                v = n.value
                root = None
                if isinstance(v, (ast.Name, ast.Subscript)) or (isinstance(v, ast.Attribute) and v.attr == "T"):
                    root = pf.base_name(v)
                elif isinstance(v, ast.Call) and isinstance(v.func, ast.Attribute) and v.func.attr in VIEW_METHODS:
                    root = pf.base_name(v.func.value)
                if root in alias:
                    alias[t] = alias[root]
                    changed = True
    return alias


def _is_none_test(t, name):
    return isinstance(t, ast.Compare) and len(t.ops) == 1 and isinstance(t.ops[0], ast.Is) \
        and isinstance(t.left, ast.Name) and t.left.id == name \
        and isinstance(t.comparators[0], ast.Constant) and t.comparators[0].value is None


def accumulate_facts(fn, bufs):
    """Inspect every write to the buffer parameters `bufs` of fn.
    -> (bad, adds, delegations)
       bad:  list of (stmt, buffer, why)   stores that overwrite / rebind the shared buffer
       adds: dict buffer -> list of stmts  accumulating stores (+=, -=)
       delegations: list of (call, {buffer: positional index or keyword})"""
    alias = buffer_aliases(fn, bufs)
    bad, adds, dele = [], {b: [] for b in bufs}, []

    def root_of(t):
        r = pf.base_name(t)
        return alias.get(r)

    for n in pf.walk_no_nested(fn):
        if isinstance(n, ast.Assign):
            for t in n.targets:
                tl = t.elts if isinstance(t, (ast.Tuple, ast.List)) else [t]
                for e in tl:
                    if isinstance(e, ast.Name) and e.id in bufs:
                        v = n.value
                        if isinstance(v, ast.IfExp) and any(isinstance(x, ast.Name) and x.id == e.id
                                                            for x in (v.body, v.orelse)) \
                                and any(isinstance(c, ast.Compare) and isinstance(c.left, ast.Name)
                                        and c.left.id == e.id and isinstance(c.ops[0], (ast.Is, ast.IsNot))
                                        for c in ast.walk(v.test)):
                            continue  # res = zeros(..) if res is None else res
                        conds = cfgm.conditions_at(n)
                        if not any(pol and _is_none_test(c, e.id) for c, pol, _ in conds):
                            bad.append((n, e.id, "rebinds the buffer parameter `%s` (the caller's array is no "
                                                 "longer the one updated) outside an `if %s is None` default"
                                        % (e.id, e.id)))
                    elif isinstance(e, (ast.Subscript, ast.Attribute)) and root_of(e) in bufs:
                        bad.append((n, root_of(e), "overwrites the shared buffer `%s` with `=`; contributions "
                                                   "accumulated by other evaluators are lost" % root_of(e)))
        elif isinstance(n, ast.AugAssign):
            r = root_of(n.target)
            if r in bufs:
                if isinstance(n.op, (ast.Add, ast.Sub)):
                    adds[r].append(n)
                else:
                    bad.append((n, r, "updates the shared buffer `%s` with `%s=`, which rescales what other "
                                      "evaluators accumulated" % (r, type(n.op).__name__)))
        elif isinstance(n, ast.Call):
            if isinstance(n.func, ast.Attribute) and n.func.attr in INPLACE_METHODS \
                    and root_of(n.func.value) in bufs:
                bad.append((n, root_of(n.func.value), "in-place `%s` on the shared buffer" % n.func.attr))
            for kw in n.keywords:
                if kw.arg == "out" and root_of(kw.value) in bufs:
                    bad.append((n, root_of(kw.value), "numpy `out=` overwrites the shared buffer"))
            if pf.call_name(n) in ("np.copyto", "numpy.copyto") and n.args and root_of(n.args[0]) in bufs:
                bad.append((n, root_of(n.args[0]), "np.copyto overwrites the shared buffer"))
            passed = {}
            for i, a in enumerate(n.args):
                r = root_of(a) if isinstance(a, (ast.Name, ast.Subscript, ast.Attribute, ast.Call)) else None
                if r is None and isinstance(a, ast.Call):
                    # res.ctypes.data_as(...)
                    r = alias.get(pf.base_name(a.func)) if isinstance(a.func, ast.Attribute) else None
                if r in bufs and r not in passed:
                    passed[r] = i
            if passed and not (isinstance(n.func, ast.Attribute) and n.func.attr in ("data_as",)):
                dele.append((n, passed))
    return bad, adds, dele


# ----------------------------------------------------------------------------
# accumulate-into-shared-buffers (C side)
# ----------------------------------------------------------------------------
def _decl_refs(n):
    return [x["referencedDecl"]["id"] for x in cfacts.walk(n)
            if x.get("kind") == "DeclRefExpr" and x.get("referencedDecl")]


def _is_ptr(t):
    return "*" in (t or {}).get("qualType", "") or "[" in (t or {}).get("qualType", "")


def c_accumulate(tu, fname, pnames, _seen=None):
    """Stores through pointers derived from parameters `pnames` of C function
    `fname` (local pointer aliases and callees in the same TU included).
    -> dict pname -> {'compound': [(line, text)], 'plain': [(line, text, func)], 'other': [...]}"""
    _seen = _seen if _seen is not None else set()
    key = (fname, tuple(pnames))
    res = {p: {"compound": [], "plain": [], "other": [], "extern": []} for p in pnames}
    if key in _seen:
        return res
    _seen.add(key)
    params = tu.params(fname)
    byname = {p.get("name"): p for p in params}
    for p in pnames:
        if p not in byname:
            raise AnalysisError("C function %s has no parameter %s" % (fname, p))
    body = tu.body(fname)
    derived = {byname[p]["id"]: p for p in pnames}
    changed = True
    while changed:
        changed = False
        for n in cfacts.walk(body):
            k = n.get("kind")
            if k == "VarDecl" and _is_ptr(n.get("type")) and n.get("id") not in derived:
                for r in (_decl_refs(c) for c in cfacts.kids(n)):
                    hit = [derived[x] for x in r if x in derived]
                    if hit:
                        derived[n["id"]] = hit[0]
                        changed = True
                        break
            elif k == "BinaryOperator" and n.get("opcode") == "=":
                l, r = cfacts.kids(n)
                ls = cfacts.strip(l)
                if ls.get("kind") == "DeclRefExpr" and _is_ptr(ls.get("type")):
                    lid = ls["referencedDecl"]["id"]
                    hit = [derived[x] for x in _decl_refs(r) if x in derived]
                    if hit and lid not in derived:
                        derived[lid] = hit[0]
                        changed = True

    def target_root(lhs):
        ls = cfacts.strip(lhs)
        if ls.get("kind") == "ArraySubscriptExpr":
            base = cfacts.kids(ls)[0]
        elif ls.get("kind") == "UnaryOperator" and ls.get("opcode") == "*":
            base = cfacts.kids(ls)[0]
        else:
            return None
        for x in _decl_refs(base):
            if x in derived:
                return derived[x]
        return None

    seen_nodes = set()
    for n in cfacts.walk(body):
        k = n.get("kind")
        rng = n.get("range", {}).get("begin", {}).get("offset")
        if k in ("BinaryOperator", "CompoundAssignOperator", "CallExpr", "UnaryOperator"):
            nk = (k, rng, n.get("opcode"))
            if nk in seen_nodes:  # OMP regions list their body twice
                continue
            seen_nodes.add(nk)
        if k == "BinaryOperator" and n.get("opcode") == "=":
            root = target_root(cfacts.kids(n)[0])
            if root:
                res[root]["plain"].append((tu.line_of(n), tu.text_of(n), fname))
        elif k == "CompoundAssignOperator":
            root = target_root(cfacts.kids(n)[0])
            if root:
                if n.get("opcode") in ("+=", "-="):
                    res[root]["compound"].append((tu.line_of(n), tu.text_of(n), fname))
                else:
                    res[root]["other"].append((tu.line_of(n), tu.text_of(n), fname))
        elif k == "UnaryOperator" and n.get("opcode") in ("++", "--"):
            root = target_root(cfacts.kids(n)[0])
            if root:
                res[root]["compound"].append((tu.line_of(n), tu.text_of(n), fname))
        elif k == "CallExpr":
            ks = cfacts.kids(n)
            callee = cfacts.strip(ks[0])
            cname = (callee.get("referencedDecl") or {}).get("name")
            passed = {}
            for i, a in enumerate(ks[1:]):
                if not _is_ptr(cfacts.strip(a).get("type")) and not _is_ptr(a.get("type")):
                    continue
                hit = [derived[x] for x in _decl_refs(a) if x in derived]
                if hit:
                    passed[i] = hit[0]
            if not passed:
                continue
            if cname in tu.funcs:
                cps = tu.params(cname)
                for i, root in passed.items():
                    if i >= len(cps):
                        raise AnalysisError("call to %s passes more arguments than parameters" % cname)
                    sub = c_accumulate(tu, cname, [cps[i]["name"]], _seen)
                    for kind, lst in sub[cps[i]["name"]].items():
                        res[root][kind].extend(lst)
            else:
                for i, root in passed.items():
                    res[root]["extern"].append((tu.line_of(n), tu.text_of(n), fname))
    return res


# ----------------------------------------------------------------------------
# mode conditions
# ----------------------------------------------------------------------------
def mode_set_of_test(t):
    """`self.mode == 'A'`, `self.mode == 'A' or self.mode == 'B'`, `self.mode in ('A','B')`,
    `self.mode != 'A'`  ->  (set of modes for which the test is true) or None when the
    expression is not a pure test on self.mode."""
    if isinstance(t, ast.BoolOp) and isinstance(t.op, ast.Or):
        out = set()
        for v in t.values:
            s = mode_set_of_test(v)
            if s is None:
                return None
            out |= s
        return out
    if isinstance(t, ast.Compare) and len(t.ops) == 1 and pf.is_self_attr(t.left, "mode"):
        c = t.comparators[0]
        cv = _str_value(c)
        if cv is not None:
            if isinstance(t.ops[0], ast.Eq):
                return {cv}
            if isinstance(t.ops[0], ast.NotEq):
                return set(MODES) - {cv}
        if isinstance(c, (ast.Tuple, ast.List, ast.Set)) and isinstance(t.ops[0], (ast.In, ast.NotIn)):
            vals = set()
            for e in c.elts:
                ev = _str_value(e)
                if ev is None:
                    return None
                vals.add(ev)
            return vals if isinstance(t.ops[0], ast.In) else set(MODES) - vals
    return None


def mentions_mode(t):
    return any(pf.is_self_attr(n, "mode") for n in ast.walk(t))


def _literals(t, pol, out):
    """decompose a path condition into literals: conjunctions that hold and disjunctions that fail are
    split, `not` flips; what cannot be split is kept whole as (expr, polarity)"""
    if isinstance(t, ast.UnaryOp) and isinstance(t.op, ast.Not):
        return _literals(t.operand, not pol, out)
    if isinstance(t, ast.BoolOp) and ((isinstance(t.op, ast.And) and pol) or (isinstance(t.op, ast.Or) and not pol)):
        for v in t.values:
            _literals(v, pol, out)
        return
    out.append((t, pol))


def split_conditions(node):
    """Conditions at node -> (modes under which node may run, other conditions as a frozenset of
    (text, polarity)).  Path conditions are normalised logically, so nested and flattened forms agree:
    `if A: if B:` == `if A and B:`;  under A, `not (A and B)` gives `not B`;  `mode in (a, b)` ==
    `mode == a or mode == b`."""
    lits = []
    for t, pol, kind in cfgm.conditions_at(node):
        if kind == "assert":
            continue
        _literals(t, pol, lits)
    modes = set(MODES)
    known = {}      # text of an atom -> truth value
    pending = []    # compound literals: a failed conjunction / a satisfied disjunction
    for t, pol in lits:
        ms = mode_set_of_test(t)
        if ms is not None:
            modes &= ms if pol else (set(MODES) - ms)
        elif isinstance(t, ast.BoolOp):
            pending.append((t, pol))
        else:
            known[pf.src(t)] = pol
    other = set(known.items())
    changed = True
    while changed and pending:
        changed = False
        for t, pol in list(pending):
            # (A and B and ..) is False  /  (A or B or ..) is True
            want = isinstance(t.op, ast.Or)   # truth value one remaining member must take
            rest, settled = [], False
            for v in t.values:
                neg = False
                while isinstance(v, ast.UnaryOp) and isinstance(v.op, ast.Not):
                    v, neg = v.operand, not neg
                ms = mode_set_of_test(v)
                if ms is not None:
                    truth = None
                    eff = (set(MODES) - ms) if neg else ms
                    if modes <= eff:
                        truth = True
                    elif not (modes & eff):
                        truth = False
                else:
                    truth = known.get(pf.src(v))
                    if truth is not None and neg:
                        truth = not truth
                if truth is None:
                    rest.append((v, neg))
                elif truth == want:
                    settled = True   # the compound condition already holds through this member
            if settled:
                pending.remove((t, pol))
                changed = True
            elif len(rest) == 1:
                v, neg = rest[0]
                val = want != neg
                ms = mode_set_of_test(v)
                if ms is not None:
                    modes &= ms if val else (set(MODES) - ms)
                else:
                    known[pf.src(v)] = val
                    other.add((pf.src(v), val))
                pending.remove((t, pol))
                changed = True
    for t, pol in pending:
        other.add((pf.src(t), pol))
    return modes, frozenset(other)


def mode_ladders(fn):
    """if/elif chains in fn whose tests are all pure tests on self.mode and that have at
    least two arms (elif or else).  -> list of (head If, [(modes, body)], else_body or None)"""
    out = []
    for n in pf.walk_no_nested(fn):
        if not isinstance(n, ast.If):
            continue
        par = pf.parent(n)
        if isinstance(par, ast.If) and len(par.orelse) == 1 and par.orelse[0] is n \
                and mode_set_of_test(par.test) is not None:
            continue  # an elif arm of a ladder already started
        arms = []
        cur = n
        ok = True
        while True:
            ms = mode_set_of_test(cur.test)
            if ms is None:
                ok = False
                break
            arms.append((ms, cur.body))
            if len(cur.orelse) == 1 and isinstance(cur.orelse[0], ast.If) \
                    and mode_set_of_test(cur.orelse[0].test) is not None:
                cur = cur.orelse[0]
                continue
            break
        if not ok:
            continue
        els = cur.orelse or None
        if len(arms) + (1 if els else 0) < 2:
            continue
        out.append((n, arms, els))
    return out


def raises_only(body):
    """The arm does nothing but raise (optionally after a docstring/pass)."""
    sts = [s for s in body if not isinstance(s, ast.Pass)
           and not (isinstance(s, ast.Expr) and isinstance(s.value, ast.Constant))]
    return len(sts) >= 1 and isinstance(sts[0], ast.Raise)


# ----------------------------------------------------------------------------
# cutoff pairing
# ----------------------------------------------------------------------------
class Mask:
    """One cutoff comparison  <reduction over spin>(<scale> * <source>) < <cutoff>.
    red    'none' per spin channel | 'sum' | 'mean' over the spin axis
    scale  '1' | 'nspin' (the per-spin density multiplied by the number of spin channels, or the cutoff
           divided by it: the per-spin form of `total density < cutoff`)
    alts   the disjuncts when the index is a union of masks (a | b, np.logical_or); [self] otherwise"""

    def __init__(self, source, summed, cutoff, text, red=None, scale="1"):
        self.source = source
        self.red = red if red is not None else ("sum" if summed else "none")
        self.scale = scale
        self.cutoff = cutoff
        self.text = text
        self.alts = [self]

    @property
    def summed(self):
        return self.red in ("sum", "mean")

    def same(self, o):
        return (self.source, self.red, self.scale, self.cutoff) == (o.source, o.red, o.scale, o.cutoff)

    def __repr__(self):
        return self.text


def _strip_sum(e):
    """rho.sum(0) / rho.sum(axis=0) / np.sum(rho, axis=0) -> (rho, True); the same for mean"""
    inner, red = _strip_reduction(e)
    return inner, red != "none"


def _strip_reduction(e):
    if isinstance(e, ast.Call):
        if isinstance(e.func, ast.Attribute) and e.func.attr in ("sum", "mean") \
                and pf.call_name(e) not in ("np.sum", "numpy.sum", "np.mean", "numpy.mean"):
            return e.func.value, e.func.attr
        if pf.call_name(e) in ("np.sum", "numpy.sum", "np.mean", "numpy.mean") and e.args:
            return e.args[0], pf.call_name(e).split(".")[-1]
    return e, "none"


def _is_nspin(fn, e, at):
    """<array>.shape[0], or a name bound to it: the number of spin channels"""
    if isinstance(e, ast.Subscript) and isinstance(e.value, ast.Attribute) and e.value.attr == "shape" \
            and isinstance(e.slice, ast.Constant) and e.slice.value == 0:
        return True
    if isinstance(e, ast.Call) and pf.call_name(e) == "len" and e.args:
        return True
    if isinstance(e, ast.Name):
        d = reaching_assign(fn, e.id, at)
        if d is not None:
            if isinstance(d.value, ast.Name):
                return False
            return _is_nspin(fn, d.value, d)
        # unpacking  nspin, N0, Nsamp = X0T.shape
        for st, v, k in assigns_to(fn, e.id):
            if k == "unpack" and isinstance(v, ast.Attribute) and v.attr == "shape":
                tgt = st.targets[0]
                return bool(tgt.elts) and isinstance(tgt.elts[0], ast.Name) and tgt.elts[0].id == e.id
    return False


def _mask_atom(fn, c, params):
    if not (isinstance(c, ast.Compare) and len(c.ops) == 1 and isinstance(c.ops[0], (ast.Lt, ast.LtE))):
        return None
    left, right = c.left, c.comparators[0]
    scale = "1"
    if isinstance(right, ast.BinOp) and isinstance(right.op, ast.Div) and _is_nspin(fn, right.right, c):
        right, scale = right.left, "nspin"
    if not (isinstance(right, ast.Name) and right.id in params):
        return None
    inner, red = _strip_reduction(left)
    if isinstance(inner, ast.BinOp) and isinstance(inner.op, ast.Mult):
        for k, x in ((inner.left, inner.right), (inner.right, inner.left)):
            if _is_nspin(fn, k, c):
                if scale != "1":
                    return None
                inner, scale = x, "nspin"
                break
    if red == "none":
        inner2, red2 = _strip_reduction(inner)
        if red2 != "none":
            inner, red = inner2, red2
    return Mask(pf.src(inner), None, right.id, pf.src(c), red=red, scale=scale)


def _mask_atoms(fn, e, params, depth=0):
    """disjuncts of the boolean mask expression e"""
    if depth > 6:
        return []
    if isinstance(e, ast.Tuple):
        out = []
        for x in e.elts:
            out += _mask_atoms(fn, x, params, depth + 1)
        return out
    if isinstance(e, ast.Compare):
        a = _mask_atom(fn, e, params)
        return [a] if a else []
    if isinstance(e, ast.BinOp) and isinstance(e.op, ast.BitOr):
        l, r = _mask_atoms(fn, e.left, params, depth + 1), _mask_atoms(fn, e.right, params, depth + 1)
        return (l + r) if (l and r) else []
    if isinstance(e, ast.Call) and pf.call_name(e) in ("np.logical_or", "numpy.logical_or") and len(e.args) == 2:
        l, r = _mask_atoms(fn, e.args[0], params, depth + 1), _mask_atoms(fn, e.args[1], params, depth + 1)
        return (l + r) if (l and r) else []
    if isinstance(e, ast.Subscript):
        return _mask_atoms(fn, e.value, params, depth + 1)
    if isinstance(e, ast.Name):
        d = reaching_assign(fn, e.id, e)
        if d is not None:
            return _mask_atoms(fn, d.value, params, depth + 1)
    return []


def reaching_assign(fn, name, at):
    """The assignment `name = <expr>` that certainly reaches statement/expression `at`:
    the closest earlier sibling (in the block of `at` or of one of its ancestors) that binds
    `name` unconditionally.  None when a conditional binding intervenes or none is found."""
    child = at
    par = pf.parent(child)
    while par is not None:
        for field in ("body", "orelse", "finalbody"):
            blk = getattr(par, field, None)
            if isinstance(blk, list) and any(child is s for s in blk):
                idx = [i for i, s in enumerate(blk) if s is child][0]
                for s in reversed(blk[:idx]):
                    if isinstance(s, ast.Assign) and len(s.targets) == 1 and isinstance(s.targets[0], ast.Name) \
                            and s.targets[0].id == name:
                        return s
                    if any(isinstance(x, ast.Name) and isinstance(x.ctx, ast.Store) and x.id == name
                           for x in ast.walk(s)):
                        return None
        if isinstance(par, (ast.FunctionDef, ast.AsyncFunctionDef)):
            break
        child = par
        par = pf.parent(child)
    return None


def resolve_mask(fn, idx, params):
    """Find the cutoff comparison(s) a subscript index is built from.  idx: the slice expression of a
    zeroing store.  -> Mask (with .alts listing the disjuncts of a union) or None"""
    atoms = _mask_atoms(fn, idx, params)
    if not atoms:
        return None
    m = atoms[0]
    m.alts = atoms
    if len(atoms) > 1:
        m.text_all = " | ".join(a.text for a in atoms)
    return m


def flow_closure(fn, name):
    """Names whose value may flow into `name` through assignments (flow-insensitive
    backward closure; tuple unpacking from a call makes every target depend on
    every argument)."""
    seen = set()
    todo = [name]
    while todo:
        x = todo.pop()
        if x in seen:
            continue
        seen.add(x)
        for st, v, kind in assigns_to(fn, x):
            if v is not None:
                todo.extend(names_in(v) - {"self", "np"})
    return seen


def _masked_zero_stores(fn, params):
    """zeroing stores of fn under a cutoff mask -> list of (stmt, root name, Mask)"""
    out = []
    for n in pf.walk_no_nested(fn):
        if not (isinstance(n, ast.Assign) and len(n.targets) == 1 and isinstance(n.targets[0], ast.Subscript)
                and is_zero(n.value)):
            continue
        t = n.targets[0]
        # the mask may sit in any subscript level: res[s][cond[s]], dres[s][:, cond[s]], df[cond, :]
        mask = None
        cur = t
        while isinstance(cur, ast.Subscript):
            mask = mask or resolve_mask(fn, cur.slice, params)
            cur = cur.value
        if mask is not None:
            out.append((n, pf.base_name(t), mask))
    return out


def _bind_call(callee, call, skip_self):
    """callee parameter -> argument expression of the call"""
    ps = [a.arg for a in callee.args.posonlyargs + callee.args.args]
    if skip_self and ps and ps[0] in ("self", "cls"):
        ps = ps[1:]
    bound = {}
    for p, a in zip(ps, call.args):
        if isinstance(a, ast.Starred):
            break
        bound[p] = a
    for k in call.keywords:
        if k.arg:
            bound[k.arg] = k.value
    return bound


def _rename_text(text, mapping):
    """rewrite an expression text, replacing names by the caller's argument texts"""
    tree = ast.parse(text, mode="eval")

    class R(ast.NodeTransformer):
        def visit_Name(self, node):
            if node.id in mapping:
                return ast.parse("(%s)" % mapping[node.id], mode="eval").body
            return node
    return pf.src(R().visit(tree).body)


def cutoff_pairing(fn, resolve=None):
    """-> dict with
       ret: (value name, derivative name)
       stores: list of dict(stmt, site, role, mask, modes, other); `site` is the statement of fn at
               which the zeroing happens (the store itself, or the call of a helper that zeroes its
               array arguments in place)
       unclassified: zeroing stores under a cutoff mask whose target is neither value nor derivative
    resolve(call) -> (callee FunctionDef, skip_self) for helpers of the same class/module, or None."""
    params = set(param_names(fn))
    rets = [n for n in pf.walk_no_nested(fn) if isinstance(n, ast.Return)]
    if len(rets) != 1 or not isinstance(rets[0].value, ast.Tuple) or len(rets[0].value.elts) != 2 \
            or not all(isinstance(e, ast.Name) for e in rets[0].value.elts):
        raise AnalysisError("%s: expected a single `return <value>, <derivative>` of two names" % pf.qualname(fn))
    vname, dname = (e.id for e in rets[0].value.elts)
    vflow = flow_closure(fn, vname)
    dflow = flow_closure(fn, dname)
    found = []
    for n, root, mask in _masked_zero_stores(fn, params):
        modes, other = split_conditions(n)
        found.append({"stmt": n, "site": n, "root": root, "mask": mask, "modes": modes, "other": other})
    # one level of helper extraction: self._apply_cutoff_(f, df, rho, rhocut) zeroing its arguments in place
    if resolve is not None:
        for st in pf.walk_no_nested(fn):
            if not (isinstance(st, ast.Expr) and isinstance(st.value, ast.Call)):
                continue
            r = resolve(st.value)
            if r is None:
                continue
            callee, skip_self = r
            bound = _bind_call(callee, st.value, skip_self)
            cparams = set(param_names(callee))
            smodes, sother = split_conditions(st)
            for n, root, mask in _masked_zero_stores(callee, cparams):
                arg = bound.get(root)
                if arg is None or pf.base_name(arg) is None or not isinstance(arg, ast.Name):
                    continue
                cut = bound.get(mask.cutoff)
                if cut is None:
                    continue
                mapping = {p: pf.src(a) for p, a in bound.items()}
                def tr(a):
                    return Mask(_rename_text(a.source, mapping), None, pf.src(cut),
                                _rename_text(a.text, mapping), red=a.red, scale=a.scale)
                m2 = tr(mask)
                m2.alts = [m2] + [tr(a) for a in mask.alts[1:]]
                cmodes, cother = split_conditions(n)
                found.append({"stmt": n, "site": st, "root": arg.id, "mask": m2, "modes": smodes & cmodes,
                              "other": frozenset(sother | cother), "via": callee.name})
    stores, unclassified = [], []
    for rec in found:
        in_v, in_d = rec["root"] in vflow, rec["root"] in dflow
        if in_v and not in_d:
            rec["role"] = "value"
            stores.append(rec)
        elif in_d and not in_v:
            rec["role"] = "derivative"
            stores.append(rec)
        else:
            unclassified.append(rec)
    return {"ret": (vname, dname), "stores": stores, "unclassified": unclassified}


def _cutoff_ordering(chk, rule, rel, where, fn, facts):
    """The zeroing must come before every consumer of the zeroed array: no statement that hands
    the array on (assignment to another variable that flows to the result, or a call that also
    receives caller-visible storage it can update in place) may be followed by the zeroing."""
    g = cfgm.CFG(fn)
    params = set(param_names(fn)) - {"self"}
    vname, dname = facts["ret"]
    outflow = flow_closure(fn, vname) | flow_closure(fn, dname)
    for root in sorted({r["root"] for r in facts["stores"]}):
        zstores = [r["site"] for r in facts["stores"] if r["root"] == root]
        znodes = {g.node_of(z).id for z in zstores if g.node_of(z) is not None}
        # a helper call that zeroes several arrays is a zeroing site for each of them
        znodes |= {g.node_of(r["site"]).id for r in facts["stores"]
                   if r["site"] is not r["stmt"] and g.node_of(r["site"]) is not None}
        consumers = []
        for n in g.nodes:
            st = n.ast
            if n.kind != "stmt" or st is None or n.id in znodes:
                continue
            if isinstance(st, (ast.Assign, ast.AugAssign, ast.AnnAssign)):
                value = st.value
                targets = st.targets if isinstance(st, ast.Assign) else [st.target]
                if value is None or root not in names_in(value):
                    continue
                troots = set()
                for t in targets:
                    for e in (t.elts if isinstance(t, (ast.Tuple, ast.List)) else [t]):
                        troots.add(pf.base_name(e))
                if troots == {root}:
                    continue  # x = g(x): reshaping / rescaling of the array itself
                if troots & outflow:
                    consumers.append((n, "its value is handed on to `%s`" % ", ".join(sorted(x for x in troots if x))))
            elif isinstance(st, ast.Expr) and isinstance(st.value, ast.Call):
                c = st.value
                argroots = [pf.base_name(a) for a in c.args] + [pf.base_name(k.value) for k in c.keywords]
                if root not in argroots:
                    continue
                shared = sorted({a for a in argroots if a and a != root and a in params})
                if shared:
                    consumers.append((n, "the callee also receives %s, which it can update in place from the "
                                         "un-zeroed array" % ", ".join("`%s`" % x for x in shared)))
        inst = "%s zeroing of `%s` precedes every consumer" % (where, root)
        bad = None
        for n, why in consumers:
            reach = g.reachable(n.id)
            late = [z for z in znodes if z in reach and z != n.id]
            if late:
                bad = (n, why, g.nodes[sorted(late)[0]].ast)
                break
        if bad:
            n, why, z = bad
            chk.violation(rule, rel, where, pf.src(n.ast).splitlines()[0][:100], n.ast.lineno,
                          "`%s` consumes `%s` before the low-density cutoff is applied to it (%s); the zeroing "
                          "`%s` (line %d) only runs afterwards, so sub-cutoff points still contribute through "
                          "this statement" % (pf.src(n.ast).splitlines()[0][:80], root, why, pf.src(z), z.lineno),
                          instance=inst)
        else:
            chk.ok(rule, inst, detail="%d consumer(s) all after the zeroing" % len(consumers))


def stale_loop_reads(fn):
    """Reads of a `for` target after its loop has ended (the variable then holds the last item, or is
    unbound for an empty sequence): list of (Name node, for statement).  Loops that `break` are skipped
    (keeping the found item is an idiom); a rebinding of the name ends the staleness; comprehension
    variables are their own scope."""
    g = cfgm.CFG(fn)
    out = []
    for L in g.nodes:
        st = L.ast
        if L.kind != "iter" or not isinstance(st, (ast.For, ast.AsyncFor)):
            continue
        if any(isinstance(x, ast.Break) for b in st.body for x in ast.walk(b)):
            continue
        targets = {x.id for x in ast.walk(st.target) if isinstance(x, ast.Name)}
        inside = {id(x) for x in ast.walk(st)}
        for v in targets:
            binders = {n.id for n in g.nodes if n.ast is not None and n.id != L.id
                       and n.kind in ("stmt", "iter", "with") and _binds_name(n.ast, v)}
            start = [u for u in g.succ[L.id] if g.edge_label.get((L.id, u)) == "F"]
            seen, todo = set(), list(start)
            while todo:
                u = todo.pop()
                if u in seen:
                    continue
                seen.add(u)
                node = g.nodes[u]
                if node.ast is not None and id(node.ast) not in inside:
                    exprs = []
                    if node.kind == "test":
                        exprs = [node.ast.test]
                    elif node.kind == "iter":
                        exprs = [node.ast.iter]
                    elif node.kind == "with":
                        exprs = [i.context_expr for i in node.ast.items]
                    elif node.kind == "stmt" and not isinstance(
                            node.ast, (ast.Try, ast.FunctionDef, ast.AsyncFunctionDef, ast.ClassDef)):
                        exprs = [node.ast]
                    for ex in exprs:
                        comp = set()
                        for x in ast.walk(ex):
                            if isinstance(x, ast.comprehension):
                                comp |= {y.id for y in ast.walk(x.target) if isinstance(y, ast.Name)}
                        if v in comp:
                            continue
                        # an augmented / plain assignment to v itself reads it only if v is on the right
                        for x in ast.walk(ex):
                            if isinstance(x, ast.Name) and x.id == v and isinstance(x.ctx, ast.Load):
                                out.append((x, st))
                                break
                if u in binders or u == L.id:
                    continue
                todo.extend(g.succ[u])
    # one report per (loop, statement)
    uniq, keys = [], set()
    for x, st in out:
        k = (id(st), x.lineno)
        if k not in keys:
            keys.add(k)
            uniq.append((x, st))
    return uniq


def check_stale_loop_vars(chk, prog, targets, rule="stale-loop-var"):
    """every method of the given classes (and of their repo base classes)"""
    n = 0
    done = set()
    for rel, cname in targets:
        mod = prog.module(rel)
        for m, c in prog.mro(mod, mod.cls(cname)):
            for mname, fn in pf.methods(c).items():
                if id(fn) in done:
                    continue
                done.add(id(fn))
                loops = [x for x in pf.walk_no_nested(fn) if isinstance(x, (ast.For, ast.AsyncFor))]
                if not loops:
                    continue
                n += 1
                stale = stale_loop_reads(fn)
                inst = "%s.%s: no loop variable is read after its loop" % (c.name, mname)
                if not stale:
                    chk.ok(rule, inst, detail="%d loop(s)" % len(loops))
                    continue
                x, st = stale[0]
                stmt = x
                while pf.parent(stmt) is not None and not isinstance(stmt, ast.stmt):
                    stmt = pf.parent(stmt)
                chk.violation(rule, m.rel, "%s.%s" % (c.name, mname), pf.src(stmt).splitlines()[0][:110], x.lineno,
                              "`%s` is the target of `for %s in %s:` (line %d), but this statement runs after that "
                              "loop has ended: it acts once, on the last item only (and fails for an empty "
                              "sequence) instead of once per item" % (
                                  x.id, pf.src(st.target), pf.src(st.iter)[:40], st.lineno), instance=inst)
    return n


def _spin_sum_after(fn, g, rec, mode):
    """A statement `x = x.sum(0)` / `x = np.sum(x, axis=0)` on the zeroed array, active in `mode`
    and reachable after the zeroing site -> that statement, else None."""
    site = g.node_of(rec["site"])
    if site is None:
        return None
    reach = g.reachable(site.id)
    for st, v, kind in assigns_to(fn, rec["root"]):
        if kind != "assign" or v is None:
            continue
        inner, summed = _strip_sum(v)
        if not summed or pf.base_name(inner) != rec["root"]:
            continue
        axis = None
        if isinstance(v, ast.Call):
            cand = list(v.args[1:] if pf.call_name(v) in ("np.sum", "numpy.sum") else v.args) + \
                [k.value for k in v.keywords if k.arg == "axis"]
            axis = cand[0] if cand else None
        if not (isinstance(axis, ast.Constant) and axis.value == 0):
            continue
        modes, _ = split_conditions(st)
        n = g.node_of(st)
        if mode in modes and n is not None and n.id in reach and n.id != site.id:
            return st
    return None


def check_cutoff_pairing(chk, prog, targets, rule="cutoff-pair"):
    """Rule shared by C04 (rule 4) and C08 (rule 2); targets: ((relpath, class name), ...)."""
    for rel, cname in targets:
        mod = prog.module(rel)
        register_str_consts(mod)
        cls = mod.cls(cname)
        fmod, fn = anchor(prog, rel, "%s.__call__" % cname)
        where = "%s.__call__" % cname

        def resolve(call, mod=mod, cls=cls, fmod=fmod):
            f = call.func
            if isinstance(f, ast.Attribute) and isinstance(f.value, ast.Name) and f.value.id in ("self", "cls"):
                r = prog.find_method(mod, cls, f.attr)
                return (r[2], True) if r else None
            if isinstance(f, ast.Name) and f.id in fmod.functions:
                return (fmod.functions[f.id], False)
            return None
        facts = cutoff_pairing(fn, resolve)
        for rec in facts["unclassified"]:
            raise AnalysisError("%s: zeroing store `%s` under a cutoff mask targets neither the value nor "
                                     "the derivative data flow" % (where, pf.src(rec["stmt"])))
        if not facts["stores"]:
            chk.violation(rule, rel, where, "cutoff zeroing", fn.lineno,
                          "no store zeroes the value or the derivative under `<density> < <cutoff parameter>`: "
                          "points below the low-density cutoff keep their machine-learned contribution",
                          instance="%s all modes" % where)
            continue
        _cutoff_ordering(chk, rule, rel, where, fn, facts)
        gfn = cfgm.CFG(fn)
        for mode in MODES:
            vs = [r for r in facts["stores"] if r["role"] == "value" and mode in r["modes"]]
            ds = [r for r in facts["stores"] if r["role"] == "derivative" and mode in r["modes"]]
            inst = "%s mode %s" % (where, mode)
            if not vs and not ds:
                chk.violation(rule, rel, where, "mode %s" % mode, fn.lineno,
                              "mode %s: neither the value nor the derivative is zeroed below the cutoff "
                              "(other modes are)" % mode, instance=inst)
                continue
            if not vs or not ds:
                have, miss = ("value", "derivative") if vs else ("derivative", "value")
                st = (vs or ds)[0]["stmt"]
                chk.violation(rule, rel, where, "mode %s: %s" % (mode, pf.src(st)), st.lineno,
                              "mode %s: below the cutoff the %s is zeroed (`%s`) but no store zeroes the %s in "
                              "this mode; value and derivative become inconsistent at those points"
                              % (mode, have, pf.src(st), miss), instance=inst)
                continue
            problems = []
            for v in vs:
                for d in ds:
                    mv, md = v["mask"], d["mask"]
                    if v["other"] != d["other"]:
                        problems.append((d, "`%s` runs under %s but `%s` under %s" % (
                            pf.src(v["stmt"]), sorted(v["other"]), pf.src(d["stmt"]), sorted(d["other"]))))
                    elif all(any(x.same(y) for y in mv.alts) for x in md.alts) \
                            and all(any(x.same(y) for y in md.alts) for x in mv.alts):
                        pass  # the derivative is cut exactly where the value is cut
                    elif any(a.cutoff != mv.cutoff or a.source != mv.source for a in md.alts):
                        problems.append((d, "value mask `%s` and derivative mask `%s` are built from different "
                                            "densities or cutoffs" % (
                                                " | ".join(a.text for a in mv.alts), " | ".join(a.text for a in md.alts))))
                    elif not any(any(x.same(y) for y in md.alts) for x in mv.alts):
                        problems.append((d, "the derivative mask `%s` does not contain the value mask `%s`: some "
                                            "points where the value is zeroed keep a derivative (a per-spin mask is not "
                                            "the spin-summed mask)" % (" | ".join(a.text for a in md.alts),
                                                                       " | ".join(a.text for a in mv.alts))))
                    else:
                        extra = [x for x in md.alts if not any(x.same(y) for y in mv.alts)]
                        problems.append((d, "the derivative is also zeroed under `%s`, where the value `%s` is kept "
                                            "(it is only cut under `%s`): at such points the returned derivative is "
                                            "not the gradient of the returned value" % (
                                                " | ".join(a.text for a in extra), v["root"],
                                                " | ".join(a.text for a in mv.alts))))
            # spin granularity: where the value is still resolved per spin channel when it is zeroed (it is
            # summed over the spin axis only afterwards, in this mode), the density compared with the cutoff
            # must be the channel's own density
            for v in vs:
                later = _spin_sum_after(fn, gfn, v, mode)
                if later is not None and v["mask"].summed:
                    problems.append((v, "the value `%s` is per spin channel when it is zeroed (it is summed over "
                                        "spin only later, by `%s`), but the mask `%s` compares the spin-summed "
                                        "density with the cutoff: a channel below the cutoff whose partner is above "
                                        "it keeps its contribution" % (v["root"], pf.src(later), v["mask"].text)))
            if problems:
                d, why = problems[0]
                chk.violation(rule, rel, where, "mode %s: %s" % (mode, pf.src(d["stmt"])), d["stmt"].lineno,
                              "mode %s: %s" % (mode, why), instance=inst)
            else:
                chk.ok(rule, inst, detail="value: %s | derivative: %s" % (
                    "; ".join(pf.src(r["stmt"]) for r in vs), "; ".join(pf.src(r["stmt"]) for r in ds)))


# ----------------------------------------------------------------------------
# gradient pairing in the C squared-exponential kernels (C11)
# ----------------------------------------------------------------------------
def _ws(s):
    return " ".join(s.split())


def c_grad_pairing(tu, fname):
    """Symbolic reading of one evaluate_se_kernel* function.  Every value
    F = (...) * exp(-(se(x1, c1) + se(x2, c2) + ...)) is a *factor* with exponent terms
    {(x_k, c_k)}; the gradient helper call  add_deriv(g, x, c, exps, F)  adds dF/dx for the
    term se(x, c), so (x, c) must be one of F's exponent terms, g must address the same
    channel/point of the gradient array as x does of the input array, and every exponent
    term of a factor that is accumulated into the output must get its add_deriv.
    -> dict(calls=[(line, text, ok, why)], missing=[(fac text, term)], n_terms=int)"""
    inits = {}
    body = tu.body(fname)
    params = {p["id"]: p for p in tu.params(fname)}
    for n in cfacts.walk(body):
        if n.get("kind") == "VarDecl" and _is_ptr(n.get("type")):
            ks = cfacts.kids(n)
            if ks:
                inits[n["id"]] = ks[0]

    def ptr_norm(e, depth=0):
        e = cfacts.strip(e)
        if depth > 8:
            return None
        k = e.get("kind")
        if k == "DeclRefExpr":
            rid = e["referencedDecl"]["id"]
            if rid in params and _is_ptr(params[rid].get("type")):
                return (params[rid]["name"], ())
            if rid in inits:
                return ptr_norm(inits[rid], depth + 1)
            return None
        if k == "BinaryOperator" and e.get("opcode") == "+":
            l, r = cfacts.kids(e)
            for p, o in ((l, r), (r, l)):
                pn = ptr_norm(p, depth + 1)
                if pn is not None:
                    return (pn[0], tuple(sorted(pn[1] + (_ws(tu.text_of(o)),))))
        return None

    def helper_kind(name):
        if name not in tu.funcs:
            return None
        ps = tu.params(name)
        ptrs = [i for i, p in enumerate(ps) if _is_ptr(p.get("type"))]
        dbls = [i for i, p in enumerate(ps) if p.get("type", {}).get("qualType") == "double"]
        rt = tu.func(name).get("type", {}).get("qualType", "")
        if rt.startswith("double") and len(ptrs) >= 2:
            return ("se", ptrs[0], ptrs[1])
        if rt.startswith("void") and len(ptrs) >= 3 and len(dbls) == 1:
            return ("grad", ptrs[0], ptrs[1], ptrs[2], dbls[0])
        return None

    env = {}
    calls, outs = [], []
    hcalls = []  # (helper name, helper kind, call children, factor sym) of every gradient helper call

    def sym(e):
        e = cfacts.strip(e)
        k = e.get("kind")
        if k == "DeclRefExpr":
            return env.get(e["referencedDecl"]["id"])
        if k == "CallExpr":
            ks = cfacts.kids(e)
            name = (cfacts.strip(ks[0]).get("referencedDecl") or {}).get("name")
            hk = helper_kind(name)
            if hk and hk[0] == "se":
                a, b = ptr_norm(ks[1 + hk[1]]), ptr_norm(ks[1 + hk[2]])
                if a is None or b is None:
                    raise AnalysisError("%s: cannot resolve the pointer arguments of `%s`" % (fname, tu.text_of(e)))
                return ("se", a, b)
            if name in ("exp", "expf"):
                terms = set()
                for x in cfacts.walk(ks[1]):
                    if x.get("kind") == "DeclRefExpr":
                        v = env.get(x["referencedDecl"]["id"])
                        if v and v[0] == "se":
                            terms.add((v[1], v[2]))
                return ("fac", frozenset(terms)) if terms else None
            return None
        if k == "BinaryOperator" and e.get("opcode") in ("*", "+", "-", "/"):
            vs = [sym(c) for c in cfacts.kids(e)]
            fs = [v for v in vs if v and v[0] == "fac"]
            if fs:
                t = frozenset()
                for v in fs:
                    t |= v[1]
                return ("fac", t)
            return None
        if k == "UnaryOperator" and e.get("opcode") == "-":
            return sym(cfacts.kids(e)[0])
        return None

    seen = set()

    # feature loops: for-loops that sweep the feature index inside the control-point loop; they contain
    # neither a squared-exponential helper call nor an exp(); their induction variable only selects the
    # feature and is dropped from element addresses
    feat_vars = set()
    for n_ in cfacts.walk(body):
        if n_.get("kind") == "ForStmt":
            has_se = False
            for x_ in cfacts.walk(n_):
                if x_.get("kind") == "CallExpr":
                    nm_ = (cfacts.strip(cfacts.kids(x_)[0]).get("referencedDecl") or {}).get("name")
                    hk_ = helper_kind(nm_)
                    if nm_ in ("exp", "expf") or (hk_ and hk_[0] == "se"):
                        has_se = True
            if has_se:
                continue
            init = cfacts.kids(n_)[0] if cfacts.kids(n_) else None
            if init is not None:
                for d_ in cfacts.walk(init):
                    if d_.get("kind") == "VarDecl":
                        feat_vars.add(d_.get("name"))
                    if d_.get("kind") == "BinaryOperator" and d_.get("opcode") == "=":
                        l_ = cfacts.strip(cfacts.kids(d_)[0])
                        if l_.get("kind") == "DeclRefExpr":
                            feat_vars.add(l_["referencedDecl"]["name"])

    def flat_plus(e):
        e = cfacts.strip(e)
        if e.get("kind") == "BinaryOperator" and e.get("opcode") == "+":
            l, r = cfacts.kids(e)
            return flat_plus(l) + flat_plus(r)
        return [e]

    def elem_norm(e):
        """address of the array element x[idx] with the feature index removed -> (param, offsets), uses_feat"""
        e = cfacts.strip(e)
        if e.get("kind") != "ArraySubscriptExpr":
            return None, False
        base, idx = cfacts.kids(e)
        pn = ptr_norm(base)
        if pn is None:
            return None, False
        terms, uses = [], False
        for t_ in flat_plus(idx):
            txt = _ws(tu.text_of(t_))
            if cfacts.strip(t_).get("kind") == "DeclRefExpr" and txt in feat_vars:
                uses = True
                continue
            terms.append(txt)
        return (pn[0], tuple(sorted(pn[1] + tuple(terms)))), uses

    elems = {}   # scalar local -> element address it was loaded from (inside a feature loop)
    inline = []  # (g, x, c, fac, text, line, fac text)

    def products(e):
        """sum-of-products reading of a gradient increment: list of (factor syms, differences)"""
        e = cfacts.strip(e)
        k_ = e.get("kind")
        if k_ == "BinaryOperator" and e.get("opcode") in ("+", "-"):
            l, r = cfacts.kids(e)
            a, b = operand_elem(l), operand_elem(r)
            if a is not None and b is not None and e.get("opcode") == "-":
                return [([], [(a, b)])]
            return products(l) + products(r)
        if k_ == "BinaryOperator" and e.get("opcode") == "*":
            l, r = cfacts.kids(e)
            return [(fa + fb, da + db) for fa, da in products(l) for fb, db in products(r)]
        if k_ == "UnaryOperator" and e.get("opcode") == "-":
            return products(cfacts.kids(e)[0])
        if k_ == "DeclRefExpr":
            v = env.get(e["referencedDecl"]["id"])
            if v and v[0] == "fac":
                return [([(v, _ws(tu.text_of(e)))], [])]
        return [([], [])]

    def operand_elem(e):
        e = cfacts.strip(e)
        if e.get("kind") == "DeclRefExpr":
            return elems.get(e["referencedDecl"]["id"])
        if e.get("kind") == "ArraySubscriptExpr":
            pn, uses = elem_norm(e)
            return pn if uses else None
        return None

    def inline_grad(n, lhs, rhs):
        g, uses = elem_norm(lhs)
        if g is None or not uses:
            return False
        xbases = {t[0][0] for v in list(env.values()) if v and v[0] == "fac" for t in v[1]}
        cbases = {t[1][0] for v in list(env.values()) if v and v[0] == "fac" for t in v[1]}
        hit = False
        for facs, diffs in products(rhs):
            if len(facs) != 1 or len(diffs) != 1:
                continue
            (f, ftext), (a, b) = facs[0], diffs[0]
            if a[0] in xbases and b[0] in cbases:
                x, c = a, b
            elif b[0] in xbases and a[0] in cbases:
                x, c = b, a
            else:
                continue
            hit = True
            inline.append((g, x, c, f, _ws(tu.text_of(n)), tu.line_of(n), ftext))
        return hit

    def stmt(n):
        k = n.get("kind")
        off = (k, n.get("range", {}).get("begin", {}).get("offset"))
        if k == "DeclStmt":
            for d in cfacts.kids(n):
                ks = cfacts.kids(d)
                if d.get("kind") == "VarDecl" and ks and not _is_ptr(d.get("type")):
                    env[d["id"]] = sym(ks[0])
                    pn_, uses_ = elem_norm(ks[0])
                    if pn_ is not None and uses_:
                        elems[d["id"]] = pn_
            return
        if k in ("BinaryOperator", "CompoundAssignOperator") and n.get("opcode", "") in ("=", "+=", "-=", "*="):
            l, r = cfacts.kids(n)
            ls = cfacts.strip(l)
            if ls.get("kind") == "DeclRefExpr":
                rid = ls["referencedDecl"]["id"]
                v = sym(r)
                if n.get("opcode") != "=":
                    old = env.get(rid)
                    fs = [x for x in (old, v) if x and x[0] == "fac"]
                    t = frozenset()
                    for x in fs:
                        t |= x[1]
                    v = ("fac", t) if fs else None
                env[rid] = v
            elif ls.get("kind") == "ArraySubscriptExpr":
                if off not in seen and n.get("opcode") in ("+=", "-=") and inline_grad(n, ls, r):
                    seen.add(off)
                    return
                pn = ptr_norm(cfacts.kids(ls)[0])
                v = sym(r)
                if pn is not None and v and v[0] == "fac" and off not in seen:
                    outs.append((pn, v, tu.text_of(n), tu.line_of(n)))
            seen.add(off)
            return
        if k == "CallExpr":
            ks = cfacts.kids(n)
            name = (cfacts.strip(ks[0]).get("referencedDecl") or {}).get("name")
            hk = helper_kind(name)
            if hk and hk[0] == "grad" and off not in seen:
                seen.add(off)
                g, x, c = (ptr_norm(ks[1 + hk[i]]) for i in (1, 2, 3))
                f = sym(ks[1 + hk[4]])
                calls.append((g, x, c, f, _ws(tu.text_of(n)), tu.line_of(n), _ws(tu.text_of(ks[1 + hk[4]]))))
                hcalls.append((name, hk, ks, f))
            return
        if k in ("CompoundStmt", "ForStmt", "CapturedStmt", "CapturedDecl", "IfStmt", "WhileStmt") \
                or k.startswith("OMP"):
            ks = cfacts.kids(n)
            if k.startswith("OMP"):
                ks = [c for c in ks if c.get("kind") == "CapturedStmt"][:1]
            if k == "CapturedDecl":
                ks = ks[:1]
            for c in ks:
                stmt(c)

    stmt(body)
    res = {"calls": [], "missing": [], "n_terms": 0, "skips": []}
    # continue / break / return guarded by a condition that reads the differentiated input: the skipped
    # iteration would also have stored gradient contributions
    xbases = {t[0][0] for v in env.values() if v and v[0] == "fac" for t in v[1]} | {
        c_[1][0] for c_ in calls if c_[1] is not None}
    seen_if = set()
    for n_ in cfacts.walk(body):
        if n_.get("kind") != "IfStmt":
            continue
        off_ = n_.get("range", {}).get("begin", {}).get("offset")
        if off_ in seen_if:
            continue
        seen_if.add(off_)
        ks_ = cfacts.kids(n_)
        if len(ks_) < 2 or not any(x_.get("kind") in ("ContinueStmt", "BreakStmt", "ReturnStmt")
                                   for x_ in cfacts.walk(ks_[1])):
            continue
        reads_x = False
        for x_ in cfacts.walk(ks_[0]):
            if x_.get("kind") == "ArraySubscriptExpr":
                pn_ = ptr_norm(cfacts.kids(x_)[0])
                if pn_ is not None and pn_[0] in xbases:
                    reads_x = True
        if reads_x:
            res["skips"].append((tu.line_of(n_), _ws(tu.text_of(ks_[0])),
                                 "the iteration is skipped when `%s`, a condition on the input sample" % _ws(tu.text_of(ks_[0]))))
    # one call level down: the gradient helper the kernel calls must itself add its contribution for every
    # (sample, control point) pair - the caller accumulates the value unconditionally, so a guard or early exit
    # inside the helper on an argument that carries the sample drops gradient terms of a value that is kept
    done_h = set()
    for name, hk, ks, f in hcalls:
        for line_, ctext, what in _helper_sample_guards(tu, name, hk):
            if (name, ctext) in done_h:
                continue
            deps = []
            for i_ in what:
                a_ = ks[1 + i_]
                pn_ = ptr_norm(a_)
                v_ = sym(a_) if pn_ is None else None
                if pn_ is not None and pn_[0] in xbases:
                    deps.append("`%s` (the input sample)" % _ws(tu.text_of(a_)))
                elif v_ is not None and v_[0] in ("fac", "se"):
                    deps.append("`%s` (the kernel factor, a function of the sample)" % _ws(tu.text_of(a_)))
            if not deps:
                continue
            done_h.add((name, ctext))
            res["skips"].append((line_, "%s: %s" % (name, ctext),
                                 "the gradient helper `%s` skips its accumulation when `%s`, a condition on its "
                                 "argument %s, while the caller accumulates the value for every pair"
                                 % (name, ctext, ", ".join(deps))))
    covered = {}
    for g, x, c, f, text, line, ftext in calls + inline:
        if f is None or f[0] != "fac" or g is None or x is None or c is None:
            raise AnalysisError("%s: gradient call `%s` not understood (factor or pointer arguments)" % (fname, text))
        why = None
        if (x, c) not in f[1]:
            pairs = ", ".join("se(%s, %s)" % (_p(a), _p(b)) for a, b in sorted(f[1]))
            why = ("it differentiates `%s` with respect to %s around the control point %s, but the exponent of "
                   "`%s` is -(%s): that pair is not one of its terms" % (ftext, _p(x), _p(c), ftext, pairs))
        elif g[1] != x[1]:
            why = ("the gradient is accumulated at %s but the differentiated input is %s (different spin "
                   "channel / point offset)" % (_p(g), _p(x)))
        covered.setdefault(f[1], set()).add((x, c))
        res["calls"].append((line, text, why is None, why))
    for pn, v, text, line in outs:
        for term in sorted(v[1]):
            res["n_terms"] += 1
            # a term is covered when some gradient call with a factor containing it differentiates it
            if not any(term in got and term in terms for terms, got in covered.items()):
                res["missing"].append((line, text, "se(%s, %s)" % (_p(term[0]), _p(term[1]))))
    return res


def _helper_sample_guards(tu, name, hk):
    """IfStmts of the gradient helper `name` whose branches leave early (return / continue / break) or contain
    the stores into the gradient parameter, together with the parameter positions the condition depends on
    (directly or through scalar locals).  An exact zero test of the factor parameter that only skips the
    zero case is exempt: every term the helper adds is proportional to the factor.
    -> [(line, condition text, {param index})]"""
    ps = tu.params(name)
    pidx = {p["id"]: i for i, p in enumerate(ps)}
    body = tu.body(name)
    gid, fid = ps[hk[1]]["id"], ps[hk[4]]["id"]
    dep = {pid: {i} for pid, i in pidx.items()}
    changed = True
    while changed:
        changed = False
        for n in cfacts.walk(body):
            tgt = src = None
            if n.get("kind") == "VarDecl" and cfacts.kids(n):
                tgt, src = n["id"], cfacts.kids(n)[0]
            elif n.get("kind") in ("BinaryOperator", "CompoundAssignOperator") and \
                    n.get("opcode", "") in ("=", "+=", "-=", "*=", "/="):
                l, r = cfacts.kids(n)
                ls = cfacts.strip(l)
                if ls.get("kind") == "DeclRefExpr":
                    tgt, src = ls["referencedDecl"]["id"], r
            if tgt is None or tgt in pidx:
                continue
            got = set()
            for x in cfacts.walk(src):
                if x.get("kind") == "DeclRefExpr":
                    got |= dep.get(x["referencedDecl"]["id"], set())
            if not got <= dep.get(tgt, set()):
                dep[tgt] = dep.get(tgt, set()) | got
                changed = True

    def refs(n, ids):
        return any(x.get("kind") == "DeclRefExpr" and x["referencedDecl"]["id"] in ids for x in cfacts.walk(n))

    gptrs = {i for i, d in dep.items() if hk[1] in d and i not in pidx} | {gid}

    def stores_grad(n):
        for x in cfacts.walk(n):
            if x.get("kind") in ("BinaryOperator", "CompoundAssignOperator") and \
                    x.get("opcode", "") in ("=", "+=", "-=", "*=", "/="):
                l = cfacts.strip(cfacts.kids(x)[0])
                if l.get("kind") in ("ArraySubscriptExpr", "UnaryOperator") and refs(l, gptrs):
                    return True
        return False

    def exits(n):
        return any(x.get("kind") in ("ContinueStmt", "BreakStmt", "ReturnStmt") for x in cfacts.walk(n))

    def zero_test(cond):
        """('==' | '!=') when cond is an exact comparison of the factor parameter with literal zero"""
        c = cfacts.strip(cond)
        while c.get("kind") == "ParenExpr":
            c = cfacts.strip(cfacts.kids(c)[0])
        if c.get("kind") == "UnaryOperator" and c.get("opcode") == "!":
            o = cfacts.strip(cfacts.kids(c)[0])
            if o.get("kind") == "DeclRefExpr" and o["referencedDecl"]["id"] == fid:
                return "=="
        if c.get("kind") == "DeclRefExpr" and c["referencedDecl"]["id"] == fid:
            return "!="
        if c.get("kind") == "BinaryOperator" and c.get("opcode") in ("==", "!="):
            l, r = (cfacts.strip(k) for k in cfacts.kids(c))
            for a, b in ((l, r), (r, l)):
                if a.get("kind") == "DeclRefExpr" and a["referencedDecl"]["id"] == fid and \
                        b.get("kind") in ("FloatingLiteral", "IntegerLiteral"):
                    try:
                        if float(b.get("value")) == 0.0:
                            return c.get("opcode")
                    except (TypeError, ValueError):
                        pass
        return None

    out, seen = [], set()
    for n in cfacts.walk(body):
        if n.get("kind") != "IfStmt":
            continue
        off = n.get("range", {}).get("begin", {}).get("offset")
        if off in seen:
            continue
        seen.add(off)
        ks = cfacts.kids(n)
        if len(ks) < 2:
            continue
        cond, then, els = ks[0], ks[1], (ks[2] if len(ks) > 2 else None)
        if not (exits(then) or stores_grad(then) or (els is not None and (exits(els) or stores_grad(els)))):
            continue
        what = set()
        for x in cfacts.walk(cond):
            if x.get("kind") == "DeclRefExpr":
                what |= dep.get(x["referencedDecl"]["id"], set())
        what.discard(hk[1])
        if not what:
            continue
        z = zero_test(cond)
        if z == "==" and not stores_grad(then) and (els is None or not exits(els)):
            continue  # `if (fac == 0) return;` - only the exactly vanishing term is skipped
        if z == "!=" and els is None and not exits(then):
            continue  # `if (fac != 0) { grad += ... }`
        out.append((tu.line_of(n), _ws(tu.text_of(cond)), what))
    return out


def _p(pn):
    return pn[0] + "".join(" + " + o for o in pn[1])


# ----------------------------------------------------------------------------
# reaching definitions on the statement CFG
# ----------------------------------------------------------------------------
def _binds_name(st, name):
    if isinstance(st, (ast.Assign, ast.AugAssign, ast.AnnAssign)):
        ts = st.targets if isinstance(st, ast.Assign) else [st.target]
        return any(isinstance(x, ast.Name) and x.id == name and isinstance(x.ctx, ast.Store)
                   for t in ts for x in ast.walk(t) if not isinstance(t, ast.Subscript) or x is t)
    if isinstance(st, (ast.For, ast.AsyncFor)):
        return any(isinstance(x, ast.Name) and x.id == name for x in ast.walk(st.target))
    return False


def reaching_defs(g, name, use_node):
    """CFG nodes binding `name` whose binding may reach `use_node` (a cfg.Node), plus
    None when the entry reaches it without any binding."""
    defs = [n for n in g.nodes if n.ast is not None and n.kind in ("stmt", "iter") and _binds_name(n.ast, name)]
    ids = {d.id for d in defs}
    out = []
    for d in defs:
        seen = set()
        todo = list(g.succ[d.id])
        hit = False
        while todo:
            u = todo.pop()
            if u in seen:
                continue
            seen.add(u)
            if u == use_node.id:
                hit = True
                break
            if u in ids:
                continue
            todo.extend(g.succ[u])
        if hit:
            out.append(d)
    if use_node.id in g.reachable(g.entry.id, blocked=ids - {use_node.id}):
        out.append(None)
    return out


# ----------------------------------------------------------------------------
# read-slot == write-slot pairing of spin-resolved inputs and their derivative buffers (C04)
# ----------------------------------------------------------------------------
def _slot_text(e, loopvar):
    """canonical text of an index expression in the loop variable (2*s == s*2 == s+s)"""
    try:
        from sa import exprnorm as en
        nz = en.Normaliser({loopvar: "s"})
        return en.show(nz.expr(e))
    except Exception:
        return pf.src(e)


def slot_pairing(fn):
    """Buffers created as np.zeros_like(<template>) and collected in a list/tuple B receive, inside a
    `for s` loop, the derivative with respect to a slot of <template>:  B[j][I_w(s)] = ...  while the
    input slot is read as <template>[I_r(s) : I_r(s) + 1] (or <template>[I_r(s)]).  For every template
    the slots read and the slots written in the same loop must coincide.
    -> list of dict(template, reads=[(slot, node)], writes=[(slot, node)], loop)"""
    # buffer lists: name -> [template text per element]
    lists = {}
    order = sorted((n for n in pf.walk_no_nested(fn) if isinstance(n, (ast.Assign, ast.Expr))),
                   key=lambda n: (n.lineno, n.col_offset))

    def template(e, env=None):
        if isinstance(e, ast.Call) and pf.call_name(e) in ("np.zeros_like", "numpy.zeros_like", "np.empty_like") and e.args:
            a = e.args[0]
            if env and isinstance(a, ast.Name) and a.id in env:
                return env[a.id]
            return pf.src(a)
        return None

    def template_list(v):
        """templates of the elements of a list-valued expression of zeros_like buffers, or None"""
        if isinstance(v, (ast.List, ast.Tuple)):
            ts = [template(x) for x in v.elts]
            return ts if v.elts and all(ts) else None
        if isinstance(v, ast.Call) and pf.call_name(v) in ("tuple", "list") and len(v.args) == 1:
            if isinstance(v.args[0], ast.Name) and v.args[0].id in lists:
                return lists[v.args[0].id]
            return template_list(v.args[0])
        if isinstance(v, ast.BinOp) and isinstance(v.op, ast.Add):
            l, r = template_list(v.left), template_list(v.right)
            return (l + r) if (l is not None and r is not None) else None
        if isinstance(v, (ast.ListComp, ast.GeneratorExp)) and len(v.generators) == 1 and not v.generators[0].ifs \
                and isinstance(v.generators[0].target, ast.Name):
            # [np.zeros_like(r) for r in T] / for r in T[:k]: element i is shaped like T[i]
            it = v.generators[0].iter
            n_el = 6
            if isinstance(it, ast.Subscript) and isinstance(it.slice, ast.Slice) and it.slice.lower is None \
                    and it.slice.step is None and isinstance(it.slice.upper, ast.Constant):
                n_el, it = it.slice.upper.value, it.value
            if isinstance(it, (ast.Name, ast.Attribute)) and isinstance(n_el, int):
                out_ = []
                for i in range(n_el):
                    t_ = template(v.elt, {v.generators[0].target.id: "%s[%d]" % (pf.src(it), i)})
                    if t_ is None:
                        return None
                    out_.append(t_)
                return out_
        return None

    for n in order:
        if isinstance(n, ast.Assign) and len(n.targets) == 1 and isinstance(n.targets[0], ast.Name):
            t, v = n.targets[0].id, n.value
            tl = template_list(v)
            if tl is not None:
                lists[t] = tl
        elif isinstance(n, ast.Expr) and isinstance(n.value, ast.Call) and isinstance(n.value.func, ast.Attribute) \
                and n.value.func.attr == "append" and isinstance(n.value.func.value, ast.Name) \
                and n.value.func.value.id in lists and n.value.args and template(n.value.args[0]):
            lists[n.value.func.value.id] = lists[n.value.func.value.id] + [template(n.value.args[0])]
    out = []
    if not lists:
        return out
    for loop in pf.walk_no_nested(fn):
        if not (isinstance(loop, ast.For) and isinstance(loop.target, ast.Name)):
            continue
        s = loop.target.id
        per = {}
        for n in ast.walk(loop):
            # writes  B[j][I] = ... / B[j][I] op= ...
            tgt = None
            if isinstance(n, ast.Assign) and len(n.targets) == 1:
                tgt = n.targets[0]
            elif isinstance(n, ast.AugAssign):
                tgt = n.target
            if isinstance(tgt, ast.Subscript) and isinstance(tgt.value, ast.Subscript) \
                    and isinstance(tgt.value.value, ast.Name) and tgt.value.value.id in lists \
                    and isinstance(tgt.value.slice, ast.Constant) and isinstance(tgt.value.slice.value, int):
                j = tgt.value.slice.value
                tl = lists[tgt.value.value.id]
                idx = tgt.slice.elts[0] if isinstance(tgt.slice, ast.Tuple) else tgt.slice
                if isinstance(idx, ast.Slice):
                    idx = idx.lower
                if -len(tl) <= j < len(tl) and idx is not None and s in names_in(idx):
                    per.setdefault(tl[j], {"reads": [], "writes": []})["writes"].append((_slot_text(idx, s), n))
        templates = {t for tl in lists.values() for t in tl}
        for n in ast.walk(loop):
            if isinstance(n, ast.Subscript) and isinstance(n.ctx, ast.Load) and pf.src(n.value) in templates:
                idx = n.slice.elts[0] if isinstance(n.slice, ast.Tuple) else n.slice
                if isinstance(idx, ast.Slice):
                    lo, hi = idx.lower, idx.upper
                    if lo is None or hi is None or idx.step is not None or s not in names_in(lo):
                        continue
                    # a single slot: upper == lower + 1
                    one = ast.BinOp(left=hi, op=ast.Sub(), right=lo)
                    if _slot_text(one, s) != "1":
                        continue
                    idx = lo
                elif s not in names_in(idx):
                    continue
                per.setdefault(pf.src(n.value), {"reads": [], "writes": []})["reads"].append((_slot_text(idx, s), n))
        for t, d in sorted(per.items()):
            if d["reads"] and d["writes"]:
                out.append({"template": t, "reads": d["reads"], "writes": d["writes"], "loop": loop})
    return out
