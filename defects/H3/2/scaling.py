"""Uniform-scaling harness: build a molecule and its uniformly scaled copy
(n_lambda(r) = lambda^3 n(lambda r)) and evaluate CiderPress descriptors with the
real PySCF interface on both."""
import sys, os
sys.path.insert(0, os.path.dirname(os.path.abspath(__file__)))
import ciderlib
ciderlib.install()
import numpy as np
from types import SimpleNamespace
from pyscf import gto, scf, dft
from pyscf.dft.gen_grid import Grids


def make_mol(lam=1.0, atoms=None, basis_name="6-31g", spin=0):
    if atoms is None:
        atoms = [("Li", (0.0, 0.0, 0.0)), ("H", (0.0, 0.0, 3.0))]
    basis = {}
    for sym, _ in atoms:
        b = gto.basis.load(basis_name, sym)
        nb = []
        for shell in b:
            l = shell[0]
            prims = [[p[0] * lam * lam] + list(p[1:]) for p in shell[1:]]
            nb.append([l] + prims)
        basis[sym] = nb
    atom = [(sym, tuple(np.array(xyz) / lam)) for sym, xyz in atoms]
    mol = gto.M(atom=atom, basis=basis, unit="Bohr", spin=spin, verbose=0)
    return mol


class FakeAnalyzer:
    def __init__(self, mol, dm, coords, mo_coeff=None, mo_occ=None, mo_energy=None):
        self.mol = mol
        self.rdm1 = dm
        self.dm = dm
        g = Grids(mol)
        g.level = 1
        g.build(with_non0tab=False)
        g.coords = np.ascontiguousarray(coords)
        g.weights = np.ones(coords.shape[0])
        g.non0tab = None
        g.screen_index = None
        self.grids = g
        self.mo_coeff = mo_coeff
        self.mo_occ = mo_occ
        self.mo_energy = mo_energy


def reference_state(atoms=None, basis_name="6-31g"):
    mol = make_mol(1.0, atoms, basis_name)
    mf = scf.RHF(mol)
    mf.kernel()
    return mol, mf


def default_points(n=24, seed=3):
    rng = np.random.default_rng(seed)
    pts = rng.normal(size=(n, 3)) * 1.2
    pts[:, 2] += np.linspace(-0.5, 3.5, n)
    return pts
