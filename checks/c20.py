#!/usr/bin/env python3
"""C20 -- FFT plan wrapper (ciderpress/lib/fft_plan.py over fft_wrapper/cider_fft.c).
Thin static rules (DESIGN.md §C20); that the output *is* the DFT is not decidable here.

 shape-guard   in FFTWrapper.call the test `x.shape != self._inshape -> raise` lies on every path to
               every libfft call, and the output buffer is allocated with self._outshape
 ffi           the libfft call sites of fft_plan.py conform to the C prototypes; restype is set for
               every pointer-returning function whose result is used
 fftw-roles    the (plan, in, out) entry point is evaluated with callees inlined; the arguments reaching
               fftw_plan_many_dft* are bound through the manual's parameter names (stubs/fftw3.h) and must be the
               plan's rank/dims/ntransform, the right buffers, NULL embeddings, and strides/dists that tile
               fft_in_size / fft_out_size; planner kind and sign match the transform
 buffer-layout every array parameter of the wrapper passed as `<p>.ctypes.data[_as]` is made C-contiguous and of a
               definite dtype (np.ascontiguousarray/require/.copy()/dtype=/astype, fresh allocation) or rejected
               by an assert / raise on .flags and .dtype, on every path to the native call
 shape-table   _inshape/_outshape for the 8 combinations of (r2c, batch_first, fwd) equal the decision
               table (r2c halves only the last axis, batch axis first/last, fwd/bwd swap); values are
               integer polynomials, so equivalent spellings of a dimension compare equal
 layout        allocate_fftnd_plan, malloc_fft_plan_*_array, write_fft_input and read_fft_output are
               *evaluated* (sa.cpoly: concrete flags and rank 3, polynomial sizes, C `/` opaque unless
               exact) for all 16 flag configurations; decided identities, none of them textual:
               ntransform*fft_in/out_size == element count of the python in/out shape (in-place real side
               == 2 x complex side); (nt-1)*dist + (size-1)*stride + 1 == nt*size for idist and odist;
               each copy addresses exactly [0, python element count) of the caller's array and exactly
               the allocated plan buffer (padded: rows * padded row == allocation); element types of
               the copies == real/complex side of the plan == dtype FFTWrapper.call allocates; dense row ==
               last axis * plan stride; padded/dense row ratio == the plan's own in-place/out-of-place
               real size ratio; write and read use equal padded and dense row polynomials
"""
import ast
import itertools
import os
import re
import sys

sys.path.insert(0, os.path.dirname(os.path.dirname(os.path.abspath(__file__))))
from sa import core, pyfacts as pf, cfg as cfgm, cfacts, ffi, cpoly  # noqa: E402
from sa.selftest import Mutant  # noqa: E402

PROP = "C20"
FP = "ciderpress/lib/fft_plan.py"
CF = "fft_wrapper/cider_fft.c"
CFULL = "ciderpress/lib/" + CF


# ----------------------------------------------------------------------------
def rule_shape_guard(chk, eng, mod):
    fn = mod.func("FFTWrapper.call")
    g = cfgm.CFG(fn)
    params = [a.arg for a in fn.args.args[1:]]
    if not params:
        raise core.AnalysisError("FFTWrapper.call takes no input array")
    x = params[0]

    # names of the advertised input shape: the attribute and properties that return it
    cls = mod.cls("FFTWrapper")
    in_names = {"self._inshape"}
    for nm, m_ in pf.methods(cls).items():
        if any(pf.src(d) == "property" for d in m_.decorator_list):
            rets = [n for n in pf.walk_no_nested(m_) if isinstance(n, ast.Return)]
            if len(rets) == 1 and pf.src(rets[0].value) == "self._inshape":
                in_names.add("self." + nm)
    x_names = {"%s.shape" % x, "tuple(%s.shape)" % x, "np.shape(%s)" % x}

    def shape_cmp(t):
        """-> True if t holds exactly when the shapes are equal, False if exactly when they differ, else None"""
        if isinstance(t, ast.UnaryOp) and isinstance(t.op, ast.Not):
            r = shape_cmp(t.operand)
            return None if r is None else not r
        if isinstance(t, ast.Compare) and len(t.ops) == 1 and isinstance(t.ops[0], (ast.Eq, ast.NotEq)):
            a, b = pf.src(t.left), pf.src(t.comparators[0])
            a = a[6:-1] if a.startswith("tuple(self.") else a
            b = b[6:-1] if b.startswith("tuple(self.") else b
            if (a in x_names and b in in_names) or (b in x_names and a in in_names):
                return isinstance(t.ops[0], ast.Eq)
        return None

    def guard_stmt(a, is_test, cmp):
        if isinstance(a, ast.Assert) and not is_test:
            return cmp(a.test) is True
        if isinstance(a, ast.If) and is_test:
            r = cmp(a.test)
            if r is False:
                return cfgm._raises(a.body)
            if r is True:
                return bool(a.orelse) and cfgm._raises(a.orelse)
        return False

    def helper_guard(call):
        """self._check(x) / cls._check(x, ...) whose body tests its parameter's shape against self._inshape on every
        path to its normal exit"""
        f = call.func
        if not (isinstance(f, ast.Attribute) and isinstance(f.value, ast.Name) and f.value.id in ("self", "cls", cls.name)):
            return False
        h = pf.methods(cls).get(f.attr)
        if h is None:
            return False
        hp = [a.arg for a in h.args.args]
        if not any(pf.src(d) == "staticmethod" for d in h.decorator_list):
            hp = hp[1:]
        bound = None
        for i, a in enumerate(call.args):
            if isinstance(a, ast.Name) and a.id == x and i < len(hp):
                bound = hp[i]
        for k in call.keywords:
            if isinstance(k.value, ast.Name) and k.value.id == x:
                bound = k.arg
        if bound is None:
            return False
        hx = {"%s.shape" % bound, "tuple(%s.shape)" % bound, "np.shape(%s)" % bound}

        def hcmp(t):
            if isinstance(t, ast.UnaryOp) and isinstance(t.op, ast.Not):
                r = hcmp(t.operand)
                return None if r is None else not r
            if isinstance(t, ast.Compare) and len(t.ops) == 1 and isinstance(t.ops[0], (ast.Eq, ast.NotEq)):
                a_, b_ = pf.src(t.left), pf.src(t.comparators[0])
                if (a_ in hx and b_ in in_names) or (b_ in hx and a_ in in_names):
                    return isinstance(t.ops[0], ast.Eq)
            return None
        hg = cfgm.CFG(h)
        rebound = any(isinstance(n, ast.Name) and n.id == bound and isinstance(n.ctx, ast.Store) for n in ast.walk(h))
        return not rebound and hg.must_pass(lambda nd: nd.ast is not None and guard_stmt(nd.ast, nd.kind == "test", hcmp))[0]

    def is_guard(nd):
        a = nd.ast
        if nd.kind == "stmt" and isinstance(a, (ast.Expr, ast.Assign)) and isinstance(a.value, ast.Call) \
                and helper_guard(a.value):
            return True
        if nd.kind == "stmt" and isinstance(a, ast.Assert):
            return shape_cmp(a.test) is True
        if nd.kind != "test" or not isinstance(a, ast.If):
            return False
        r = shape_cmp(a.test)
        if r is False:
            return cfgm._raises(a.body)
        if r is True:
            return bool(a.orelse) and cfgm._raises(a.orelse)
        return False

    guard_ids = [nd.id for nd in g.nodes if nd.ast is not None and is_guard(nd)]
    inst0 = "FFTWrapper.call: the shape test sees the array as passed (parameter %s not re-bound before it)" % x
    rebinds = []
    for nd in g.nodes:
        a = nd.ast
        if a is None or nd.id in guard_ids:
            continue
        stores = [n for n in (ast.walk(a) if nd.kind == "stmt" else ast.walk(getattr(a, "target", ast.Pass())))
                  if isinstance(n, ast.Name) and n.id == x and isinstance(n.ctx, ast.Store)]
        if stores and any(gid in g.reachable(nd.id) for gid in guard_ids):
            rebinds.append(a)
    if guard_ids and not rebinds:
        chk.ok("shape-guard", inst0)
    elif guard_ids:
        chk.violation("shape-guard", FP, "FFTWrapper.call", "parameter %s re-bound before the shape test" % x,
                      rebinds[0].lineno, "`%s` assigns %s before `if %s.shape != self._inshape`: the test no longer "
                      "sees the shape the caller passed, so a wrongly shaped input can be accepted"
                      % (pf.src(rebinds[0])[:80], x, x), instance=inst0)
    sites = [s for s in eng.sites if s.rel == FP and s.func == "FFTWrapper.call"]
    if len(sites) < 3:
        raise core.AnalysisError("FFTWrapper.call makes %d libfft call(s); 3 expected (write/execute/read)" % len(sites))
    for s in sites:
        cn = g.stmt_of_expr(s.node)
        okp, _ = g.must_pass(is_guard, dst=cn.id)
        inst = "FFTWrapper.call: shape test before %s" % "|".join(s.callees)
        if okp:
            chk.ok("shape-guard", inst)
        else:
            chk.violation("shape-guard", FP, "FFTWrapper.call", "shape test before %s" % "|".join(s.callees), s.line,
                          "a path reaches libfft.%s without passing `if %s.shape != self._inshape: raise`; "
                          "write_fft_input copies ntransform*fft_in_size elements from the array regardless of "
                          "its size" % ("|".join(s.callees), x), instance=inst)
    # the buffer handed to read_fft_output is allocated with the advertised output shape
    rd = [s for s in sites if "read_fft_output" in s.callees]
    if not rd:
        raise core.AnalysisError("FFTWrapper.call no longer calls read_fft_output")
    out_src = None
    for c, al in rd[0].pairs:
        if al and len(al) >= 2 and ".ctypes" in al[1][1]:
            out_src = al[1][1].split(".ctypes")[0]
    allocs = [n for n in pf.walk_no_nested(fn) if isinstance(n, ast.Assign) and len(n.targets) == 1
              and isinstance(n.targets[0], ast.Name) and n.targets[0].id == out_src]
    inst = "FFTWrapper.call: output buffer allocated with self._outshape"
    good = len(allocs) == 1 and isinstance(allocs[0].value, ast.Call) \
        and pf.call_name(allocs[0].value) in ("np.empty", "np.zeros") and allocs[0].value.args \
        and pf.src(allocs[0].value.args[0]) == "self._outshape"
    if good:
        chk.ok("shape-guard", inst)
    else:
        chk.violation("shape-guard", FP, "FFTWrapper.call", "out = np.empty(self._outshape, ...)", fn.lineno,
                      "the array passed to read_fft_output (`%s`) is not allocated in call() as "
                      "np.empty(self._outshape, ...): read_fft_output writes ntransform*fft_out_size elements"
                      % out_src, instance=inst)


# ----------------------------------------------------------------------------
# symbolic evaluation of the shape construction in FFTWrapper.__init__ (values are polynomials)
# ----------------------------------------------------------------------------
P = cpoly.Poly
NDIM = 3
DIMS = [P.atom("d%d" % k) for k in range(NDIM)]
NT = P.atom("nt")


class _Sym:
    """tiny evaluator over python lists of dimension polynomials; `//` is the same opaque division atom the
    C evaluator produces for `/`"""

    def __init__(self, flags, cls=None, depth=0):
        self.env = {"dims": list(DIMS), "ntransform": NT}
        self.env.update(flags)
        self.attrs = {}
        self.cls = cls
        self.depth = depth
        self.returned = None

    def call_helper(self, e):
        """self._helper(...) / cls._helper(...) / ClassName._helper(...): a method or staticmethod of the wrapper
        class, evaluated with its parameters bound to the argument values -> returned value"""
        f = e.func
        if not (isinstance(f, ast.Attribute) and isinstance(f.value, ast.Name) and self.cls is not None
                and f.value.id in ("self", "cls", self.cls.name)) or self.depth > 3:
            return None
        m_ = pf.methods(self.cls).get(f.attr)
        if m_ is None:
            return None
        params = [a.arg for a in m_.args.args]
        static = any(pf.src(d) == "staticmethod" for d in m_.decorator_list)
        if not static:
            params = params[1:]
        sub = _Sym({}, self.cls, self.depth + 1)
        sub.env = {}
        sub.attrs = self.attrs
        defaults = m_.args.defaults
        for i, p_ in enumerate(params):
            if i < len(e.args):
                sub.env[p_] = self.ev(e.args[i])
        for k in e.keywords:
            if k.arg:
                sub.env[k.arg] = self.ev(k.value)
        for p_, d in zip(reversed(params), reversed(defaults)):
            if p_ not in sub.env:
                sub.env[p_] = sub.ev(d)
        sub.run(m_.body, stop_on_shapes=False)
        return sub.returned

    def ev(self, e):
        if isinstance(e, ast.Constant):
            return e.value
        if isinstance(e, ast.Name):
            if e.id not in self.env:
                raise core.AnalysisError("shape construction reads unknown name %s" % e.id)
            return self.env[e.id]
        if pf.is_self_attr(e):
            if e.attr not in self.attrs:
                ca = pf.class_attrs(self.cls).get(e.attr) if self.cls is not None else None
                if ca is not None:
                    return self.ev(ca)  # class-level constant
                raise core.AnalysisError("shape construction reads self.%s before it is set" % e.attr)
            return self.attrs[e.attr]
        if isinstance(e, ast.ListComp) and len(e.generators) == 1 and not e.generators[0].ifs \
                and isinstance(e.elt, ast.Name) and isinstance(e.generators[0].target, ast.Name) \
                and e.elt.id == e.generators[0].target.id:
            return list(self.ev(e.generators[0].iter))
        if isinstance(e, (ast.List, ast.Tuple)):
            out = []
            for x in e.elts:
                if isinstance(x, ast.Starred):
                    out += list(self.ev(x.value))
                else:
                    out.append(self.ev(x))
            return out
        if isinstance(e, ast.Subscript):
            base = self.ev(e.value)
            if isinstance(e.slice, ast.Slice):
                lo = self.ev(e.slice.lower) if e.slice.lower else None
                hi = self.ev(e.slice.upper) if e.slice.upper else None
                return base[lo:hi]
            return base[self.ev(e.slice)]
        if isinstance(e, ast.UnaryOp) and isinstance(e.op, ast.USub):
            return -self.ev(e.operand)
        if isinstance(e, ast.UnaryOp) and isinstance(e.op, ast.Not):
            return not self.ev(e.operand)
        if isinstance(e, ast.BoolOp):
            vals = [bool(self.ev(v)) for v in e.values]
            return all(vals) if isinstance(e.op, ast.And) else any(vals)
        if isinstance(e, ast.IfExp):
            return self.ev(e.body) if self.ev(e.test) else self.ev(e.orelse)
        if isinstance(e, ast.Attribute) and pf.src(e) in ("np.float64", "np.complex128", "numpy.float64",
                                                           "numpy.complex128", "np.double", "np.cdouble"):
            return {"float64": "real", "double": "real"}.get(e.attr, "complex")
        if isinstance(e, ast.BinOp):
            a, b = self.ev(e.left), self.ev(e.right)
            if isinstance(a, list) and isinstance(b, list) and isinstance(e.op, ast.Add):
                return a + b
            if isinstance(a, int) and isinstance(b, int) and not isinstance(e.op, (ast.FloorDiv, ast.Div)):
                return {ast.Add: a + b, ast.Sub: a - b, ast.Mult: a * b}.get(type(e.op))
            if isinstance(a, (int, P)) and isinstance(b, (int, P)):
                a, b = cpoly._p(a), cpoly._p(b)
                if isinstance(e.op, ast.Add):
                    return a + b
                if isinstance(e.op, ast.Sub):
                    return a - b
                if isinstance(e.op, ast.Mult):
                    return a * b
                if isinstance(e.op, ast.FloorDiv):
                    return cpoly.pdiv(a, b)
            raise core.AnalysisError("operator in shape construction: %s" % pf.src(e))
        if isinstance(e, ast.Call) and pf.call_name(e) in ("tuple", "list") and len(e.args) == 1:
            return list(self.ev(e.args[0]))
        if isinstance(e, ast.Call):
            r = self.call_helper(e)
            if r is not None:
                return r
        if isinstance(e, ast.Call) and pf.call_name(e) == "len" and len(e.args) == 1:
            return len(self.ev(e.args[0]))
        raise core.AnalysisError("expression in shape construction not modelled: %s" % pf.src(e))

    def run(self, stmts, stop_on_shapes=True, tolerant=False):
        for st in stmts:
            if self.returned is not None:
                return
            if isinstance(st, ast.Return):
                if tolerant:
                    return
                self.returned = self.ev(st.value) if st.value is not None else []
                return
            if isinstance(st, ast.Assign) and len(st.targets) == 1 and isinstance(st.targets[0], ast.Tuple):
                try:
                    vals = self.ev(st.value)
                except core.AnalysisError:
                    if any(pf.is_self_attr(t, "_inshape") or pf.is_self_attr(t, "_outshape") for t in st.targets[0].elts):
                        raise
                    vals = None
                if isinstance(vals, list) and len(vals) == len(st.targets[0].elts):
                    for t, v in zip(st.targets[0].elts, vals):
                        if pf.is_self_attr(t):
                            self.attrs[t.attr] = v
                        elif isinstance(t, ast.Name):
                            self.env[t.id] = v
            elif isinstance(st, ast.Assign) and len(st.targets) == 1:
                t = st.targets[0]
                if pf.is_self_attr(t) and t.attr in ("_inshape", "_outshape"):
                    self.attrs[t.attr] = self.ev(st.value)
                elif pf.is_self_attr(t):
                    try:
                        self.attrs[t.attr] = self.ev(st.value)
                    except core.AnalysisError:
                        self.attrs.pop(t.attr, None)
                elif isinstance(t, ast.Name):
                    try:
                        self.env[t.id] = self.ev(st.value)
                    except core.AnalysisError:
                        if t.id in ("rshape", "kshape"):
                            raise
                        self.env.pop(t.id, None)
            elif isinstance(st, ast.If):
                try:
                    c = self.ev(st.test)
                except core.AnalysisError:
                    if not tolerant:
                        raise
                    continue  # a test on run-time data (input validation): neither arm defines a shape or dtype
                if not isinstance(c, bool):
                    if tolerant:
                        continue
                    raise core.AnalysisError("shape construction branches on %s" % pf.src(st.test))
                self.run(st.body if c else st.orelse, stop_on_shapes, tolerant)
            elif isinstance(st, ast.Expr) and isinstance(st.value, ast.Call) and isinstance(st.value.func, ast.Attribute) \
                    and isinstance(st.value.func.value, ast.Name) and st.value.func.value.id in self.env \
                    and st.value.func.attr in ("insert", "append"):
                lst = self.env[st.value.func.value.id]
                args = [self.ev(a) for a in st.value.args]
                if st.value.func.attr == "insert":
                    lst.insert(args[0], args[1])
                else:
                    lst.append(args[0])
            if stop_on_shapes and "_inshape" in self.attrs and "_outshape" in self.attrs:
                return


def expected_shapes(r2c, batch_first, fwd):
    real = list(DIMS)
    recip = (DIMS[:-1] + [cpoly.pdiv(DIMS[-1], 2) + 1]) if r2c else list(real)
    for s in (real, recip):
        if batch_first:
            s.insert(0, NT)
        else:
            s.append(NT)
    return (real, recip) if fwd else (recip, real)


def _prod(xs):
    out = P.const(1)
    for x in xs:
        out = out * cpoly._p(x)
    return out


def python_side(mod):
    """-> {(r2c, bf, fwd): (inshape, outshape, out element type)} evaluated from fft_plan.py"""
    init = mod.func("FFTWrapper.__init__")
    call = mod.func("FFTWrapper.call")
    pnames = [a.arg for a in init.args.args[1:]]
    for need in ("dims", "ntransform", "fwd", "r2c", "batch_first"):
        if need not in pnames:
            raise core.AnalysisError("FFTWrapper.__init__ lost its parameter %s" % need)
    dt = [n for n in pf.walk_no_nested(call) if isinstance(n, ast.Call) and pf.call_name(n) in ("np.empty", "np.zeros")]
    out = {}
    for r2c, bf, fwd in itertools.product([True, False], repeat=3):
        sym = _Sym({"fwd": fwd, "r2c": r2c, "batch_first": bf, "inplace": False}, mod.cls("FFTWrapper"))
        sym.run(init.body)
        if "_inshape" not in sym.attrs or "_outshape" not in sym.attrs:
            raise core.AnalysisError("FFTWrapper.__init__ does not assign _inshape/_outshape")
        # element type of the output buffer allocated by call()
        s2 = _Sym({}, mod.cls("FFTWrapper"))
        s2.attrs = dict(sym.attrs)
        et = None
        s2.run(call.body, stop_on_shapes=False, tolerant=True)  # locals of call() that depend on the flags only (dtype selection)
        if len(dt) == 1:
            kw = [k.value for k in dt[0].keywords if k.arg == "dtype"]
            if kw:
                et = s2.ev(kw[0])
            else:
                et = "real"  # numpy default float64
        if et not in ("real", "complex"):
            raise core.AnalysisError("FFTWrapper.call: element type of the output buffer not recognised")
        out[(r2c, bf, fwd)] = (list(sym.attrs["_inshape"]), list(sym.attrs["_outshape"]), et)
    return out


def rule_shape_table(chk, tree, mod):
    py = python_side(mod)
    init = mod.func("FFTWrapper.__init__")
    for (r2c, bf, fwd), (ins, outs, _) in sorted(py.items(), reverse=True):
        want = expected_shapes(r2c, bf, fwd)
        inst = "FFTWrapper shapes for r2c=%s batch_first=%s fwd=%s" % (r2c, bf, fwd)
        if (ins, outs) == (want[0], want[1]):
            chk.ok("shape-table", inst)
        else:
            chk.violation("shape-table", FP, "FFTWrapper.__init__", "shapes r2c=%s batch_first=%s fwd=%s" % (r2c, bf, fwd),
                          init.lineno, "_inshape/_outshape = %s / %s, the decision table (real dims; last axis "
                          "dL//2+1 on the reciprocal side iff r2c; batch axis %s; in/out swapped iff not fwd) "
                          "gives %s / %s" % (ins, outs, "first" if bf else "last", want[0], want[1]), instance=inst)


# ----------------------------------------------------------------------------
# C plan: evaluated, not pattern-matched
# ----------------------------------------------------------------------------
def _elem(ctype):
    t = ctype.replace("const", "").replace(" ", "")
    if t in ("double*",):
        return "real"
    if t in ("_Complexdouble*", "doublecomplex*", "double_Complex*", "fftw_complex*"):
        return "complex"
    return None


def _sizeof(kind):
    # number of doubles per element: comparisons are made in units of doubles
    return 1 if kind == "real" else 2


def _bytes_in_doubles(poly):
    """allocation size polynomial with sizeof(double) -> 1 double, sizeof(double complex) -> 2 doubles"""
    out = poly
    for a in list(poly.atoms()):
        if isinstance(a, str) and a.replace(" ", "").startswith("sizeof("):
            inner = a.replace(" ", "")[len("sizeof("):-1]
            if inner == "double":
                out = out.subst(a, P.const(1))
            elif inner in ("doublecomplex", "double_Complex", "_Complexdouble", "fftw_complex"):
                out = out.subst(a, P.const(2))
            else:
                raise core.AnalysisError("allocation size uses sizeof(%s)" % inner)
    return out


def c_plan(tu, r2c, inplace, fwd, bf):
    ev = cpoly.CEval(tu, "allocate_fftnd_plan",
                     {"ndim": NDIM, "dims": cpoly.ArrayParam("d"), "fwd": int(fwd), "r2c": int(r2c), "ntransform": NT,
                      "inplace": int(inplace), "batch_first": int(bf)}).run()
    plan = ev.ret
    if not isinstance(plan, cpoly.Struct):
        raise core.AnalysisError("allocate_fftnd_plan does not return the plan object it allocates")
    for f in ("fft_in_size", "fft_out_size", "stride", "idist", "odist", "ntransform"):
        if not isinstance(plan.fields.get(f), P):
            raise core.AnalysisError("allocate_fftnd_plan leaves plan->%s without an integer value" % f)
    return plan


def c_copy(tu, fname, plan):
    # inline=True: a row count / offset delegated to a helper of the same translation unit is evaluated too
    ev = cpoly.CEval(tu, fname, {"plan": plan}, inline=True).run()
    if len(ev.copies) != 1:
        raise core.AnalysisError("%s: %d copy loop nests on the executed path; 1 expected" % (fname, len(ev.copies)))
    return ev.copies[0]


def c_alloc(tu, fname, plan):
    ev = cpoly.CEval(tu, fname, {"plan": plan}).run()
    sizes = [a[0] for nm, a in ev.calls if nm == "alloc_fft_array" and a and isinstance(a[0], P)]
    if len(sizes) != 1:
        raise core.AnalysisError("%s does not pass one size to alloc_fft_array" % fname)
    return _bytes_in_doubles(sizes[0])


def rule_layout(chk, tree, mod):
    """Every identity below is between polynomials the code itself computes (3 symbolic axes d0,d1,d2, `nt`
    transforms, C `/` opaque unless exact): nothing is compared as text."""
    tu = cfacts.TU(tree, CF)
    py = python_side(mod)
    lines = {f: tu.line_of(tu.func(f)) for f in ("allocate_fftnd_plan", "write_fft_input", "read_fft_output")}
    padded = {}

    def need(cond, rule_inst, fname, construct, msg):
        if cond:
            chk.ok("layout", rule_inst)
        else:
            chk.violation("layout", CFULL, fname, construct, lines.get(fname, 0), msg, instance=rule_inst)

    for r2c, inplace, fwd, bf in itertools.product([True, False], repeat=4):
        cfgs = "r2c=%d inplace=%d fwd=%d batch_first=%d" % (r2c, inplace, fwd, bf)
        ins, outs, py_out_et = py[(r2c, bf, fwd)]
        n_in, n_out = _prod(ins), _prod(outs)
        plan = c_plan(tu, r2c, inplace, fwd, bf)
        F = plan.fields
        nt_c = F["ntransform"]
        in_real = r2c and fwd
        out_real = r2c and not fwd
        # (1) sizes the plan computes vs the shapes the wrapper advertises
        for side, size, n_py, is_real in (("in", F["fft_in_size"], n_in, in_real), ("out", F["fft_out_size"], n_out, out_real)):
            inst = "plan fft_%s_size vs python %s-shape [%s]" % (side, side, cfgs)
            if inplace and is_real:
                other = F["fft_out_size"] if side == "in" else F["fft_in_size"]
                need(size == other * 2, inst, "allocate_fftnd_plan", "fft_%s_size (%s)" % (side, cfgs),
                     "in-place real side holds %r doubles per transform; the complex side holds %r elements: the real "
                     "side must be exactly twice that (padded rows)" % (size, other))
            else:
                need(nt_c * size == n_py, inst, "allocate_fftnd_plan", "fft_%s_size (%s)" % (side, cfgs),
                     "ntransform * fft_%s_size = %r but the python %sput shape %s has %r elements"
                     % (side, nt_c * size, side, ins if side == "in" else outs, n_py))
        # (2) stride / dist: the index map (t, k) -> t*dist + k*stride is onto [0, nt*size)
        for side, dist, size in (("idist", F["idist"], F["fft_in_size"]), ("odist", F["odist"], F["fft_out_size"])):
            inst = "plan %s/stride tile the buffer [%s]" % (side, cfgs)
            top = (nt_c - 1) * dist + (size - 1) * F["stride"] + 1
            need(top == nt_c * size, inst, "allocate_fftnd_plan", "%s, stride (%s)" % (side, cfgs),
                 "with %s = %r and stride = %r the last element of the last transform is at %r, but the buffer "
                 "holds ntransform * size = %r elements" % (side, dist, F["stride"], top - 1, nt_c * size))
        # (3) allocation sizes (in doubles)
        a_in = c_alloc(tu, "malloc_fft_plan_in_array", plan)
        a_out = a_in if inplace else c_alloc(tu, "malloc_fft_plan_out_array", plan)
        # (4) copies
        for fname, caller_n, buf, buf_real in (("write_fft_input", n_in, a_in, in_real),
                                               ("read_fft_output", n_out, a_out, out_real)):
            cp = c_copy(tu, fname, plan)
            caller_idx, buf_idx = (cp.src, cp.dst) if fname == "write_fft_input" else (cp.dst, cp.src)
            caller_t, buf_t = (cp.src_type, cp.dst_type) if fname == "write_fft_input" else (cp.dst_type, cp.src_type)
            ek, bk = _elem(caller_t), _elem(buf_t)
            if ek is None or bk is None:
                raise core.AnalysisError("%s: element types `%s` / `%s` not recognised" % (fname, caller_t, buf_t))
            inst = "%s element types [%s]" % (fname, cfgs)
            want_k = "real" if buf_real else "complex"
            ok_t = ek == bk == want_k and (fname != "read_fft_output" or py_out_et == ek)
            need(ok_t, inst, fname, "element types (%s)" % cfgs,
                 "copies %s elements from/to a %s buffer; the plan side is %s%s"
                 % (ek, bk, want_k, "" if fname != "read_fft_output" else " and FFTWrapper.call allocates a %s output" % py_out_et))
            ext = cp.extent(caller_idx)
            inst = "%s touches exactly the caller's array [%s]" % (fname, cfgs)
            need(ext is not None and ext == caller_n, inst, fname, "extent in the caller's array (%s)" % cfgs,
                 "the copy addresses elements [0, %r) of the caller's array, whose shape has %r elements"
                 % (ext, caller_n))
            inst = "%s stays inside the plan buffer [%s]" % (fname, cfgs)
            if len(cp.loops) == 1:
                bext = cp.extent(buf_idx)
                need(bext is not None and bext * _sizeof(bk) == buf, inst, fname, "extent in the plan buffer (%s)" % cfgs,
                     "the copy addresses %r %s elements of the plan buffer; the allocation holds %r doubles"
                     % (bext, bk, buf))
            elif len(cp.loops) == 2:
                (vo, rows), (vi, inner) = cp.loops
                Pd, Dd = cp.stride(buf_idx, vo), cp.stride(caller_idx, vo)
                lin = Pd is not None and Dd is not None and cp.stride(buf_idx, vi) == P.const(1) \
                    and cp.stride(caller_idx, vi) == P.const(1)
                need(lin and rows * Pd * _sizeof(bk) == buf, inst, fname, "padded rows (%s)" % cfgs,
                     "%r rows of stride %r %s elements = %r; the allocation holds %r doubles"
                     % (rows, Pd, bk, None if not lin else rows * Pd, buf))
                if lin:
                    padded[(fname, bf)] = (Pd, Dd, inner, plan, cfgs)
                    inst = "%s dense row = last axis x plan stride [%s]" % (fname, cfgs)
                    last = plan.arrays.get("dims", {}).get(NDIM - 1)
                    need(isinstance(last, P) and Dd == last * F["stride"] and inner == Dd, inst, fname,
                         "dense row length (%s)" % cfgs,
                         "rows of the caller's array are %r long (inner loop %r); the plan transforms the last axis "
                         "%r with element stride %r" % (Dd, inner, last, F["stride"]))
                    # padded / dense row ratio equals the plan's own in-place / out-of-place real size ratio
                    dense_plan = c_plan(tu, r2c, False, fwd, bf)
                    real_dense = dense_plan.fields["fft_in_size" if fwd else "fft_out_size"]
                    real_padded = F["fft_in_size" if fwd else "fft_out_size"]
                    inst = "%s padded row length follows the plan's padded real size [%s]" % (fname, cfgs)
                    need(Pd * real_dense == Dd * real_padded, inst, fname, "padded row length (%s)" % cfgs,
                         "padded/dense row = %r / %r but the plan's in-place/out-of-place real sizes are %r / %r"
                         % (Pd, Dd, real_padded, real_dense))
            else:
                raise core.AnalysisError("%s: copy nest of depth %d" % (fname, len(cp.loops)))
    # (5) the two padded copies agree with each other
    for bf in (True, False):
        w, r = padded.get(("write_fft_input", bf)), padded.get(("read_fft_output", bf))
        if w is None or r is None:
            raise core.AnalysisError("no padded in-place copy found for batch_first=%s in write_fft_input/read_fft_output" % bf)
        inst = "write_fft_input / read_fft_output use the same padded and dense row lengths [batch_first=%d]" % bf
        need(w[0] == r[0] and w[1] == r[1], inst, "read_fft_output", "padded rows, batch_first=%d" % bf,
             "write_fft_input lays rows out with padded/dense lengths %r / %r, read_fft_output reads them back with "
             "%r / %r" % (w[0], w[1], r[0], r[1]))


FFTW_PLANNERS = {"fftw_plan_many_dft": "c2c", "fftw_plan_many_dft_r2c": "r2c", "fftw_plan_many_dft_c2r": "c2r"}
IN_PTR, OUT_PTR = 1001, 2002  # stand-ins for the two buffers python hands to the initialiser


def rule_fftw_roles(chk, tree):
    """Role binding of the FFTW planning call: the C entry point that receives (plan, in, out) is evaluated (callees
    inlined) for all 16 flag configurations; the arguments that reach `fftw_plan_many_dft*` are bound to the
    parameter NAMES of the FFTW manual (stubs/fftw3.h) and must carry the value of that role:
    rank/n/howmany = the plan's rank, dims and ntransform; in/out = the buffers (out = in for in-place plans);
    (istride, idist) tile the input of fft_in_size elements and (ostride, odist) the output of fft_out_size elements;
    the planner matches the transform type and `sign` the direction."""
    tu = cfacts.TU(tree, CF)
    protos = {d["name"]: [pn for pn, _ in d.get("params", [])] for d in tu.decls
              if d.get("kind") == "FunctionProto" and d.get("name") in FFTW_PLANNERS}
    text_has = "fftw_plan_many_dft" in tu.text
    entries = []
    for name in sorted(tu.funcs):
        ps = tu.params(name)
        if len(ps) == 3 and "fft_plan" in ps[0].get("type", {}).get("qualType", "") \
                and all("*" in p_.get("type", {}).get("qualType", "") for p_ in ps[1:]):
            entries.append(name)
    if not protos or not text_has:
        chk.note("fftw-roles", CFULL, "no fftw_plan_many_dft* call in this configuration of cider_fft.c (MKL backend?); "
                 "role binding not checked")
        return
    need = ("rank", "n", "howmany", "in", "inembed", "istride", "idist", "out", "onembed", "ostride", "odist")
    for nm, pl in protos.items():
        if any(x not in pl for x in need):
            raise core.AnalysisError("stubs/fftw3.h: prototype of %s lacks the manual's parameter names" % nm)
    n_cfg = 0
    for r2c, inplace, fwd, bf in itertools.product([True, False], repeat=4):
        cfgs = "r2c=%d inplace=%d fwd=%d batch_first=%d" % (r2c, inplace, fwd, bf)
        found = None
        for ent in entries:
            plan = c_plan(tu, r2c, inplace, fwd, bf)
            pn = [p_.get("name") for p_ in tu.params(ent)]
            tolerant = False
            try:
                ev = cpoly.CEval(tu, ent, {pn[0]: plan, pn[1]: IN_PTR, pn[2]: OUT_PTR}, inline=True).run()
            except core.AnalysisError:
                # e.g. the arguments are computed by code that branches on the (symbolic) dimensions: evaluate
                # tolerantly -- whatever cannot be modelled becomes opaque -- so that the role identities
                # (which array / which buffer is handed over) can still be decided
                plan = c_plan(tu, r2c, inplace, fwd, bf)
                ev = cpoly.FieldEval(tu, ent, {pn[0]: plan, pn[1]: IN_PTR, pn[2]: OUT_PTR}, inline=True)
                try:
                    ev.run()
                except core.AnalysisError:
                    continue
                tolerant = True
            calls = [(nm, a) for nm, a in ev.calls if nm in FFTW_PLANNERS]
            if calls:
                found = (ent, plan, calls, tolerant)
                break
        if found is None:
            raise core.AnalysisError("no C entry point (plan, in, out) reaches an fftw_plan_many_dft* call [%s]" % cfgs)
        ent, plan, calls, tolerant = found
        F = plan.fields
        line = tu.line_of(tu.func(ent))

        def need_(cond, what, msg):
            inst = "FFTW planning call: %s [%s]" % (what, cfgs)
            if cond:
                chk.ok("fftw-roles", inst)
            else:
                chk.violation("fftw-roles", CFULL, ent, "%s (%s)" % (what, cfgs), line, msg, instance=inst)

        need_(len(calls) == 1, "one planner call", "%d planning calls are executed: %s" % (len(calls), [c[0] for c in calls]))
        nm, argv = calls[0]
        a = dict(zip(protos[nm], argv))
        want_kind = "r2c" if (r2c and fwd) else ("c2r" if r2c else "c2c")
        need_(FFTW_PLANNERS[nm] == want_kind, "planner matches the transform type",
              "%s is called for a plan that is %s" % (nm, want_kind))
        if nm == "fftw_plan_many_dft":
            sg = a.get("sign")
            need_(isinstance(sg, P) and sg.is_const() and (sg.const_value() < 0) == bool(fwd), "sign matches the direction",
                  "sign = %r for fwd=%d (FFTW_FORWARD is -1)" % (sg, fwd))
        dims = a.get("n")
        ok_n = isinstance(dims, tuple) and dims[0] == "arrayfield" and \
            [dims[1].arrays[dims[2]].get(k) for k in range(NDIM)] == list(DIMS)
        need_(a.get("rank") == P.const(NDIM) and ok_n and a.get("howmany") == F["ntransform"], "rank / n / howmany",
              "rank=%r n=%r howmany=%r; the plan has rank %d, dims (d0, d1, d2) and ntransform %r -- sizes, strides and "
              "the padded copies are computed from the plan's full dims, so FFTW must be given exactly that array%s"
              % (a.get("rank"), dims, a.get("howmany"), NDIM, F["ntransform"],
                 " (here a locally built / filtered copy is passed)" if not ok_n else ""))
        if tolerant and not (isinstance(a.get("istride"), P) and isinstance(a.get("idist"), P)
                             and isinstance(a.get("ostride"), P) and isinstance(a.get("odist"), P)):
            if a.get("rank") == P.const(NDIM) and ok_n:
                raise core.AnalysisError("%s: stride / dist arguments of %s are computed by code the evaluator cannot "
                                         "model [%s]" % (ent, nm, cfgs))
            continue
        want_out = IN_PTR if inplace else OUT_PTR
        need_(a.get("in") == P.const(IN_PTR) and a.get("out") == P.const(want_out), "in / out buffers",
              "in=%r out=%r; expected the input buffer and %s" % (a.get("in"), a.get("out"),
                                                                 "the same buffer (in-place)" if inplace else "the output buffer"))
        need_(a.get("inembed") == P.const(0) and a.get("onembed") == P.const(0), "inembed / onembed are NULL",
              "inembed=%r onembed=%r: a non-NULL embedding changes the meaning of stride/dist (not modelled)"
              % (a.get("inembed"), a.get("onembed")))
        for side, st, di, size in (("input", a.get("istride"), a.get("idist"), F["fft_in_size"]),
                                   ("output", a.get("ostride"), a.get("odist"), F["fft_out_size"])):
            okk = isinstance(st, P) and isinstance(di, P)
            top = ((F["ntransform"] - 1) * di + (size - 1) * st + 1) if okk else None
            need_(okk and top == F["ntransform"] * size, "%s stride / dist tile the %s array" % (side[0] + "stride", side),
                  "%s: stride=%r dist=%r put the last element at %r, the %s array of the plan holds ntransform * %r "
                  "elements" % (nm, st, di, None if top is None else top - 1, side, size))
        n_cfg += 1
    chk.count("flag configurations whose FFTW planning call was evaluated", n_cfg)
    chk.floor("fftw-roles", 56, "half of 16 configurations x 7 role facts")


def rule_buffer_layout(chk, eng):
    """every array parameter of the wrapper that is handed to libfft as a raw pointer is made contiguous and of a
    definite element type (or rejected) on every path to the call"""
    from sa import guards
    res = guards.buffer_layout(chk.tree, [s for s in eng.sites if s.rel == FP])
    for r in res:
        s = r["site"]
        inst = "%s:%s %s argument %d `%s`" % (s.rel, s.func, "|".join(s.callees), r["arg"] + 1, r["subject"])
        if not r["missing"]:
            chk.ok("buffer-layout", inst)
        else:
            chk.violation(
                "buffer-layout", s.rel, s.func, "%s(... %s.ctypes.data ...)" % ("|".join(s.callees), r["subject"]), s.line,
                "parameter `%s` of %s reaches %s as a raw data pointer; C reads it as a dense C-ordered buffer of a fixed "
                "element type, but no path-covering %s exists (np.ascontiguousarray / np.require / .copy() / dtype= "
                "conversion, or an assert / raise on .flags.c_contiguous and .dtype): a Fortran-ordered or strided "
                "array, or one of another dtype, is read as the wrong elements (and past its end for a narrower dtype)"
                % (r["subject"], s.func, "|".join(s.callees),
                   " and ".join({"contig": "contiguity normalisation/guard", "dtype": "element-type normalisation/guard"}[m]
                                for m in sorted(r["missing"]))), instance=inst)
    chk.floor("buffer-layout", 1, "FFTWrapper.call input (and the dims array of the constructor)")
    if not res:
        raise core.AnalysisError("buffer-layout: no wrapper parameter is passed to libfft as an array pointer")


# ----------------------------------------------------------------------------
def _analyse_own(chk):
    tree = chk.tree
    chk.rule("shape-guard", "the input-shape test dominates every libfft call of FFTWrapper.call; output uses _outshape")
    chk.rule("ffi", "libfft call sites conform to cider_fft.c prototypes; restype for pointer returns")
    chk.rule("shape-table", "shape construction equals the decision table (r2c halves the last axis, batch axis, fwd/bwd swap)")
    mod = pf.Module(tree, FP)
    box = {}

    def _ffi(c):
        eng = ffi.Engine(tree, [FP], cside=ffi.CSide(tree, [CF]))
        box["eng"] = eng
        cnt = ffi.report(c, eng, "ffi", eng.sites)
        for k, v in cnt.items():
            c.count("ffi " + k, v)
        if cnt["unresolved"] or cnt["unknown_args"]:
            raise core.AnalysisError("libfft call sites with unresolved callee/arguments: %s" % cnt)
        # restype coverage: every pointer-returning function that fft_plan.py calls and uses
        used = {}
        for s in eng.sites:
            for name in s.callees:
                used.setdefault(name, []).append(s)
        n_ptr = 0
        for name, ss in sorted(used.items()):
            p = eng.c.lookup(name, "libfft_wrapper")
            if p is not None and eng.c.kind(p.ret) == "ptr" and any(s.result_used for s in ss):
                n_ptr += 1
        c.count("pointer-returning libfft functions whose result is used", n_ptr)
        if n_ptr < 2:
            raise core.AnalysisError("expected >= 2 pointer-returning libfft functions in use (allocate/malloc), found %d"
                                     % n_ptr)

    chk.guard(_ffi)
    if "eng" in box:
        chk.guard(rule_shape_guard, box["eng"], mod)
        chk.rule("buffer-layout", "array parameters handed to libfft are contiguity- and dtype-normalised on every path")
        chk.guard(rule_buffer_layout, box["eng"])
    chk.guard(rule_shape_table, tree, mod)
    chk.rule("layout", "C plan evaluated symbolically: sizes vs python shapes, stride/dist tiling, copies stay inside caller array and plan buffer, padded rows agree")
    chk.guard(rule_layout, tree, mod)
    chk.rule("fftw-roles", "arguments of the fftw_plan_many_dft* call carry the value of the role named in the FFTW manual")
    chk.guard(rule_fftw_roles, tree)
    chk.floor("layout", 85, "16 flag configurations x (2 sizes + 2 tilings + 2x3 copy facts) + padded-row facts")
    chk.floor("ffi", 5, "10 libfft call sites in fft_plan.py")
    chk.floor("shape-guard", 3, "3 native calls + output allocation + parameter not re-bound")
    chk.floor("shape-table", 8, "8 flag combinations")
    chk.assumptions += ["x86-64 System V calling convention", "dims has at least one axis; symbolic 3-axis dims stand "
                        "for any rank (the construction never indexes an axis other than the last)"]
    chk.not_decided += ["that the transform computed is the DFT",
                        "padded in-place real layout arithmetic beyond write/read agreement and the row length",
                        "input dtype / contiguity (call() does not test them)", "MPI plan (mpi_fft_plan.py)"]


def analyse(chk):
    _analyse_own(chk)
    chk.guard(lambda c_: core.include_findings(c_, 'C10', files=['ciderpress/lib/fft_wrapper/cider_fft.c'], rules=None,
                                               why='a data race in the plan execution / copy loops corrupts the transform'))


def _move_guard_after_write(text):
    g = ('        if x.shape != self._inshape:\n'
         '            raise ValueError(f"Expected input of shape {self._inshape}, got {x.shape}")\n')
    w = "        libfft.write_fft_input(self._ptr, x.ctypes.data_as(ctypes.c_void_p))\n"
    if g not in text or w not in text:
        return None
    return text.replace(g, "", 1).replace(w, w + g, 1)


def _rows_helper_wrong_dims(text):
    head = "void write_fft_input(fft_plan_t *plan, void *input) {"
    if text.count(head) != 1:
        return None
    i = text.index(head)
    j = text.find("const size_t blksize = size / last_dim1;", i)
    if j < 0:
        return None
    helper = ("static size_t padded_rows_(fft_plan_t *plan) {\n    size_t n = plan->batch_first ? plan->ntransform : 1;\n"
              "    for (int i = 1; i < plan->ndim; i++) {\n        n *= plan->dims[i];\n    }\n    return n;\n}\n\n")
    return (text[:i] + helper + text[i:j] + "const size_t blksize = padded_rows_(plan);"
            + text[j + len("const size_t blksize = size / last_dim1;"):])


def mutants(tree):
    return [
        Mutant("remove the shape test", FP,
               '        if x.shape != self._inshape:\n            raise ValueError(f"Expected input of shape {self._inshape}, got {x.shape}")\n',
               "", expect="shape-guard"),
        Mutant("shape test compares with the output shape", FP, "if x.shape != self._inshape:", "if x.shape != self._outshape:",
               expect="shape-guard"),
        Mutant("shape test moved after write_fft_input", FP, fn=_move_guard_after_write, expect="shape-guard"),
        Mutant("output allocated with the input shape", FP, "out = np.empty(self._outshape, dtype=dtype)",
               "out = np.empty(self._inshape, dtype=dtype)", expect="shape-guard"),
        Mutant("reorder allocate_fftnd_plan arguments (dims pointer <-> ndim)", FP,
               "                ctypes.c_int(len(dims)),\n                dims.ctypes.data_as(ctypes.c_void_p),",
               "                dims.ctypes.data_as(ctypes.c_void_p),\n                ctypes.c_int(len(dims)),", expect="ffi"),
        Mutant("drop an allocate_fftnd_plan argument", FP, "                ctypes.c_int(1 if batch_first else 0),\n", "",
               expect="ffi"),
        Mutant("delete restype of allocate_fftnd_plan", FP, "libfft.allocate_fftnd_plan.restype = ctypes.c_void_p\n", "",
               expect="ffi"),
        Mutant("restype of malloc_fft_plan_out_array becomes c_int", FP,
               "libfft.malloc_fft_plan_out_array.restype = ctypes.c_void_p", "libfft.malloc_fft_plan_out_array.restype = ctypes.c_int",
               expect="ffi"),
        Mutant("r2c halves the first axis", FP, "kshape = [d for d in dims[:-1]] + [dims[-1] // 2 + 1]",
               "kshape = [dims[0] // 2 + 1] + [d for d in dims[1:]]", expect="shape-table"),
        Mutant("r2c size without the +1", FP, "[dims[-1] // 2 + 1]", "[dims[-1] // 2]", expect="shape-table"),
        Mutant("batch axis appended although batch_first", FP, "            rshape.insert(0, self._ntransform)\n",
               "            rshape.append(self._ntransform)\n", expect="shape-table"),
        Mutant("backward plan does not swap in/out", FP,
               "            self._inshape = tuple(kshape)\n            self._outshape = tuple(rshape)",
               "            self._inshape = tuple(rshape)\n            self._outshape = tuple(kshape)", expect="shape-table"),
        Mutant("C: forward r2c plan swaps its sizes", CFULL,
               "            plan->fft_in_size = real_dist;\n            plan->fft_out_size = recip_dist;",
               "            plan->fft_in_size = recip_dist;\n            plan->fft_out_size = real_dist;", expect="layout"),
        Mutant("C: reciprocal size halves nothing", CFULL, "recip_dist = dims[ndim - 1] / 2 + 1;", "recip_dist = dims[ndim - 1];",
               expect="layout"),
        Mutant("output dtype real for every r2c plan", FP, "np.float64 if (self._r2c and not self._fwd) else",
               "np.float64 if self._r2c else", expect="layout"),
        Mutant("input reshaped before the shape test", FP, "    def call(self, x):\n",
               "    def call(self, x):\n        x = x.reshape(self._inshape)\n", expect="shape-guard"),
        Mutant("C: read_fft_output uses another padded row length", CFULL,
               "            const size_t last_dim1 = 2 * (dm1 / 2 + 1) * nt;", "            const size_t last_dim1 = (dm1 + 2) * nt;",
               count=2, expect="layout"),
        Mutant("C: both copies use dm1 + 2", CFULL, "const size_t last_dim1 = 2 * (dm1 / 2 + 1) * nt;",
               "const size_t last_dim1 = (dm1 + 2) * nt;", count=1, expect="layout"),
        Mutant("C: odist follows idist for in-place plans", CFULL, "        odist = plan->fft_out_size;",
               "        odist = inplace ? idist : plan->fft_out_size;", expect="layout"),
        Mutant("C: batch-last stride is 1", CFULL, "        stride = ntransform;", "        stride = 1;", expect="layout"),
        Mutant("C: malloc_fft_plan_in_array allocates doubles for every plan", CFULL,
               "    if (plan->r2c && plan->fwd) {\n        objsize = sizeof(double);\n    } else {\n        objsize = sizeof(double complex);\n    }\n    objsize *= plan->ntransform;\n    objsize *= plan->fft_in_size;",
               "    objsize = sizeof(double);\n    objsize *= plan->ntransform;\n    objsize *= plan->fft_in_size;", expect="layout"),
        Mutant("C: write_fft_input copies one row too many", CFULL, "            const size_t blksize = size / last_dim1;",
               "            const size_t blksize = size / last_dim1 + 1;", count=1, expect="layout"),
        Mutant("C: out-of-place real size forgets the first axis", CFULL,
               "            real_dist = 1;\n            for (int i = 0; i < ndim; i++) {", "            real_dist = 1;\n            for (int i = 1; i < ndim; i++) {",
               expect="layout"),
        Mutant("C: c2r planner gets idist as output distance", CFULL,
               "                (double *)plan->out, NULL, plan->stride, (int)plan->odist,",
               "                (double *)plan->out, NULL, plan->stride, (int)plan->idist,", expect="fftw-roles"),
        Mutant("C: r2c planner gets in/out buffers swapped", CFULL,
               "plan->ndim, plan->dims, plan->ntransform, (double *)plan->in,\n                NULL, plan->stride, (int)plan->idist, (fftw_complex *)plan->out,",
               "plan->ndim, plan->dims, plan->ntransform, (double *)plan->out,\n                NULL, plan->stride, (int)plan->idist, (fftw_complex *)plan->in,",
               expect="fftw-roles"),
        Mutant("C: c2c planner always forward", CFULL, "plan->fwd ? FFTW_FORWARD : FFTW_BACKWARD", "FFTW_FORWARD",
               expect="fftw-roles"),
        Mutant("C: in-place plan keeps a separate output buffer", CFULL,
               "        plan->in = in_array;\n        plan->out = in_array;", "        plan->in = in_array;\n        plan->out = out_array;",
               expect="fftw-roles"),
        Mutant("buffer: input handed to C without layout normalisation (complex branch)", FP,
               "            x = np.ascontiguousarray(x, dtype=np.complex128)\n", "            pass\n", expect="buffer-layout"),
        Mutant("buffer: real branch converts the dtype but keeps the caller's memory order", FP,
               "            x = np.ascontiguousarray(x, dtype=np.float64)\n", "            x = np.asarray(x, dtype=np.float64)\n",
               expect="buffer-layout"),
        Mutant("buffer: complex branch uses order='K' (keeps the caller's layout: no C-contiguity guarantee)", FP,
               "            x = np.ascontiguousarray(x, dtype=np.complex128)\n",
               "            x = np.array(x, dtype=np.complex128, order=\"K\", copy=False)\n", expect="buffer-layout"),
        Mutant("C: padded-row count of write_fft_input delegated to a helper that multiplies dims[1..ndim-1]", CFULL,
               fn=_rows_helper_wrong_dims, expect="layout"),
        Mutant("C: FFTW is planned on a filtered copy of the dims", CFULL,
               "    if (plan->r2c) {\n        if (plan->fwd) {\n            plan->plan = fftw_plan_many_dft_r2c(\n                plan->ndim, plan->dims,",
               "    int rank = 0;\n    int n[plan->ndim];\n    for (int i = 0; i < plan->ndim; i++) {\n        if (plan->dims[i] != 1) {\n"
               "            n[rank++] = plan->dims[i];\n        }\n    }\n"
               "    if (plan->r2c) {\n        if (plan->fwd) {\n            plan->plan = fftw_plan_many_dft_r2c(\n                rank, n,",
               expect="fftw-roles"),
        Mutant("restype table loop loses a pointer-returning function", FP,
               "libfft.malloc_fft_plan_in_array.restype = ctypes.c_void_p\n", "", expect="ffi"),
        Mutant("C: prototype of write_fft_input gains a size argument", CFULL,
               "void write_fft_input(fft_plan_t *plan, void *input) {", "void write_fft_input(fft_plan_t *plan, size_t n, void *input) {",
               expect="ffi"),
    ]


if __name__ == "__main__":
    sys.exit(core.main(PROP, analyse, mutants, __doc__))
