from sdmx_ref import *
from ciderpress.dft.settings import *
from ciderpress.pyscf import sdmx as sdmx_fast, sdmx_slow
import sys
np.random.seed(1)
basis = sys.argv[1]
mol = gto.M(atom="Li 0 0 0; F 0 0 1.6; H 1.0 0.5 0", basis=basis, spin=0, charge=1, verbose=0)
ks = dft.RKS(mol); ks.xc='PBE'; ks.grids.level=1; ks.kernel()
dm = ks.make_rdm1()
coords = np.random.normal(size=(10,3))*0.8 + np.array([0,0,1.85])
coords = np.vstack([coords, mol.atom_coords()])
t, R, rho0, rho1 = sdmx_reference(mol, dm, coords)
refs = {j: H_feats(t, R, rho0, rho1, j) for j in [0,1,2]}
pows=[0,1,2]
s = SDMXFullSettings({1.0: (pows, [3,3,3,3])})
ref = np.array([refs[j]['0'] for j in pows]+[refs[j]['0d'] for j in pows]+[refs[j]['1'] for j in pows]+[refs[j]['1d_alt'] for j in pows])
for modname, mod in [('fast', sdmx_fast), ('slow', sdmx_slow)]:
    gen = mod.EXXSphGenerator.from_settings_and_mol(s, 1, mol, lambd=1.7)
    f = gen.get_features(dm, mol, coords)
    print(modname, 'nan:', np.isnan(f).sum(), ' '.join('%.0e' % x for x in np.abs(f-ref)[:, :10].max(axis=-1)/np.abs(ref).max(axis=-1)))
    print(modname, 'at nuclei', ' '.join('%.0e' % x for x in np.abs(f-ref)[:, 10:].max(axis=-1)/np.abs(ref).max(axis=-1)))
