import sys, os
sys.path.insert(0, os.path.dirname(__file__))
import cider_env; cider_env.install()
import numpy as np
from pyscf import gto, dft
from pyscf.dft import gen_grid, radi
from ciderpress.pyscf.gen_cider_grid import CiderGrids, LMAX_DICT

def sortrows(c, w):
    a = np.hstack([c, w[:, None]])
    idx = np.lexsort(a.T[::-1])
    return a[idx]

def check(mol, lmax=10, sort_grids=True, **kw):
    g = CiderGrids(mol, lmax=lmax)
    g0 = dft.Grids(mol)
    for k, v in kw.items():
        setattr(g, k, v); setattr(g0, k, v)
    g.build(sort_grids=sort_grids); g0.build(sort_grids=sort_grids)
    ok = True
    if g.weights.shape != g0.weights.shape:
        print("  size differ", g.weights.shape, g0.weights.shape); return False
    a = sortrows(g.coords, g.weights); b = sortrows(g0.coords, g0.weights)
    if not np.allclose(a, b, atol=1e-12, rtol=1e-12):
        print("  set differ", np.abs(a-b).max()); ok = False
    ind = g.grids_indexer
    n = ind.idx_map.size
    if n + ind.padding != g.weights.size:
        print("  padding mismatch"); ok = False
    if len(set(ind.idx_map.tolist())) != n: print("  not injective"); ok=False
    if not np.all(g.weights[n:] == 0): print("  pad weight"); ok = False
    if not np.array_equal(ind.all_weights[ind.idx_map], g.weights[:n]): print(" weights map"); ok=False
    # reconstruct atom-ordered coords
    allc = []
    for ia in range(mol.natm):
        for r in range(ind.ra_loc[ia], ind.ra_loc[ia+1]):
            nw = ind.rad_loc[r+1]-ind.rad_loc[r]
            d = ind.dirs[ind.ylm_loc[r]: ind.ylm_loc[r]+nw]
            assert ind.ar_loc[r] == ia
            allc.append(mol.atom_coord(ia) + ind.rad_arr[r]*d)
    allc = np.vstack(allc)
    if allc.shape[0] != ind.all_weights.size: print("  allc size"); ok=False
    err = np.abs(allc[ind.idx_map] - g.coords[:n]).max()
    if err > 1e-10: print("  coords map err", err); ok=False
    # iatom
    for ia in range(mol.natm):
        sel = ind.iatom_list == ia
        lo, hi = ind.ga_loc[ia], ind.ga_loc[ia+1]
        if not np.all((ind.idx_map[sel] >= lo) & (ind.idx_map[sel] < hi)): print("  iatom"); ok=False
    # ylm orthonormality per radial shell
    for r in range(ind.nrad):
        nw = ind.rad_loc[r+1]-ind.rad_loc[r]
        y = ind.ylm[ind.ylm_loc[r]: ind.ylm_loc[r]+nw]
        grid = gen_grid.MakeAngularGrid(nw)
        w = grid[:,3]*4*np.pi
        ovlp = np.einsum('g,gi,gj->ij', w, y, y)
        lsh = min(LMAX_DICT[nw], lmax)
        nl = (lsh+1)**2
        ref = np.zeros_like(ovlp); ref[:nl,:nl] = np.eye(nl)
        if np.abs(ovlp-ref).max() > 1e-9:
            print("  ylm orth", r, nw, lsh, np.abs(ovlp-ref).max()); ok=False; break
    return ok, g

if __name__ == "__main__":
    mols = {
      "h2o": "O 0 0 0; H 0 0.76 0.59; H 0 -0.76 0.59",
      "lih": "Li 0 0 0; H 0 0 1.6",
      "ar": "Ar 0 0 0",
      "hf3": "H 0 0 0; F 0 0 0.92; H 2 0 0; F 2 0 0.92",
    }
    for name, atom in mols.items():
        mol = gto.M(atom=atom, basis="sto-3g", verbose=0, spin=None)
        for kw in [dict(), dict(level=0), dict(level=1, prune=None), dict(atom_grid=(20,50)),
                   dict(level=2, prune=gen_grid.sg1_prune), dict(level=1, prune=gen_grid.treutler_prune),
                   dict(level=1, alignment=0), dict(level=1, alignment=7), dict(level=1, radi_method=radi.treutler), dict(atom_grid={'H':(15,26)}, level=1)]:
            for lmax in [10, 3, 1]:
                for sg in [True, False]:
                    r = check(mol, lmax=lmax, sort_grids=sg, **kw)
                    ok = r[0] if isinstance(r, tuple) else r
                    if not ok: print("FAIL", name, kw, lmax, sg)
    print("done")
