#ifndef _CIDER_FFT_CONFIG_H
#define _CIDER_FFT_CONFIG_H
#define FFT_MKL_BACKEND 1
#define FFT_FFTW_BACKEND 2
#define HAVE_MPI 0
#define FFT_BACKEND 2
#endif
