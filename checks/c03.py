#!/usr/bin/env python3
"""C03 -- declared uniform-scaling powers hold.  Static rules (DESIGN.md §C03), all decided by the
E-deg units-of-measure interpreter (sa/deg.py) with base symbol lam (rho:3, sigma:8, tau:5, grad:4):

 exp-deg     get_cider_exponent{,_gga}: every additive term of the exponent has degree 2; the returned
             derivatives have degrees 2-3, 2-8, 2-5 (nspin = 1 and 2)
 sl-deg      get_s2/get_alpha degree 0, ds2/dalpha/dtauw derivative degrees; rows written by
             _BaseSemilocalPlan.get_feat have the degrees SemilocalSettings.get_feat_usps() declares
 norm-usp    each FeatNormalizer subclass: deg(fill_fwd) - deg(x) and deg(get_ueg) equal get_usp() as a
             linear form in the instance attributes; _get_rho_and_inh gives (3, 0) for the four slmodes
 reasonable  per settings class / configuration: usp declared by get_feat_usps() + get_usp() of the
             normaliser built by get_reasonable_normalizer() == 0
 ueg-deg     ueg_vector(rho) entries scale as rho**(usp/3) for every spec branch (VI/VJ/VIJ/VK, FracLapl
             symbolic in s, SDMX*, semilocal)
 nldf-deg    NLDFAuxiliaryPlan: get_function_to_convolve scales as 3 + RHO_MULT_USPS; eval_rho_full rows (l=0 and
             l=1 dot products, convolutions typed by SPEC_USPS) have the powers get_feat_usps declares
 fl-deg      FracLaplPlan.get_feat (symbolic s, distinct counts) rows vs FracLaplSettings.get_feat_usps
 tol-deg     each module-level tolerance constant (ALPHA_TOL, ...) is compared / clamped only against quantities of
             one lambda-degree, over all sites met while interpreting the feature functions
 sdmx-deg    SADMPlan/SDMXPlan/SDMXFullPlan/SDMXIntPlan: abstract run of the constructor (alpha ~ lambda^2) and of
             get_features (projections lambda^3, lambda^4): each feature row has the power its settings declare
 base-deg    exchange baselines (_lda_x/_pbe_x/_chachiyo_x/_vi_x_damp helpers): e has degree 4, de/drho 1
Not decided: scaling of the nonlocal integrals computed in C, E_x[n_lambda] = lambda E_x[n] end to end.
"""
import os
import sys

sys.path.insert(0, os.path.dirname(os.path.dirname(os.path.abspath(__file__))))
from sa import core, deg  # noqa: E402
from sa.deg import ANY, D0, Alt, Deg, K, Lin, Obj, Q, Tup, Unk, fmt, lst, num, sym  # noqa: E402
from sa.selftest import Mutant  # noqa: E402

PROP = "C03"
ST = "ciderpress/dft/settings.py"
FN = "ciderpress/dft/feat_normalizer.py"
PL = "ciderpress/dft/plans.py"
BL = "ciderpress/dft/baselines.py"
UNKNOWN_CEILING = 20


def lam(k):
    return Q(Deg.of(lam=k))


def lam_of(v):
    """lam-degree (Lin) of a plain quantity; None if not determined (ANY / Unk / rows)"""
    if isinstance(v, Q) and not v.is_rows and v.deg is not ANY:
        return v.deg.get("lam")
    return None


def only_lam(v):
    return isinstance(v, Q) and not v.is_rows and v.deg is not ANY and set(v.deg.d) <= {"lam"}


class Ctx:
    def __init__(self, chk):
        self.chk = chk
        self.s = deg.Session(chk.tree, [ST, FN, PL, BL], attr_default="symbol")
        self.seen = 0
        self.nc = 0
        self.tol_sites = {}        # (module rel, constant name) -> {(lam-degree text): [(func, text, line)]}
        self._watch_tolerances()

    def _watch_tolerances(self):
        """record, for every module-level named tolerance (a tiny numeric literal bound at module level), the
        lambda-degree of each quantity it is compared with or clamps (x < TOL, TOL > x, np.maximum(TOL, x))"""
        import ast
        eng = self.s.eng

        def tol_name(node):
            if not isinstance(node, ast.Name):
                return None
            mod = eng.fr.mod
            if mod is None or node.id not in mod.assigns:
                return None
            v = mod.assigns[node.id]
            try:
                val = deg.pf.literal(v)
            except Exception:
                return None
            if isinstance(val, (int, float)) and not isinstance(val, bool) and 0 < abs(val) <= 1e-4:
                return (mod.rel, node.id)
            return None

        def record(key, other, node):
            if isinstance(other, Q) and not other.is_rows and other.deg is not ANY and set(other.deg.d) <= {"lam"}:
                d = str(other.deg.get("lam"))
                self.tol_sites.setdefault(key, {}).setdefault(d, []).append(
                    (eng.fr.name, deg.pf.src(node)[:70], getattr(node, "lineno", 0)))

        def on_compare(node, vals):
            ops = [node.left] + list(node.comparators)
            if len(ops) != 2:
                return
            for i in (0, 1):
                k = tol_name(ops[i])
                if k is not None:
                    record(k, vals[1 - i], node)

        def on_call(node, name, args, kwargs):
            if (name or "").split(".")[-1] in ("maximum", "minimum", "fmax", "fmin", "clip") and len(node.args) >= 2:
                for i, a in enumerate(node.args):
                    k = tol_name(a)
                    if k is not None:
                        for j, v in enumerate(args):
                            if j != i and j < len(node.args) and tol_name(node.args[j]) is None:
                                record(k, v, node)
        eng.compare_observers.append(on_compare)
        eng.call_observers.append(on_call)

    def flush(self, rule, res, where):
        """report the engine's findings for one run"""
        chk = self.chk
        for m in res.mismatches:
            chk.violation(rule, m.rel, m.func, m.stmt, m.line,
                          "degree mismatch (%s) while analysing %s: %s vs %s in `%s`" % (
                              m.kind, where, m.left, m.right, m.text))
        for u in res.unknowns:
            self.nc += 1
            chk.count("not-comparable sites")
            if len(chk.notes) < 40:
                chk.note(rule, "%s:%s" % (u[0], u[1]), "not comparable: %s (%s)" % (u[2], u[3]))

    def expect(self, rule, res, where, got, want, what, rel, func, construct, line=0):
        """got: value; want: Lin lam-degree"""
        chk = self.chk
        inst = "%s :: %s" % (where, what)
        if any(True for _ in res.mismatches):
            # the run itself is ill-typed; already reported by flush, do not double count silently
            pass
        g = lam_of(got)
        if g is None or not only_lam(got):
            if isinstance(got, Q) and not got.is_rows and got.deg is ANY and want == Lin():
                chk.ok(rule, inst + " = polymorphic zero", nontrivial=False)
                return
            if res.mismatches:
                return
            self.nc += 1
            chk.count("not-comparable sites")
            chk.note(rule, where, "%s not comparable: value is %s" % (what, fmt(got)))
            return
        if g == want:
            chk.ok(rule, inst + " = lam^(%s)" % g)
        else:
            chk.violation(rule, rel, func, construct, line,
                          "%s of %s scales as lambda^(%s) but lambda^(%s) is declared/required" % (
                              what, where, g, want), instance=inst)


def L(v):
    return v if isinstance(v, Lin) else Lin.const(v)


# ----------------------------------------------------------------------------
def rule_exponent(chk, cx):
    s = cx.s
    for fname, args, want in (
        ("get_cider_exponent", [lam(3), lam(8), lam(5)], (2, -1, -6, -3)),
        ("get_cider_exponent_gga", [lam(3), lam(8)], (2, -1, -6)),
    ):
        fdef = s.prog.module(ST).func(fname)
        for ns in (1, 2):
            kw = dict(a0=sym("a0"), grad_mul=sym("grad_mul"), nspin=num(ns))
            if fname == "get_cider_exponent":
                kw["tau_mul"] = sym("tau_mul")
            res = s.call(ST, fname, args, kw)
            where = "%s(nspin=%d)" % (fname, ns)
            cx.flush("exp-deg", res, where)
            vals = deg.items_of(res.value)
            if vals is None or len(vals) != len(want):
                if not res.mismatches:
                    raise core.AnalysisError("%s: return value is not a %d-tuple (%s)" % (fname, len(want), fmt(res.value)))
                continue
            names = ("exponent", "d/drho", "d/dsigma", "d/dtau")
            for nm, v, w in zip(names, vals, want):
                cx.expect("exp-deg", res, where, v, L(w), nm, ST, fname, "return %s of %s" % (nm, fname), fdef.lineno)
    chk.floor("exp-deg", 7, "4+4+3+3 returned components")


def rule_semilocal(chk, cx):
    s = cx.s
    table = (
        ("get_s2", [lam(3), lam(8)], (0,)),
        ("get_alpha", [lam(3), lam(8), lam(5)], (0,)),
        ("ds2", [lam(3), lam(8)], (-3, -8)),
        ("dalpha", [lam(3), lam(8), lam(5)], (-3, -8, -5)),
        ("dtauw", [lam(3), lam(8)], (2, -3)),
        ("get_uniform_tau", [lam(3)], (5,)),
        ("get_single_orbital_tau", [lam(3), lam(4)], (5,)),
    )
    for fname, args, want in table:
        fdef = s.prog.module(ST).func(fname)
        res = s.call(ST, fname, args)
        cx.flush("sl-deg", res, fname)
        vals = deg.items_of(res.value) if len(want) > 1 else [res.value]
        if vals is None or len(vals) != len(want):
            if not res.mismatches:
                raise core.AnalysisError("%s: unexpected return shape %s" % (fname, fmt(res.value)))
            continue
        for i, (v, w) in enumerate(zip(vals, want)):
            cx.expect("sl-deg", res, fname, v, L(w), "return[%d]" % i, ST, fname, "return[%d] of %s" % (i, fname),
                      fdef.lineno)
    # plan rows vs declared usps
    modes = mode_list(cx)
    for mode in modes:
        st = s.new(ST, "SemilocalSettings", K(mode))
        usps = s.call(st, "get_feat_usps")
        cx.flush("sl-deg", usps, "SemilocalSettings(%s).get_feat_usps" % mode)
        decl = declared_list(usps.value, "SemilocalSettings(%s).get_feat_usps" % mode)
        plan = s.new(PL, "SemilocalPlan2", st, sym("nspin"))
        if not isinstance(plan, Obj):
            raise core.AnalysisError("SemilocalPlan2: constructor could not be interpreted")
        res = s.call(plan, "get_feat", [lam(3), lam(8), lam(5)])
        where = "_BaseSemilocalPlan.get_feat(mode=%s)" % mode
        cx.flush("sl-deg", res, where)
        feat = res.value
        if not (isinstance(feat, Q) and feat.is_rows):
            if not res.mismatches:
                raise core.AnalysisError("%s: result is not a row-typed array (%s)" % (where, fmt(feat)))
            continue
        if set(feat.rows) != set(range(len(decl))):
            chk.violation("sl-deg", PL, "_BaseSemilocalPlan.get_feat", "rows written for mode %s" % mode, 0,
                          "mode %s: rows %s are written but get_feat_usps declares %d features" % (
                              mode, sorted(feat.rows), len(decl)))
            continue
        fill = s.hooks.method_of(plan, "get_feat").fdef
        for i, d in enumerate(decl):
            cx.expect("sl-deg", res, where, feat.rows[i], d, "feat[:, %d]" % i, PL, "SemilocalPlan2.get_feat[mode=%s]" % mode,
                      "feat[:, %d] in mode %s" % (i, mode), fill.lineno)
    chk.floor("sl-deg", 10, "11 function components + 10 plan rows")


def mode_list(cx):
    """the modes SemilocalSettings.__init__ accepts: operands of its `mode in <list>` tests, resolved through
    the engine (literal list or module-level named list alike)"""
    import ast
    s = cx.s
    mod = s.prog.module(ST)
    init = mod.func("SemilocalSettings.__init__")
    modes = []
    s.eng.frames.append(deg.Frame(None, mod))
    try:
        for n in ast.walk(init):
            if isinstance(n, ast.Compare) and len(n.ops) == 1 and isinstance(n.ops[0], (ast.In, ast.NotIn)):
                v = s.eng.eval_expr(n.comparators[0], deg.Env())
                for x in (v.items if isinstance(v, Tup) else []):
                    if isinstance(x, K) and isinstance(x.value, str) and x.value not in modes:
                        modes.append(x.value)
    finally:
        s.eng.frames.pop()
    if len(modes) < 2:
        raise core.AnalysisError("SemilocalSettings.__init__: mode membership tests not found (%s)" % modes)
    return modes


def declared_list(v, where):
    """list of Lin from a returned list of numbers"""
    items = deg.items_of(v)
    if items is None:
        raise core.AnalysisError("%s: declared powers are not a literal-length list (%s)" % (where, fmt(v)))
    out = []
    for x in items:
        if isinstance(x, Q) and not x.is_rows and x.num is not None:
            out.append(x.num)
        else:
            raise core.AnalysisError("%s: declared power %s has no known value" % (where, fmt(x)))
    return out


# ----------------------------------------------------------------------------
def normalizer_usp(cx, rule, nobj, where):
    """get_usp() of a normaliser object as Lin, or None"""
    r = cx.s.call(nobj, "get_usp")
    cx.flush(rule, r, where)
    v = r.value
    if isinstance(v, Q) and not v.is_rows and v.num is not None:
        return v.num
    return None


def rule_normalizers(chk, cx):
    s = cx.s
    prog = s.prog
    subs = [(m, c) for m, c in prog.subclasses("FeatNormalizer") if c.name != "FeatNormalizer" and m.rel == FN]
    if len(subs) < 4:
        raise core.AnalysisError("fewer than four FeatNormalizer subclasses found")
    for m, c in subs:
        o = s.obj(FN, c.name)
        where = "%s.fill_fwd" % c.name
        usp = normalizer_usp(cx, "norm-usp", o, c.name + ".get_usp")
        if usp is None:
            raise core.AnalysisError("%s.get_usp does not return a linear form in the instance attributes" % c.name)
        res = s.call(o, "fill_fwd", [Q(Deg.of(X=1)), lam(3), Q(D0)], {"xn": K(None)})
        cx.flush("norm-usp", res, where)
        v = res.value
        fdef = s.hooks.method_of(o, "fill_fwd").fdef
        if isinstance(v, Q) and not v.is_rows and v.deg is not ANY:
            if v.deg.get("X") != Lin.const(1):
                chk.violation("norm-usp", FN, where, "fill_fwd result", fdef.lineno,
                              "normalised feature is not linear in the raw feature (degree in x is %s)" % v.deg.get("X"))
            else:
                cx.expect("norm-usp", res, where, Q(Deg({"lam": v.deg.get("lam")})), usp, "xn / x", FN, where,
                          "xn[:] of %s" % c.name, fdef.lineno)
        elif not res.mismatches:
            cx.nc += 1
            chk.note("norm-usp", where, "result not comparable: %s" % fmt(v))
        r2 = s.call(o, "get_ueg", [lam(3)])
        cx.flush("norm-usp", r2, c.name + ".get_ueg")
        g = s.hooks.method_of(o, "get_ueg").fdef
        cx.expect("norm-usp", r2, c.name + ".get_ueg", r2.value if lam_of(r2.value) is not None else Q(D0) if isinstance(
            r2.value, Q) and not r2.value.is_rows and r2.value.deg is ANY else r2.value, usp, "ueg factor", FN,
            c.name + ".get_ueg", "return of %s.get_ueg" % c.name, g.lineno)
    # rho / inhomogeneity terms of the list
    for mode in mode_list(cx):
        st = s.new(ST, "SemilocalSettings", K(mode))
        decl = declared_list(s.call(st, "get_feat_usps").value, "get_feat_usps")
        X = deg.rows(1, {i: Q(Deg({"lam": d})) for i, d in enumerate(decl)})
        # public entry point: get_normalized_feature_vector hands (rho_term, inh_term) to each normaliser's
        # fill_fwd; observe those two arguments, whatever private helper computes them
        probe = s.new(FN, "ConstantNormalizer", sym("c"))
        nl = s.new(FN, "FeatNormalizerList", lst(probe), K(mode))
        if not isinstance(nl, Obj) or not isinstance(probe, Obj):
            raise core.AnalysisError("FeatNormalizerList / ConstantNormalizer: constructor could not be interpreted")
        X = deg.rows(1, {i: Q(Deg({"lam": d})) for i, d in enumerate(decl)})
        X.shape = Tup([sym("nspin"), num(1), sym("ngrid")])
        seen = []

        def ob(node, name, args, kwargs):
            if (name or "").split(".")[-1] == "fill_fwd" and len(args) >= 3:
                seen.append((node, args[1], args[2]))
        s.eng.call_observers = [ob]
        try:
            res = s.call(nl, "get_normalized_feature_vector", [X])
        finally:
            s.eng.call_observers = []
        where = "FeatNormalizerList.get_normalized_feature_vector(slmode=%s)" % mode
        cx.flush("norm-usp", res, where)
        if not seen:
            if not res.mismatches:
                raise core.AnalysisError("%s: no normaliser fill_fwd call was reached" % where)
            continue
        node, rho_t, inh_t = seen[0]
        fname = "FeatNormalizerList.get_normalized_feature_vector"
        cx.expect("norm-usp", res, where, rho_t, L(3), "rho_term", FN, fname, "rho_term (slmode %s)" % mode, node.lineno)
        cx.expect("norm-usp", res, where, inh_t, L(0), "inh_term", FN, fname, "inh_term (slmode %s)" % mode, node.lineno)
    chk.floor("norm-usp", 8, "4 classes x (fill_fwd, get_ueg) + 4 slmodes x (rho, inh)")


# ----------------------------------------------------------------------------
def str_table(cx, name):
    v = cx.s.global_value(ST, name)
    if not isinstance(v, Tup) or not all(isinstance(x, K) and isinstance(x.value, str) for x in v.items):
        raise core.AnalysisError("%s is no longer a literal list of strings" % name)
    return [x.value for x in v.items]


def configurations(cx):
    """(label, constructor thunk) for every settings class / branch enumerated from the repo's tables"""
    s = cx.s
    KS = lambda xs: lst(*[K(x) for x in xs])  # noqa: E731
    pair = lambda a, b: Tup([num(a), num(b)])  # noqa: E731
    out = []
    i0 = str_table(cx, "ALLOWED_I_SPECS_L0")
    i1 = str_table(cx, "ALLOWED_I_SPECS_L1")
    js = str_table(cx, "ALLOWED_J_SPECS")
    mults = str_table(cx, "ALLOWED_RHO_MULTS")
    damps = str_table(cx, "ALLOWED_RHO_DAMPS")
    dots = [pair(-1, -1)] + [pair(-1, k) for k in range(len(i1))] + [pair(j, k) for j in range(len(i1))
                                                                      for k in range(j, len(i1))]

    tables = {}

    def table_num(tname, key):
        if tname not in tables:
            t = s.global_value(ST, tname)
            if not isinstance(t, deg.Map):
                raise core.AnalysisError("%s is no longer a literal dict" % tname)
            tables[tname] = t
        v = tables[tname].d.get(key)
        if not (isinstance(v, Q) and v.num is not None and v.num.is_const):
            raise core.AnalysisError("%s[%r] has no literal value" % (tname, key))
        return v.num.value

    def theta(level, tag):
        n = 3 if level == "MGGA" else 2
        return lst(*[sym("%s%d" % (tag, i)) for i in range(n)])

    def jparams(level, specs):
        ps = []
        for q, sp in enumerate(specs):
            p = theta(level, "p%d_" % q)
            if sp == "se_erf_rinv":
                p = lst(*(p.items + [sym("erf%d" % q)]))
            ps.append(p)
        return lst(*ps)

    for level in ("MGGA", "GGA"):
        for mult in mults:
            tag = "%s,%s" % (level, mult)
            if level == "GGA" and mult != "one":
                # _ueg_rho_mult reads theta_params[2], which a GGA object does not have (IndexError at run time,
                # reported by C13): the UEG of these configurations is undefined; keep one witness only
                out.append(("NLDFSettingsVJ(%s,%s)" % (tag, js[0]), lambda level=level, mult=mult: s.new(
                    ST, "NLDFSettingsVJ", K(level), theta(level, "th"), K(mult), KS(js[:1]), jparams(level, js[:1]))))
                continue
            # one feature per configuration: every spec / dot branch is decided on its own
            for sp in i0:
                out.append(("NLDFSettingsVI(%s,l0=%s)" % (tag, sp), lambda level=level, mult=mult, sp=sp: s.new(
                    ST, "NLDFSettingsVI", K(level), theta(level, "th"), K(mult), KS([sp]), KS(i1), lst())))
            for d in dots:
                lab = "(%s,%s)" % tuple(
                    "grad_rho" if int(x.num.value) == -1 else i1[int(x.num.value)] for x in d.items)
                out.append(("NLDFSettingsVI(%s,dot=%s)" % (tag, lab), lambda level=level, mult=mult, d=d: s.new(
                    ST, "NLDFSettingsVI", K(level), theta(level, "th"), K(mult), KS([]), KS(i1), lst(d))))
            for sp in js:
                out.append(("NLDFSettingsVJ(%s,%s)" % (tag, sp), lambda level=level, mult=mult, sp=sp: s.new(
                    ST, "NLDFSettingsVJ", K(level), theta(level, "th"), K(mult), KS([sp]), jparams(level, [sp]))))
            # ij sets: the i block sits after the j block.  Its powers are made to differ from the j block's at
            # the same positions (index-distinguishable blocks), and the block lengths differ, so that reading one
            # block with the other's offset changes the result.
            u0 = table_num("RHO_MULT_USPS", mult)
            supported = (0, -2, 2, 5)
            jsel = list(reversed(js[:2]))
            ju = [u0 + table_num("SPEC_USPS", sp) for sp in jsel]
            l0 = [sp for sp in i0 if u0 + table_num("SPEC_USPS", sp) in supported]
            l0.sort(key=lambda sp: (u0 + table_num("SPEC_USPS", sp) == ju[0], i0.index(sp)))
            l0 = l0[:3]

            def dot_usp(d):
                names = ["grad_rho" if int(x.num.value) == -1 else i1[int(x.num.value)] for x in d.items]
                return u0 + sum(table_num("SPEC_USPS", nm) for nm in names)
            dsel = [d for d in dots if dot_usp(d) in supported][:4]
            if len(dsel) == len(jsel):
                dsel = dsel[:-1] or dsel
            out.append(("NLDFSettingsVIJ(%s)" % tag, lambda level=level, mult=mult, l0=l0, dsel=dsel, jsel=jsel: s.new(
                ST, "NLDFSettingsVIJ", K(level), theta(level, "th"), K(mult), KS(l0), KS(i1), lst(*dsel),
                KS(jsel), jparams(level, jsel))))
            for damp in damps:
                out.append(("NLDFSettingsVK(%s,%s)" % (tag, damp), lambda level=level, mult=mult, damp=damp: s.new(
                    ST, "NLDFSettingsVK", K(level), theta(level, "th"), K(mult), jparams(level, ["se", "se"]), K(damp))))
    # Index/value discipline: list-valued settings never coincide with their own indices (no [0, 1, 2]) and all
    # counts differ from each other and from the list lengths, so that a loop over the wrong count, a slice by
    # the wrong count or an offset built from the wrong count changes the result.
    fl_dots = lst(pair(-1, -1), pair(-1, 0), pair(0, 1), pair(1, 1), pair(0, 0), pair(1, 0))          # 6
    ld_dots = lst(pair(-1, 0), pair(1, 1), pair(2, 3), pair(0, 3), pair(3, 3), pair(-1, 2), pair(2, 1))  # 7
    out.append(("FracLaplSettings(symbolic s)", lambda: s.new(
        ST, "FracLaplSettings", lst(*[sym("s%d" % i) for i in range(5)]), num(3), num(2), fl_dots, num(4),
        ld_dots, num(1))))
    pows_perm = lambda: lst(num(2), num(0), num(1))  # noqa: E731
    pows_sub = lambda: lst(num(1), num(2))  # noqa: E731
    for mode in ("smooth", "exact"):
        out.append(("SADMSettings(%s)" % mode, lambda mode=mode: s.new(ST, "SADMSettings", K(mode))))
    for tag, pw in (("pows=[2,0,1]", pows_perm), ("pows=[1,2]", pows_sub)):
        out.append(("SDMXSettings(%s)" % tag, lambda pw=pw: s.new(ST, "SDMXSettings", pw())))
    out.append(("SDMXGSettings(pows=[2,0,1],ndt=2)", lambda: s.new(ST, "SDMXGSettings", pows_perm(), num(2))))
    out.append(("SDMXGSettings(pows=[1,2],ndt=2)", lambda: s.new(ST, "SDMXGSettings", pows_sub(), num(2))))
    out.append(("SDMX1Settings(pows=[2,0,1],n1=1)", lambda: s.new(ST, "SDMX1Settings", pows_perm(), num(1))))
    out.append(("SDMX1Settings(pows=[1,2],n1=2)", lambda: s.new(ST, "SDMX1Settings", pows_sub(), num(2))))
    out.append(("SDMXG1Settings(pows=[2,0,1],nd=2,n1=1)", lambda: s.new(ST, "SDMXG1Settings", pows_perm(), num(2), num(1))))
    # dict keys deliberately NOT in ascending order: insertion order and sorted order must not coincide
    sd = deg.Map({deg.Fraction(2): Tup([lst(num(1), num(2)), lst(num(2), num(1), num(0), num(1))]),
                  deg.Fraction(1): Tup([lst(num(2), num(0), num(1)), lst(num(3), num(2), num(1), num(2))])})
    out.append(("SDMXFullSettings", lambda: s.new(ST, "SDMXFullSettings", sd)))
    return out


def rule_settings(chk, cx):
    s = cx.s
    n_cfg = 0
    for label, make in configurations(cx):
        m0 = len(s.eng.mismatches)
        obj = make()
        if not isinstance(obj, Obj):
            raise core.AnalysisError("%s: constructor could not be interpreted" % label)
        cname = obj.cls.name
        ru = s.call(obj, "get_feat_usps")
        cx.flush("ueg-deg", ru, label + ".get_feat_usps")
        if ru.value is None or isinstance(ru.value, (K, Unk)):
            chk.note("ueg-deg", label, "get_feat_usps not interpretable: %s" % fmt(ru.value))
            cx.nc += 1
            continue
        usps = declared_list(ru.value, label + ".get_feat_usps")
        n_cfg += 1
        # --- UEG vector
        rg = s.call(obj, "ueg_vector", [lam(3)])
        cx.flush("ueg-deg", rg, label + ".ueg_vector")
        uf = s.hooks.method_of(obj, "ueg_vector").fdef
        uv = rg.value
        items = deg.items_of(uv)
        if items is None and isinstance(uv, Q) and not uv.is_rows:
            items = [uv] * len(usps)
        if items is None:
            if not rg.mismatches:
                cx.nc += 1
                chk.note("ueg-deg", label, "ueg_vector not comparable: %s" % fmt(uv))
        elif len(items) != len(usps):
            chk.violation("ueg-deg", ST, "%s.ueg_vector" % cname, "length of ueg_vector", uf.lineno,
                          "%s: ueg_vector has %d entries, get_feat_usps %d" % (label, len(items), len(usps)))
        else:
            for i, (v, u) in enumerate(zip(items, usps)):
                if isinstance(v, Q) and not v.is_rows and v.deg is ANY:
                    chk.ok("ueg-deg", "%s ueg[%d] = 0 (any power)" % (label, i), nontrivial=False)
                    continue
                cx.expect("ueg-deg", rg, label, v, u, "ueg_vector[%d]" % i, ST, "%s.ueg_vector" % cname,
                          "ueg entry %d of %s" % (i, label), uf.lineno)
        # --- recommended normaliser
        rn = s.call(obj, "get_reasonable_normalizer")
        cx.flush("reasonable", rn, label + ".get_reasonable_normalizer")
        nf = s.hooks.method_of(obj, "get_reasonable_normalizer").fdef
        norms = deg.items_of(rn.value)
        if norms is None:
            chk.note("reasonable", label, "no normaliser list on this configuration (%s): not comparable" % fmt(rn.value))
            chk.count("configurations without recommended normaliser")
            continue
        if len(norms) != len(usps):
            chk.violation("reasonable", ST, "%s.get_reasonable_normalizer" % cname, "length of normaliser list",
                          nf.lineno, "%s: %d normalisers for %d features" % (label, len(norms), len(usps)))
            continue
        for i, (nv, u) in enumerate(zip(norms, usps)):
            alts = nv.options if isinstance(nv, Alt) else [nv]
            for a in alts:
                inst = "%s feature %d usp=%s" % (label, i, u)
                if isinstance(a, K) and a.value is None:
                    nu, desc = Lin(), "None"
                elif isinstance(a, Obj):
                    desc = a.cls.name
                    nu = normalizer_usp(cx, "reasonable", a, label + "[%d].get_usp" % i)
                else:
                    nu, desc = None, fmt(a)
                if nu is None:
                    cx.nc += 1
                    chk.note("reasonable", label, "normaliser %d not comparable (%s)" % (i, desc))
                    continue
                if (nu + u) == Lin():
                    chk.ok("reasonable", inst + " + %s usp %s" % (desc, nu))
                else:
                    chk.violation("reasonable", ST, "%s.get_reasonable_normalizer" % cname,
                                  "normaliser for feature %d of %s" % (i, label), nf.lineno,
                                  "%s: feature %d has declared power %s but the recommended normaliser %s has "
                                  "get_usp() = %s; the normalised feature scales as lambda^(%s), not 0" % (
                                      label, i, u, desc, nu, nu + u), instance=inst + " " + desc)
    chk.count("settings configurations", n_cfg)
    chk.floor("ueg-deg", 60, "UEG entries over NLDF i/j/ij/k x level x rho_mult, FracLapl, SDMX*")
    chk.floor("reasonable", 50, "recommended normalisers over the same configurations")


def rule_semilocal_ueg(chk, cx):
    s = cx.s
    for mode in mode_list(cx):
        st = s.new(ST, "SemilocalSettings", K(mode))
        label = "SemilocalSettings(%s)" % mode
        usps = declared_list(s.call(st, "get_feat_usps").value, label)
        rg = s.call(st, "ueg_vector", [lam(3)])
        cx.flush("ueg-deg", rg, label + ".ueg_vector")
        uf = s.hooks.method_of(st, "ueg_vector").fdef
        items = deg.items_of(rg.value)
        if items is None and isinstance(rg.value, Q) and not rg.value.is_rows:
            # homogeneous array: only entries that are not literal zeros carry a degree; cannot tell them apart
            chk.ok("ueg-deg", label + " ueg rows homogeneous %s" % fmt(rg.value), nontrivial=False)
            if lam_of(rg.value) is not None and lam_of(rg.value) != usps[0]:
                chk.violation("ueg-deg", ST, "SemilocalSettings.ueg_vector", "ueg of mode %s" % mode, uf.lineno,
                              "density entry scales as lambda^(%s), declared %s" % (lam_of(rg.value), usps[0]))
            continue
        if items is None or len(items) != len(usps):
            raise core.AnalysisError("%s.ueg_vector: unexpected value %s" % (label, fmt(rg.value)))
        for i, (v, u) in enumerate(zip(items, usps)):
            if isinstance(v, Q) and not v.is_rows and v.deg is ANY:
                chk.ok("ueg-deg", "%s ueg[%d] = 0" % (label, i), nontrivial=False)
                continue
            cx.expect("ueg-deg", rg, label, v, u, "ueg_vector[%d]" % i, ST, "SemilocalSettings.ueg_vector",
                      "ueg entry %d of %s" % (i, label), uf.lineno)


def rule_baselines(chk, cx):
    """exchange-like baselines of the BASELINE_CODES registry (taken by registry key, not by private helper
    name): energy density of degree 4, d/d(rho) of degree 1, d/d(scale-invariant feature) of degree 4"""
    s = cx.s
    reg = s.global_value(BL, "BASELINE_CODES")
    if not isinstance(reg, deg.Map):
        raise core.AnalysisError("BASELINE_CODES is no longer a literal dict")
    done = 0
    for code in ("LDA_X", "GGA_X_PBE", "GGA_X_CHACHIYO", "NLDA_X_DAMP"):
        fn = reg.d.get(code)
        if fn is None:
            chk.note("base-deg", code, "baseline code no longer registered")
            continue
        if not isinstance(fn, deg.Fn):
            raise core.AnalysisError("BASELINE_CODES[%r] is not a module-level function" % code)
        X = deg.rows(1, {0: lam(3), 1: Q(D0), 2: Q(D0), 3: Q(D0)}, default=Q(D0))
        res = s.eng.run_function(fn.fdef, [X], mod=fn.mod)
        h = "baseline %s (%s)" % (code, fn.fdef.name)
        cx.flush("base-deg", res, h)
        vals = deg.items_of(res.value)
        if vals is None or len(vals) != 2:
            if not res.mismatches:
                raise core.AnalysisError("%s: unexpected result %s" % (h, fmt(res.value)))
            continue
        done += 1
        e, d = vals
        cx.expect("base-deg", res, h, e, L(4), "energy density e", BL, fn.fdef.name, "e of baseline %s" % code,
                  fn.fdef.lineno)
        if not (isinstance(d, Q) and d.is_rows):
            if not res.mismatches:
                raise core.AnalysisError("%s: dedx is not filled row by row (%s)" % (h, fmt(d)))
            continue
        for r in sorted(d.rows):
            want = 4 - {0: 3}.get(r, 0)
            cx.expect("base-deg", res, h, d.rows[r], L(want), "dedx[%d]" % r, BL, fn.fdef.name,
                      "dedx[%d] of baseline %s" % (r, code), fn.fdef.lineno)
    if done < 2:
        raise core.AnalysisError("fewer than two exchange baselines could be analysed")
    chk.floor("base-deg", 5, "exchange baselines x (e + dedx rows)")


# ----------------------------------------------------------------------------
def sdmx_plan_configs(cx):
    """plan class -> [(label, settings thunk)]: the settings classes each SDMX-like plan is built from.
    SDMXIntPlan documents (but does not enforce) ratio-1 settings only; it is analysed on one ratio."""
    s = cx.s
    # pows are kept symbolic (distinct symbols), so a value can never coincide with an index; the term counts
    # differ from each other and from len(pows)
    P = lambda tag, n: lst(*[sym("%s%d" % (tag, i)) for i in range(n)])  # noqa: E731
    # ratio keys inserted in DESCENDING order: iteration over the dict and over sorted(ratios) must not coincide
    full = lambda: deg.Map({deg.Fraction(2): Tup([P("q", 3), lst(num(2), num(1), num(3), num(2))]),  # noqa: E731
                            deg.Fraction(1): Tup([P("p", 4), lst(num(4), num(2), num(3), num(1))])})
    one = lambda: deg.Map({deg.Fraction(1): Tup([P("p", 4), lst(num(4), num(2), num(3), num(1))])})  # noqa: E731
    return {
        "SADMPlan": [("SADMSettings(smooth)", lambda: s.new(ST, "SADMSettings", K("smooth")))],
        "SDMXPlan": [("SDMXSettings(symbolic pows)", lambda: s.new(ST, "SDMXSettings", P("p", 3))),
                     ("SDMXGSettings(ndt=2 of 3)", lambda: s.new(ST, "SDMXGSettings", P("p", 3), num(2))),
                     ("SDMX1Settings(n1=1 of 3)", lambda: s.new(ST, "SDMX1Settings", P("p", 3), num(1))),
                     ("SDMXG1Settings(nd=3, n1=2 of 4)", lambda: s.new(ST, "SDMXG1Settings", P("p", 4), num(3), num(2)))],
        "SDMXFullPlan": [("SDMXFullSettings(ratios 1,2; kinds 0,d,1,1d)", lambda: s.new(ST, "SDMXFullSettings", full()))],
        "SDMXIntPlan": [("SDMXFullSettings(ratio 1)", lambda: s.new(ST, "SDMXFullSettings", one()))],
    }


def order_diagnosis(chk, cx, plan, decl, where, cname, init):
    """when rows disagree: read the (l, n) tag of every fit matrix the constructor emitted (degree (n-3)/2 for
    l=0 integrals, (n-5)/2 for l=1) and compare the emitted sequence with the one get_feat_usps declares
    (all l=0 terms first, then the l=1 terms)"""
    fm = plan.attrs.get("fit_matrices")
    n0v = cx.s.hooks.attribute(cx.s.eng, plan, __import__("ast").Attribute(value=None, attr="num_l0_feat"), deg.Env())
    n0 = cx.s.eng.int_of(n0v) if n0v is not None else None
    if not isinstance(fm, Tup) or n0 is None or len(fm.items) != len(decl):
        return
    declared = [(0 if i < n0 else 1, d - Lin.const(3)) for i, d in enumerate(decl)]
    ns = {str(n) for _, n in declared}
    emitted = []
    for m in fm.items:
        lm = lam_of(m)
        if lm is None:
            return
        c0, c1 = lm.scale(2) + Lin.const(3), lm.scale(2) + Lin.const(5)
        if str(c0) in ns and str(c1) not in ns:
            emitted.append((0, c0))
        elif str(c1) in ns and str(c0) not in ns:
            emitted.append((1, c1))
        else:
            return
    if emitted != declared:
        k = next(i for i, (a, b) in enumerate(zip(emitted, declared)) if a != b)
        fmt_ = lambda seq: " ".join("l%d:%s" % (l, n) for l, n in seq)  # noqa: E731
        chk.violation("sdmx-deg", PL, cname + ".__init__", "order of the SDMX terms of %s" % where, init.lineno,
                      "the constructor emits its Coulomb/fit matrices in the order [%s] but get_feat_usps / "
                      "ueg_vector / get_features assume [%s] (all l=0 terms, then all l=1 terms); first difference at "
                      "position %d" % (fmt_(emitted), fmt_(declared), k))


def rule_sdmx_plans(chk, cx):
    """Abstractly run the constructor of every SDMX-like plan (auxiliary exponents alpha ~ lambda^2) and its
    get_features on projections typed lambda^3 (l=0) / lambda^4 (gradient): every feature row must have the
    power the matching settings class declares.  Decides which integral generator / weight each (l, r d/dr)
    term kind selects, through dispatch tables, helpers and branches alike."""
    s = cx.s
    prog = s.prog
    plan_classes = []
    for m, c in prog.all_classes():
        if m.rel != PL:
            continue
        r = prog.find_method(m, c, "get_features")
        has_init = "__init__" in deg.pf.methods(c)
        if r is not None and has_init:
            plan_classes.append(c.name)
    table = sdmx_plan_configs(cx)
    missing = [c for c in plan_classes if c not in table]
    if missing or len(plan_classes) < 4:
        raise core.AnalysisError("SDMX-like plan classes %s have no settings configuration in the checker "
                                 "(known: %s)" % (missing, sorted(table)))
    for cname in plan_classes:
        for label, make in table[cname]:
            st = make()
            where = "%s(%s)" % (cname, label)
            decl = declared_list(s.call(st, "get_feat_usps").value, label + ".get_feat_usps")
            eng = s.eng
            m0, u0 = len(eng.mismatches), len(eng.unknowns)
            plan = s.new(PL, cname, st, sym("nspin"), lam(2), sym("lambd"), sym("nalpha"))
            ctor = deg.Result(plan, None, eng.mismatches[m0:], eng.unknowns[u0:], [])
            cx.flush("sdmx-deg", ctor, where + ".__init__")
            if not isinstance(plan, Obj):
                raise core.AnalysisError("%s: constructor could not be interpreted" % where)
            p = deg.rows(0, {0: lam(3), 1: lam(4), 2: lam(4), 3: lam(4)})
            res = s.call(plan, "get_features", [p], {"out": K(None), "l0tmp": Q(ANY), "l1tmp": Q(ANY)})
            cx.flush("sdmx-deg", res, where + ".get_features")
            out = res.value
            gf = s.hooks.method_of(plan, "get_features").fdef
            init = s.hooks.method_of(plan, "__init__").fdef
            if not (isinstance(out, Q) and out.is_rows and out.axis == 0):
                if not (res.mismatches or ctor.mismatches):
                    raise core.AnalysisError("%s.get_features: result is not row-typed (%s)" % (where, fmt(out)))
                continue
            if set(out.rows) != set(range(len(decl))):
                chk.violation("sdmx-deg", PL, cname + ".get_features", "rows written by %s" % where, gf.lineno,
                              "%s writes feature rows %s but its settings declare %d features" % (
                                  where, sorted(out.rows), len(decl)))
                continue
            n_bad0 = len(chk.findings)
            for i, d in enumerate(decl):
                cx.expect("sdmx-deg", res, where, out.rows[i], d, "feature %d" % i, PL, cname + ".__init__",
                          "feature %d of %s" % (i, where), init.lineno)
            if len(chk.findings) > n_bad0:
                order_diagnosis(chk, cx, plan, decl, where, cname, init)
    chk.count("SDMX-like plan classes", len(plan_classes))
    chk.floor("sdmx-deg", 20, "feature rows of SADM/SDMX/SDMXFull/SDMXInt plans over their settings classes")


# ----------------------------------------------------------------------------
def rule_nldf_plan(chk, cx):
    """Version-i NLDF features as the PLAN computes them vs the powers the settings declare.
    (1) the function handed to the convolutions (NLDFAuxiliaryPlan.get_function_to_convolve) scales as
        lambda^(3 + RHO_MULT_USPS[rho_mult]);
    (2) with the convolution integrals typed lambda^(u0 + SPEC_USPS[spec]) (u0 = degree of that function - 3;
        the integral kernels are C code, their powers are the declared table) and the semilocal gradient typed
        lambda^4, every row written by eval_rho_full -- l=0 rows and l=1 dot products alike -- has the power
        get_feat_usps() declares.  A dot of two NLDF vectors carries the rho_mult factor twice, a dot with the
        density gradient once, (grad, grad) not at all."""
    s = cx.s
    KS = lambda xs: lst(*[K(x) for x in xs])  # noqa: E731
    pair = lambda a, b: Tup([num(a), num(b)])  # noqa: E731
    i0 = str_table(cx, "ALLOWED_I_SPECS_L0")
    i1 = str_table(cx, "ALLOWED_I_SPECS_L1")
    mults = str_table(cx, "ALLOWED_RHO_MULTS")
    spec_usps = s.global_value(ST, "SPEC_USPS")
    mult_usps = s.global_value(ST, "RHO_MULT_USPS")
    if not isinstance(spec_usps, deg.Map) or not isinstance(mult_usps, deg.Map):
        raise core.AnalysisError("SPEC_USPS / RHO_MULT_USPS are no longer literal dicts")

    def tab(t, key):
        v = t.d.get(key)
        if not (isinstance(v, Q) and v.num is not None):
            raise core.AnalysisError("table entry %r has no literal value" % key)
        return v.num
    dots = [pair(-1, -1)] + [pair(-1, k) for k in range(len(i1))] + [pair(j, k) for j in range(len(i1))
                                                                      for k in range(j, len(i1))]
    for level in ("MGGA", "GGA"):
        th = lst(*[sym("th%d" % i) for i in range(3 if level == "MGGA" else 2)])
        for mult in mults:
            st = s.new(ST, "NLDFSettingsVI", K(level), th, K(mult), KS(i0), KS(i1), lst(*dots))
            where = "NLDFAuxiliaryPlan(NLDFSettingsVI(%s,%s))" % (level, mult)
            plan = s.new(PL, "NLDFAuxiliaryPlan", st, sym("nspin"), Q(D0), sym("lambd"), num(4), coef_order=K("qg"),
                         raise_large_expnt_error=K(False), use_smooth_expnt_cutoff=K(False))
            if not isinstance(plan, Obj) or not isinstance(st, Obj):
                raise core.AnalysisError("%s: constructor could not be interpreted" % where)
            nrow = 5 if level == "MGGA" else 4
            rt = Tup([lam(3), lam(8)] + ([lam(5)] if level == "MGGA" else []))
            rf = s.call(plan, "get_function_to_convolve", [rt])
            cx.flush("nldf-deg", rf, where + ".get_function_to_convolve")
            fv = deg.items_of(rf.value)
            gf = s.hooks.method_of(plan, "get_function_to_convolve").fdef
            if fv is None or not fv or lam_of(fv[0]) is None:
                if not rf.mismatches:
                    cx.nc += 1
                    chk.note("nldf-deg", where, "function to convolve not comparable: %s" % fmt(rf.value))
                continue
            u0 = lam_of(fv[0]) - Lin.const(3)
            cx.expect("nldf-deg", rf, where, fv[0], Lin.const(3) + tab(mult_usps, mult), "function handed to the convolutions",
                      PL, "NLDFAuxiliaryPlan.get_function_to_convolve", "convolved function for rho_mult=%s" % mult,
                      gf.lineno)
            # convolution integrals, laid out as the C side fills them: one row per l=0 spec, three per l=1 spec
            frows = {}
            for i, sp in enumerate(i0):
                frows[i] = Q(Deg({"lam": u0 + tab(spec_usps, sp)}))
            for m_, sp in enumerate(i1):
                for c in range(3):
                    frows[len(i0) + 3 * m_ + c] = Q(Deg({"lam": u0 + tab(spec_usps, sp)}))
            f = deg.rows(0, frows)
            rho_data = deg.rows(0, {0: lam(3), 1: lam(4), 2: lam(4), 3: lam(4), 4: lam(5)} if nrow == 5 else
                                {0: lam(3), 1: lam(4), 2: lam(4), 3: lam(4)})
            res = s.call(plan, "eval_rho_full", [f, rho_data], {"spin": num(0)})
            cx.flush("nldf-deg", res, where + ".eval_rho_full")
            vals = deg.items_of(res.value)
            feat = vals[0] if vals else None
            decl = declared_list(s.call(st, "get_feat_usps").value, where + ".get_feat_usps")
            ef = s.hooks.method_of(plan, "eval_rho_full").fdef
            if not (isinstance(feat, Q) and feat.is_rows and feat.axis == 0):
                if not res.mismatches:
                    raise core.AnalysisError("%s.eval_rho_full: result is not row-typed (%s)" % (where, fmt(res.value)))
                continue
            if set(feat.rows) != set(range(len(decl))):
                chk.violation("nldf-deg", PL, "NLDFAuxiliaryPlan.eval_rho_full", "rows written for %s" % where, ef.lineno,
                              "%s writes rows %s but the settings declare %d features" % (where, sorted(feat.rows), len(decl)))
                continue
            names = list(i0) + ["(%s,%s)" % tuple("grad_rho" if int(x.num.value) == -1 else i1[int(x.num.value)]
                                                 for x in d.items) for d in dots]
            for i, d in enumerate(decl):
                cx.expect("nldf-deg", res, where, feat.rows[i], d, "feature %s" % names[i], ST, "NLDFSettingsVI.get_feat_usps",
                          "declared power of feature %s, rho_mult=%s" % (names[i], mult), ef.lineno)
            # the ij settings declare their i block with a copy of the same code: it must agree feature by feature
            js = str_table(cx, "ALLOWED_J_SPECS")[:1]
            jp = lst(lst(*(th.items + ([sym("erf")] if js[0] == "se_erf_rinv" else []))))
            stij = s.new(ST, "NLDFSettingsVIJ", K(level), th, K(mult), KS(i0), KS(i1), lst(*dots), KS(js), jp)
            if not isinstance(stij, Obj):
                raise core.AnalysisError("NLDFSettingsVIJ: constructor could not be interpreted")
            dij = declared_list(s.call(stij, "get_feat_usps").value, "NLDFSettingsVIJ.get_feat_usps")
            fij = s.hooks.method_of(stij, "get_feat_usps").fdef
            if len(dij) != len(decl) + len(js):
                chk.violation("nldf-deg", ST, "NLDFSettingsVIJ.get_feat_usps", "length of the ij power list", fij.lineno,
                              "NLDFSettingsVIJ declares %d powers for %d j + %d i features" % (len(dij), len(js), len(decl)))
            else:
                for i, (a_, b_) in enumerate(zip(dij[len(js):], decl)):
                    inst = "NLDFSettingsVIJ(%s,%s) i-block feature %s" % (level, mult, names[i])
                    if a_ == b_:
                        chk.ok("nldf-deg", inst + " declared as in NLDFSettingsVI")
                    else:
                        chk.violation("nldf-deg", ST, "NLDFSettingsVIJ.get_feat_usps",
                                      "declared power of i-block feature %s, rho_mult=%s" % (names[i], mult), fij.lineno,
                                      "the ij settings declare power %s for the version-i feature %s, the i settings "
                                      "declare %s for the same feature" % (a_, names[i], b_), instance=inst)
    chk.floor("nldf-deg", 20, "convolved function + l=0 rows + l=1 dots over level x rho_mult")


def rule_fraclapl_plan(chk, cx):
    """FracLaplPlan.get_feat rows vs FracLaplSettings.get_feat_usps (symbolic s, all counts distinct): the
    ingredient rows are typed as the settings document them (F_s: 3+2s; the l=1 vectors F^1_s and F^d_s: +1;
    F^dd_s: +2; density gradient: 4) and the plan's own caching/contraction code is interpreted, so a cache
    filled over the wrong count or a dot that picks the wrong vector changes the power."""
    s = cx.s
    pair = lambda a, b: Tup([num(a), num(b)])  # noqa: E731
    ns, nk0, nk1, nd1, ndd = 5, 3, 2, 4, 1
    l1_dots = lst(pair(-1, -1), pair(-1, 0), pair(0, 1), pair(1, 1), pair(0, 0), pair(1, 0))
    ld_dots = lst(pair(-1, 0), pair(1, 1), pair(2, 3), pair(0, 3), pair(3, 3), pair(-1, 2), pair(2, 1))
    svals = [Lin.sym("s%d" % i) for i in range(ns)]
    st = s.new(ST, "FracLaplSettings", lst(*[sym("s%d" % i) for i in range(ns)]), num(nk0), num(nk1), l1_dots,
               num(nd1), ld_dots, num(ndd))
    plan = s.new(PL, "FracLaplPlan", st, sym("nspin"))
    if not isinstance(st, Obj) or not isinstance(plan, Obj):
        raise core.AnalysisError("FracLaplSettings / FracLaplPlan: constructor could not be interpreted")
    usp = lambda i: Lin.const(3) + svals[i].scale(2)  # noqa: E731
    nsl = 5
    rws = {0: lam(3), 1: lam(4), 2: lam(4), 3: lam(4), 4: lam(5)}
    r = nsl
    for i in range(nk0):
        rws[r] = Q(Deg({"lam": usp(i)}))
        r += 1
    for i in range(nk1):
        for _ in range(3):
            rws[r] = Q(Deg({"lam": usp(i) + Lin.const(1)}))
            r += 1
    for i in range(nd1):
        for _ in range(3):
            rws[r] = Q(Deg({"lam": usp(i) + Lin.const(1)}))
            r += 1
    for i in range(ndd):
        rws[r] = Q(Deg({"lam": usp(i) + Lin.const(2)}))
        r += 1
    rho_data = deg.rows(1, rws)
    rho_data.shape = Tup([sym("nspin"), num(r), sym("ngrid")])
    where = "FracLaplPlan(nk0=%d,nk1=%d,nd1=%d,ndd=%d).get_feat" % (nk0, nk1, nd1, ndd)
    res = s.call(plan, "get_feat", [rho_data])
    cx.flush("fl-deg", res, where)
    decl = declared_list(s.call(st, "get_feat_usps").value, "FracLaplSettings.get_feat_usps")
    feat = res.value
    gf = s.hooks.method_of(plan, "get_feat").fdef
    if not (isinstance(feat, Q) and feat.is_rows):
        if not res.mismatches:
            raise core.AnalysisError("%s: result is not row-typed (%s)" % (where, fmt(feat)))
        return
    got = {(k if k >= 0 else len(decl) + k): v for k, v in feat.rows.items()}
    if set(got) != set(range(len(decl))):
        chk.violation("fl-deg", PL, "FracLaplPlan.get_feat", "rows written by FracLaplPlan.get_feat", gf.lineno,
                      "%s writes rows %s but the settings declare %d features" % (where, sorted(got), len(decl)))
        return
    for i, d in enumerate(decl):
        v = got[i]
        if isinstance(v, Unk):
            chk.violation("fl-deg", PL, "FracLaplPlan.get_feat", "feature %d of FracLaplPlan.get_feat" % i, gf.lineno,
                          "feature %d could not be formed from the vectors the plan cached (%s): a dot product "
                          "addresses a vector that was never cached" % (i, v.why))
            continue
        cx.expect("fl-deg", res, where, v, d, "feature %d" % i, PL, "FracLaplPlan.get_feat",
                  "feature %d of FracLaplPlan.get_feat" % i, gf.lineno)
    chk.floor("fl-deg", 8, "feature rows of the fractional-Laplacian plan")


def rule_tolerances(chk, cx):
    """A named tolerance is a threshold for ONE kind of quantity: every comparison / clamp that uses the same
    module-level tolerance constant must apply it to quantities of the same scaling degree (collected while
    the other rules interpret the code).  A tolerance calibrated for the density (lambda^3) applied to a
    lambda^5 quantity moves the cut to a different density and the feature is no longer scale-covariant across
    that line."""
    n = 0
    for (rel, name), by_deg in sorted(cx.tol_sites.items()):
        n += 1
        sites = sum(len(v) for v in by_deg.values())
        inst = "%s:%s is applied to quantities of degree %s (%d site(s))" % (rel, name, sorted(by_deg), sites)
        if len(by_deg) == 1:
            chk.ok("tol-deg", inst)
            continue
        major = max(by_deg, key=lambda d: len({(f, t) for f, t, _ in by_deg[d]}))
        for d, lst_ in sorted(by_deg.items()):
            if d == major:
                continue
            f, t, line = lst_[0]
            chk.violation("tol-deg", rel, f, t, line,
                          "the tolerance %s is compared with a quantity scaling as lambda^(%s) here but with "
                          "lambda^(%s) quantities elsewhere (%s): one constant cannot be the right threshold for both, "
                          "the cut moves to a different density" % (
                              name, d, major, "; ".join("%s `%s`" % (a, b) for a, b, _ in by_deg[major][:3])),
                          instance=inst + " @ " + f)
    if not n:
        raise core.AnalysisError("no named tolerance constant was met while interpreting the feature functions")
    chk.floor("tol-deg", 1, "ALPHA_TOL (settings.py)")


# ----------------------------------------------------------------------------
def _analyse_own(chk):
    chk.rule("exp-deg", "length-scale exponents scale as lambda^2; derivative degrees 2-3, 2-8, 2-5")
    chk.rule("sl-deg", "regularised semilocal features and the rows of the semilocal plan have the declared powers")
    chk.rule("norm-usp", "FeatNormalizer.get_usp equals the degree of fill_fwd / get_ueg as a linear form")
    chk.rule("reasonable", "declared usp + usp of the recommended normaliser == 0")
    chk.rule("ueg-deg", "ueg_vector entries scale as rho^(usp/3)")
    chk.rule("base-deg", "exchange baselines have degree 4 (energy density) and 1 (d/drho)")
    chk.rule("nldf-deg", "NLDF plan: convolved function and version-i rows (incl. l=1 dots) have the declared powers")
    chk.rule("fl-deg", "FracLaplPlan.get_feat rows have the powers FracLaplSettings.get_feat_usps declares")
    chk.rule("tol-deg", "a named tolerance constant is compared only with quantities of one scaling degree")
    chk.rule("sdmx-deg", "SDMX-like plans: constructor-built fit matrices / weights give every feature row its declared power")
    cx = Ctx(chk)
    chk.guard(rule_exponent, cx)
    chk.guard(rule_semilocal, cx)
    chk.guard(rule_normalizers, cx)
    chk.guard(rule_settings, cx)
    chk.guard(rule_semilocal_ueg, cx)
    chk.guard(rule_baselines, cx)
    chk.guard(rule_sdmx_plans, cx)
    chk.guard(rule_nldf_plan, cx)
    chk.guard(rule_fraclapl_plan, cx)
    chk.guard(rule_tolerances, cx)
    eng = cx.s.eng
    chk.count("equal-degree obligations decided inside formulas", eng.checks)
    chk.count("branch-join alternatives", len(eng.conflicts))
    chk.extra["frozen_reference"] = {"base symbols": {"rho": 3, "sigma": 8, "tau": 5, "grad rho": 4},
                                     "polymorphic names": sorted(eng.poly), "tiny literal": eng.tiny}
    if cx.nc > UNKNOWN_CEILING:
        raise core.AnalysisError("%d not-comparable sites (ceiling %d): the formulas have left the engine's "
                                 "vocabulary" % (cx.nc, UNKNOWN_CEILING))
    chk.assumptions += [
        "parameters not listed as base symbols (a0, grad_mul, tau_mul, theta/feat params, const) are dimensionless",
        "literal 0, np.zeros*, literals <= 1e-6 and the clamp symbols rhocut/cutoff/ALPHA_TOL are degree-polymorphic",
        "the degree of the C-computed nonlocal integrals is the one SPEC_USPS declares (not analysed)",
        "inputs of the exchange-baseline helpers other than the density row are scale-invariant features",
        "SDMX projections p_vag scale as lambda^3 (l=0 row) and lambda^4 (gradient rows); the auxiliary exponents "
        "alpha0 as lambda^2; lambd, nalpha, nspin dimensionless",
    ]
    chk.not_decided += ["scaling of the nonlocal integrals evaluated in C",
                        "end-to-end E_x[n_lambda] = lambda E_x[n]",
                        "numeric coefficients (a wrong constant factor has the right degree)",
                        "SPEC_USPS of l=1 specs (se_grad, se_rvec, grad_rho): their UEG value is 0 and the "
                        "integrals are in C"]


def analyse(chk):
    _analyse_own(chk)
    chk.guard(lambda c_: core.include_findings(c_, 'C02', files=['ciderpress/lib/mod_cider/convolutions.c', 'ciderpress/lib/mod_cider/cider_coefs.c', 'ciderpress/dft/settings.py'], rules=['alpha-degree', 'chain-i', 'chain-j'],
                                               why='the C integral kernels must have the exponent degree that SPEC_USPS declares for their spec'))
    chk.guard(lambda c_: core.include_findings(c_, 'C13', files=['ciderpress/dft/settings.py'], rules=['compose', 'emit-order'],
                                               why='the recommended normaliser list must be ordered like the declared scaling powers for the normalised powers to vanish'))
    chk.guard(lambda c_: core.include_findings(c_, 'C02', files=['ciderpress/dft/plans.py'], rules=['inverse-pair'],
                                               why='the exponent the plan actually interpolates at scales as lambda^2 only if exponent -> ladder index -> knot '
                                                   'index -> clip compose to the identity over the declared range'))


def mutants(tree):
    return [
        Mutant("exponent rho**(2/3) -> rho**(1/3)", ST, "ascale = B * rho ** (2.0 / 3) + C * tau / rho",
               "ascale = B * rho ** (1.0 / 3) + C * tau / rho", expect="exp-deg"),
        Mutant("gradient term sigma/rho^2 -> sigma/rho", ST, "ascale += grad_fac * sigma / (rho * rho)",
               "ascale += grad_fac * sigma / rho", count=2, expect="exp-deg"),
        Mutant("dadtau C/rho -> C/rho**2", ST, "dadtau = C / rho\n", "dadtau = C / rho**2\n", expect="exp-deg"),
        Mutant("declared nst powers [3,8,5] -> [3,8,4]", ST, "return [3, 8, 5]", "return [3, 8, 4]", expect="sl-deg"),
        Mutant("s2 denominator power 4/3 -> 1", ST, "s = np.sqrt(sigma) / (b * rho ** (4.0 / 3) + 1e-16)\n    s[cond]",
               "s = np.sqrt(sigma) / (b * rho + 1e-16)\n    s[cond]", expect="sl-deg"),
        Mutant("npa row 1 filled with sigma", PL, "feat[:, 1] = get_s2(rho, sigma)\n        feat[:, 2] = get_alpha",
               "feat[:, 1] = sigma\n        feat[:, 2] = get_alpha", expect="sl-deg"),
        Mutant("dalpha: dwds/tau0 -> dwds", ST, "dadsigma = -dwds / tau0", "dadsigma = -dwds", expect="sl-deg"),
        Mutant("InhomogeneityNormalizer declares 3*power", FN, "return 0.0", "return 3 * self.power", expect="norm-usp"),
        Mutant("GeneralNormalizer.get_ueg uses power2", FN, "        return self.const1 * rho**self.power1",
               "        return self.const1 * rho**self.power2", expect="norm-usp"),
        Mutant("SPEC_USPS[se_r2] -2 -> 0", ST, '"se_r2": -2,', '"se_r2": 0,', expect="ueg-deg"),
        Mutant("RHO_MULT_USPS[expnt] 2 -> 0", ST, '"expnt": 2,', '"expnt": 0,', expect="ueg-deg"),
        Mutant("VI se_r2 UEG 1.5/expnt -> 1.5*expnt", ST, "integral *= 1.5 / expnt", "integral *= 1.5 * expnt",
               expect="ueg-deg"),
        Mutant("FracLapl UEG kf**(3+2s) -> kf**(3+s)", ST, "kf ** (3 + 2 * s) / (np.pi**2 * (3 + 2 * s))",
               "kf ** (3 + s) / (np.pi**2 * (3 + 2 * s))", expect="ueg-deg"),
        Mutant("FracLapl get_usp 3+2s -> 3+s", ST, "return 3 + 2 * s", "return 3 + s", expect="ueg-deg"),
        Mutant("SDMX normaliser power -1-n/3 -> -n/3", ST, "DensityNormalizer(1.0 / u, power=(-1 - n / 3.0))\n            for u, n in zip(self.ueg_const, self.pows)\n        ]",
               "DensityNormalizer(1.0 / u, power=(-n / 3.0))\n            for u, n in zip(self.ueg_const, self.pows)\n        ]",
               expect="reasonable"),
        Mutant("VI usp==-2 branch builds exp_pow=-1", ST, "get_normalizer_from_exponent_params(0.0, 1.0, a0, tau_mul)",
               "get_normalizer_from_exponent_params(0.0, -1.0, a0, tau_mul)", expect="reasonable"),
        Mutant("FracLapl exp_pow 0.5*(1.5-usp) -> 0.5*(1.0-usp)", ST, "exp_pow = 0.5 * (1.5 - usps[i])",
               "exp_pow = 0.5 * (1.0 - usps[i])", expect="reasonable"),
        Mutant("SDMX ueg rho**(1+n/3) -> rho**(n/3)", ST, "return [u * rho ** (1 + n / 3.0) for u, n in zip(self.ueg_const, self.pows)]\n",
               "return [u * rho ** (n / 3.0) for u, n in zip(self.ueg_const, self.pows)]\n", expect="ueg-deg"),
        Mutant("SDMXFull l=1 rdr term built from the l=0 d integral", PL,
               "num * _get_int_1d(n, prod, isum)\n                        + 0.25 * _get_int_1d(n, prod, asum)\n                        + 0.25 * _get_int_1d(n, prod, bsum)",
               "num * _get_int_d(n, prod, isum)\n                        + 0.25 * _get_int_d(n, prod, asum)\n                        + 0.25 * _get_int_d(n, prod, bsum)",
               expect="sdmx-deg"),
        Mutant("_get_int_1d denominator power 9-n -> 7-n", PL, "/ asum ** (0.5 * (9 - n))", "/ asum ** (0.5 * (7 - n))",
               expect="sdmx-deg"),
        Mutant("SDMXPlan l=1 coulomb list uses the l=0 power", PL,
               "/ sum ** (0.5 * (5 - n))\n                * gamma(0.5 * (5 - n))\n                for n in settings.pows[:n1t]",
               "/ sum ** (0.5 * (3 - n))\n                * gamma(0.5 * (5 - n))\n                for n in settings.pows[:n1t]",
               expect="sdmx-deg"),
        Mutant("derivative of the knot index not rescaled with the index", PL,
               "            derivi[:] *= (self._spline_size - 1) / (self.nalpha - 1)\n", "", expect="via-C02"),
        Mutant("SDMXIntPlan l=1 weights use n instead of n-2", PL, "all_n.append(n - 2)", "all_n.append(n)", expect="sdmx-deg"),
        Mutant("SADMPlan fit: vals not normalised", PL, "            vals *= self.alpha_norms[None, :]\n            self.fit_matrix = np.linalg.solve(vals.T, LJ).T",
               "            self.fit_matrix = np.linalg.solve(vals.T, LJ).T", expect="sdmx-deg"),
        Mutant("SDMXFull declares 3+n -> 5+n for l=1 terms", ST, "            for n, rdr in self.iterate_l1_terms(ratio):\n                usps.append(3 + n)",
               "            for n, rdr in self.iterate_l1_terms(ratio):\n                usps.append(5 + n)", expect="sdmx-deg"),
        Mutant("SDMXPlan H^d matrices loop over range(ndt) instead of pows[:ndt]", PL, "for n in settings.pows[:ndt]",
               "for n in range(ndt)", expect="sdmx-deg"),
        Mutant("SDMXPlan H^1 matrices loop over all pows instead of pows[:n1t]", PL, "for n in settings.pows[:n1t]",
               "for n in settings.pows[-n1t:]", expect="sdmx-deg"),
        Mutant("FracLapl ld normalisers offset by nk1 instead of len(l1_dots)", ST, "start = self.nk0 + len(self.l1_dots)",
               "start = self.nk0 + self.nk1", expect="reasonable"),
        Mutant("SDMXG declared powers repeat the last ndt pows", ST, "return usps + usps[: self.ndterms]",
               "return usps + usps[-self.ndterms :]", expect=None),
        Mutant("VI normalisers read the declared powers without the j-block offset", ST,
               "usps = self.get_feat_usps()[self.nfeat - nvi :]", "usps = self.get_feat_usps()[:nvi]", expect="reasonable"),
        Mutant("VJ normalisers read the i-block powers", ST, "usps = self.get_feat_usps()[:nvj]",
               "usps = self.get_feat_usps()[-nvj:]", expect="reasonable"),
        Mutant("revert 8eeb341: l=1 dot powers add the rho_mult power once", ST,
               "usps.append(nmult * usp0 + SPEC_USPS[spec1] + SPEC_USPS[spec2])",
               "usps.append(usp0 + SPEC_USPS[spec1] + SPEC_USPS[spec2])", expect="nldf-deg"),
        Mutant("revert 8eeb341 in the ij settings only", ST,
               "usps.append(nmult * usp0 + SPEC_USPS[spec1] + SPEC_USPS[spec2])",
               "usps.append(usp0 + SPEC_USPS[spec1] + SPEC_USPS[spec2])", count=2, expect="nldf-deg"),
        Mutant("revert af610ee: _cache_ld_vectors loops over nk1", PL,
               "for i in range(self.settings.nd1):\n            self._cached_ld_data.append",
               "for i in range(self.settings.nk1):\n            self._cached_ld_data.append", expect="fl-deg"),
        Mutant("FracLapl plan: l1 dot contracts vector k with itself", PL,
               '"sxg,sxg->sg", self._cached_l1_data[j], self._cached_l1_data[k]',
               '"sxg,sxg->sg", self._cached_l1_data[k], self._cached_l1_data[k]', expect="fl-deg"),
        Mutant("rho_mult=expnt multiplies by the exponent twice", PL, "            a[:] *= rho\n            return a, da_tuple",
               "            a[:] *= rho * a\n            return a, da_tuple", expect="nldf-deg"),
        Mutant("get_alpha masks on tau0 < ALPHA_TOL instead of rho", ST,
               "    tau0 = get_uniform_tau(rho)\n", "    tau0 = get_uniform_tau(rho)\n    cond = tau0 < ALPHA_TOL\n",
               expect="tol-deg"),
        Mutant("ds2 clamps sigma with ALPHA_TOL", ST, "    s = np.sqrt(sigma) / (b * rho ** (4.0 / 3) + 1e-16)\n    s2 = s**2",
               "    s = np.sqrt(np.maximum(sigma, ALPHA_TOL)) / (b * rho ** (4.0 / 3) + 1e-16)\n    s2 = s**2", expect="tol-deg"),
        Mutant("SDMXFullSettings.get_feat_usps iterates the dict, the plan the sorted ratios", ST,
               "        usps = []\n        for ratio in self.ratios:\n            for n, rdr in self.iterate_l0_terms(ratio):\n                usps.append(3 + n)\n        for ratio in self.ratios:",
               "        usps = []\n        for ratio in self._settings:\n            for n, rdr in self.iterate_l0_terms(ratio):\n                usps.append(3 + n)\n        for ratio in self._settings:",
               expect="sdmx-deg"),
        Mutant("LDA exchange rho^(4/3) -> rho^(1/3)", BL, "e[:] += LDA_FACTOR * rho ** (4.0 / 3)\n",
               "e[:] += LDA_FACTOR * rho ** (1.0 / 3)\n", expect="base-deg"),
        Mutant("PBE dedx[1] loses rho^(4/3)", BL, "dedx[1] += LDA_FACTOR * rho ** (4.0 / 3) * dfx",
               "dedx[1] += LDA_FACTOR * dfx", expect="base-deg"),
    ]


if __name__ == "__main__":
    sys.exit(core.main(PROP, analyse, mutants, __doc__))
