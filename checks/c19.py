#!/usr/bin/env python3
"""C19 -- CIDER integration grids are PySCF's grids plus an exact index map.
Static rules (DESIGN.md §C19); the combinatorial content of the map and the
orthonormality of the tabulated harmonics are runtime data and NOT decided.

 reindex         every reorder/filter of self.coords / self.weights by an index is applied to
                 both arrays and is followed on every path by grids_indexer.set_idx of that
                 index (fresh grid) or of old_map[index] (already-indexed grid); every set_idx
                 argument corresponds to such a reorder or is the identity
 padding         padding rows appended to coords and zero weights appended to weights use the
                 same count, followed on every path by set_padding(count); a re-computed
                 padding of an already-indexed grid always reaches set_padding
 weights-first   set_weights(self.weights) is executed with the atom-ordered weights before
                 the first set_idx of a freshly generated grid
 width-binding   the harmonic table width (full_lmax+1)**2 of the producer is bound to the
                 lmax the consumer (AtomicGridsIndexer.from_tabs) asserts; tables are passed to
                 the parameters of the same name
 param-forward   parameters normalised by `if p is None: p = self.p` are the values forwarded
 truncation      ylm[:, (LMAX_DICT[n]+1)**2:] = 0 with n the angular size of that shell, between
                 the harmonic evaluation and the append to the table
"""
import ast
import os
import sys

sys.path.insert(0, os.path.dirname(os.path.dirname(os.path.abspath(__file__))))
from sa import core, pyfacts as pf, cfg as cfgm, inline  # noqa: E402
from sa.selftest import Mutant  # noqa: E402

PROP = "C19"
GG = "ciderpress/pyscf/gen_cider_grid.py"
GI = "ciderpress/dft/grids_indexer.py"
INDEXER_ATTR = "grids_indexer"
LAYOUT = {"np.asarray", "numpy.asarray", "np.ascontiguousarray", "numpy.ascontiguousarray",
          "np.array", "numpy.array", "np.require"}
STACKS = {"np.vstack", "np.hstack", "np.concatenate", "np.append", "numpy.vstack", "numpy.hstack",
          "numpy.concatenate", "numpy.append"}


# ----------------------------------------------------------------------------
# helpers
# ----------------------------------------------------------------------------
def strip_layout(e):
    while isinstance(e, ast.Call) and pf.call_name(e) in LAYOUT and e.args:
        e = e.args[0]
    return e


def node_exprs(n):
    """Expression roots evaluated *at* a CFG node (headers only for compound statements)."""
    st = n.ast
    if st is None:
        return []
    if n.kind == "test":
        return [st.test]
    if n.kind == "iter":
        return [st.iter]
    if n.kind == "with":
        return [i.context_expr for i in st.items]
    if n.kind == "handler":
        return []
    if isinstance(st, (ast.Try,)):
        return []
    return [st]


def calls_at(n):
    for root in node_exprs(n):
        for x in ast.walk(root):
            if isinstance(x, ast.Call):
                yield x


class IndexerCalls:
    """Recognises `self.grids_indexer.<m>(...)` (or through a local alias of self.grids_indexer)."""

    def __init__(self, fn):
        self.aliases = set()
        for x in pf.walk_no_nested(fn):
            if isinstance(x, ast.Assign) and len(x.targets) == 1 and isinstance(x.targets[0], ast.Name) \
                    and pf.is_self_attr(x.value, INDEXER_ATTR):
                self.aliases.add(x.targets[0].id)

    def is_indexer(self, e):
        return pf.is_self_attr(e, INDEXER_ATTR) or (isinstance(e, ast.Name) and e.id in self.aliases)

    def method(self, call):
        if isinstance(call, ast.Call) and isinstance(call.func, ast.Attribute) and self.is_indexer(call.func.value):
            return call.func.attr
        return None


def local_defs(fn, name):
    out = []
    for x in pf.walk_no_nested(fn):
        if isinstance(x, ast.Assign):
            for t in x.targets:
                if isinstance(t, ast.Name) and t.id == name:
                    out.append(x.value)
    return out


def names_in(e):
    return {x.id for x in ast.walk(e) if isinstance(x, ast.Name)}


def pad_count(e):
    """count expression of the block appended by a padding statement."""
    e = strip_layout(e)
    if isinstance(e, ast.Call):
        cn = pf.call_name(e)
        if cn in ("np.repeat", "numpy.repeat") and len(e.args) >= 2:
            return e.args[1], "repeat"
        if cn in ("np.zeros", "numpy.zeros", "np.ones", "numpy.ones", "np.empty", "numpy.empty",
                  "np.full", "numpy.full") and e.args:
            shp = e.args[0]
            if isinstance(shp, (ast.Tuple, ast.List)) and shp.elts:
                shp = shp.elts[0]
            return shp, cn.split(".")[-1]
    return None, None


class GridWrites:
    """Classification of the statements of one CiderGrids method that touch coords / weights."""

    def __init__(self, fn):
        self.fn = fn
        self.gen = []        # statements producing fresh atom-ordered (coords, weights)
        self.reorder = []    # (stmt, kind, index_expr)
        self.pad = []        # (stmt, kind, count_expr, how)
        self.other = []      # (stmt, kind)
        for st in pf.walk_no_nested(fn):
            if not isinstance(st, (ast.Assign, ast.AugAssign, ast.AnnAssign)):
                continue
            targets = st.targets if isinstance(st, ast.Assign) else [st.target]
            flat = []
            for t in targets:
                flat += list(t.elts) if isinstance(t, (ast.Tuple, ast.List)) else [t]
            kinds = [t.attr for t in flat if pf.is_self_attr(t) and t.attr in ("coords", "weights")]
            sub_kinds = [t.value.attr for t in flat if isinstance(t, ast.Subscript) and pf.is_self_attr(t.value)
                         and t.value.attr in ("coords", "weights")]
            for k in sub_kinds:
                self.other.append((st, k, "element store"))
            if not kinds:
                continue
            if isinstance(st, ast.AugAssign):
                self.other.append((st, kinds[0], "augmented assignment"))
                continue
            val = st.value
            if len(kinds) == 2 and isinstance(val, ast.Call) and isinstance(val.func, ast.Attribute) \
                    and val.func.attr == "get_partition":
                self.gen.append(st)
                continue
            if len(kinds) != 1 or len(flat) != 1:
                self.other.append((st, kinds[0], "tuple assignment"))
                continue
            kind = kinds[0]
            v = strip_layout(val)
            if pf.is_self_attr(v, kind):
                continue  # pure layout change
            if isinstance(v, ast.Constant) and v.value is None:
                continue
            if isinstance(v, ast.Subscript) and pf.is_self_attr(strip_layout(v.value), kind):
                idx = v.slice
                if isinstance(idx, ast.Tuple):
                    # only the first (grid) axis may be indexed non-trivially
                    rest = idx.elts[1:]
                    if all(isinstance(r, ast.Slice) and r.lower is None and r.upper is None and r.step is None
                           for r in rest):
                        idx = idx.elts[0]
                self.reorder.append((st, kind, idx))
                continue
            if isinstance(v, ast.Call) and pf.call_name(v) in STACKS and v.args:
                seq = v.args[0]
                parts = list(seq.elts) if isinstance(seq, (ast.List, ast.Tuple)) else list(v.args[:2])
                if len(parts) == 2 and pf.is_self_attr(strip_layout(parts[0]), kind):
                    cnt, how = pad_count(parts[1])
                    if cnt is None:
                        raise core.AnalysisError(
                            "%s: cannot read the row count of the block appended to self.%s in `%s`"
                            % (fn.name, kind, pf.src(st)[:100]))
                    self.pad.append((st, kind, cnt, how))
                    continue
            self.other.append((st, kind, "unrecognised right-hand side"))


def _redefined_after(fn, names, set_idx_calls, pred, reorder_node):
    """an index name is re-assigned between the matching set_idx call and the reorder"""
    lines = [c.lineno for n, c in set_idx_calls if pred(n)]
    if not lines:
        return True
    lo, hi = min(lines), reorder_node.ast.lineno
    for x in pf.walk_no_nested(fn):
        if isinstance(x, ast.Assign) and lo < x.lineno <= hi:
            for t in x.targets:
                if isinstance(t, ast.Name) and t.id in names:
                    return True
    return False


def reaches(g, a, b):
    """CFG node b reachable from node a by at least one edge."""
    seen = set()
    todo = list(g.succ[a])
    while todo:
        u = todo.pop()
        if u in seen:
            continue
        seen.add(u)
        if u == b:
            return True
        todo.extend(g.succ[u])
    return False


# ----------------------------------------------------------------------------
# rule 1: reorder => re-index protocol
# ----------------------------------------------------------------------------
def analyse_grid_method(chk, cls, fn):
    where = "%s.%s" % (cls.name, fn.name)
    w = GridWrites(fn)
    if not (w.gen or w.reorder or w.pad or w.other):
        return False
    for st, kind, why in w.other:
        raise core.AnalysisError("%s: write to self.%s of a shape the protocol rule does not know (%s): %s"
                                 % (where, kind, why, pf.src(st)[:120]))
    g = cfgm.CFG(fn)
    ic = IndexerCalls(fn)
    fresh = bool(w.gen)
    if len(w.gen) > 1:
        raise core.AnalysisError("%s: more than one get_partition assignment" % where)

    def nodes_calling(meth):
        out = []
        for n in g.nodes:
            for c in calls_at(n):
                if ic.method(c) == meth:
                    out.append((n, c))
        return out

    set_idx = nodes_calling("set_idx")
    set_pad = nodes_calling("set_padding")
    set_w = nodes_calling("set_weights")
    get_idx_names = set()
    for x in pf.walk_no_nested(fn):
        if isinstance(x, ast.Assign) and len(x.targets) == 1 and isinstance(x.targets[0], ast.Name):
            v = x.value
            if (isinstance(v, ast.Call) and ic.method(v) == "get_idx") or \
                    (isinstance(v, ast.Attribute) and v.attr == "idx_map" and ic.is_indexer(v.value)):
                get_idx_names.add(x.targets[0].id)

    def is_old_map(e):
        if isinstance(e, ast.Name) and e.id in get_idx_names:
            return True
        if isinstance(e, ast.Call) and ic.method(e) == "get_idx":
            return True
        return isinstance(e, ast.Attribute) and e.attr == "idx_map" and ic.is_indexer(e.value)

    node_of = {id(st): g.node_of(st) for st, _, _ in w.reorder}
    for st in w.gen:
        node_of[id(st)] = g.node_of(st)
    for st, _, _, _ in w.pad:
        node_of[id(st)] = g.node_of(st)
    gen_node = node_of[id(w.gen[0])] if fresh else None

    # --- pairing of reorders -------------------------------------------------
    groups = {}  # (parent block id, index text) -> {kind: stmt}
    for st, kind, idx in w.reorder:
        key = (id(pf.parent(st)), pf.src(idx))
        groups.setdefault(key, {"idx": idx, "stmts": {}})["stmts"].setdefault(kind, st)
    matched_set_idx = set()
    for (blk, itxt), grp in groups.items():
        stmts = grp["stmts"]
        first = min(stmts.values(), key=lambda s: s.lineno)
        inst = "%s reorder by [%s]" % (where, itxt)
        missing = {"coords", "weights"} - set(stmts)
        if missing:
            have = next(iter(stmts))
            chk.violation("reindex", GG, where, pf.src(stmts[have]), stmts[have].lineno,
                          "self.%s is reordered/filtered by [%s] but self.%s is not indexed by the same "
                          "index in the same block: points and weights no longer correspond"
                          % (have, itxt, missing.pop()), instance=inst + " pairing")
            continue
        chk.ok("reindex", inst + " applied to coords and weights")
        # is the grid still atom-ordered when this reorder happens?
        n_first = node_of[id(first)]
        earlier = [s for (s, _, _) in w.reorder
                   if s not in stmts.values() and reaches(g, node_of[id(s)].id, n_first.id)]
        still_fresh = fresh and not earlier and g.dominates(gen_node.id, n_first.id)
        last = max(stmts.values(), key=lambda s: s.lineno)
        n_last = node_of[id(last)]
        idx_names = names_in(grp["idx"])

        def good_arg(arg):
            if still_fresh:
                return pf.src(arg) == itxt
            if isinstance(arg, ast.Subscript) and is_old_map(arg.value):
                return bool(idx_names) and idx_names <= names_in(arg.slice)
            return False

        def pred(n):
            for c in calls_at(n):
                if ic.method(c) == "set_idx" and len(c.args) == 1 and good_arg(c.args[0]):
                    matched_set_idx.add(id(c))
                    return True
            return False

        # mark all matching calls (pred is only evaluated lazily by must_pass)
        for n, c in set_idx:
            pred(n)
        okp, wit = g.must_pass(pred, src=n_last.id)
        if not okp:
            # equivalent placement: the (same) set_idx is executed on every path *to* the reorder
            okp = g.must_pass(pred, src=g.entry.id, dst=n_first.id)[0] and not _redefined_after(fn, idx_names, set_idx, pred, n_first)
        want = ("set_idx(%s)" % itxt) if still_fresh else "set_idx(<old map from get_idx()>[%s])" % itxt
        if okp:
            chk.ok("reindex", inst + " -> " + want + " on every path")
        else:
            found = [pf.src(c) for n, c in set_idx if reaches(g, n_last.id, n.id)]
            chk.violation("reindex", GG, where, pf.src(last), last.lineno,
                          "coords/weights are reordered by [%s] but a path reaches the end of %s without %s "
                          "(set_idx calls after it: %s): the index map no longer describes the stored grid"
                          % (itxt, fn.name, want, found or "none"), instance=inst + " -> set_idx")
    # --- every set_idx argument is accounted for -----------------------------
    for n, c in set_idx:
        inst = "%s %s" % (where, pf.src(c))
        if id(c) in matched_set_idx:
            continue
        arg = c.args[0] if len(c.args) == 1 else None
        ident = False
        if fresh and arg is not None and isinstance(arg, ast.Call) and pf.call_name(arg) in ("np.arange", "numpy.arange") \
                and len(arg.args) == 1:
            s = pf.src(arg.args[0])
            ident = s in ("self.weights.size", "len(self.weights)", "self.weights.shape[0]", "self.coords.shape[0]",
                          "len(self.coords)", "self.size")
            # identity is only right while the grid is still atom-ordered
            if ident and any(reaches(g, node_of[id(s_)].id, n.id) for s_, _, _ in w.reorder):
                ident = False
        if ident:
            chk.ok("reindex", inst + " identity map on an unsorted fresh grid")
        else:
            chk.violation("reindex", GG, where, pf.src(c), c.lineno,
                          "set_idx argument is neither the index just applied to coords and weights, the "
                          "composition old_map[index], nor the identity on a fresh grid", instance=inst)
    if fresh:
        def any_set_idx(n):
            return any(ic.method(c) == "set_idx" for c in calls_at(n))
        okp, wit = g.must_pass(any_set_idx, src=gen_node.id)
        inst = "%s fresh grid -> set_idx on every path" % where
        if okp:
            chk.ok("reindex", inst)
        else:
            chk.violation("reindex", GG, where, "fresh grid without set_idx", w.gen[0].lineno,
                          "a path from get_partition to the end of %s never calls grids_indexer.set_idx: "
                          "idx_map / iatom_list stay None" % fn.name, instance=inst)

    # --- padding ---------------------------------------------------------------
    pgroups = {}
    for st, kind, cnt, how in w.pad:
        pgroups.setdefault(id(pf.parent(st)), {})[kind] = (st, cnt, how)
    matched_pad = set()
    for blk, grp in pgroups.items():
        any_st = next(iter(grp.values()))[0]
        inst = "%s padding block" % where
        if set(grp) != {"coords", "weights"}:
            have = next(iter(grp))
            chk.violation("padding", GG, where, pf.src(any_st), any_st.lineno,
                          "padding is appended to self.%s only" % have, instance=inst + " pairing")
            continue
        (sc, cc, hc), (sw, cw, hw) = grp["coords"], grp["weights"]
        if pf.src(cc) != pf.src(cw):
            chk.violation("padding", GG, where, pf.src(sw), sw.lineno,
                          "coords are padded by %s rows but weights by %s entries" % (pf.src(cc), pf.src(cw)),
                          instance=inst + " counts")
            continue
        if hw != "zeros":
            chk.violation("padding", GG, where, pf.src(sw), sw.lineno,
                          "padding weights are built with np.%s, not np.zeros: padding points must carry zero "
                          "weight" % hw, instance=inst + " zero weight")
            continue
        chk.ok("padding", inst + " coords/weights padded by %s, zero weights" % pf.src(cc))
        ctxt = pf.src(cc)
        last = sc if sc.lineno > sw.lineno else sw

        def pred(n, ctxt=ctxt):
            for c in calls_at(n):
                if ic.method(c) == "set_padding" and len(c.args) == 1 and pf.src(c.args[0]) == ctxt:
                    matched_pad.add(id(c))
                    return True
            return False
        for n, c in set_pad:
            pred(n)
        okp, wit = g.must_pass(pred, src=g.node_of(last).id)
        if not okp:
            first = sc if sc.lineno < sw.lineno else sw
            okp = g.must_pass(pred, src=g.entry.id, dst=g.node_of(first).id)[0]
        if okp:
            chk.ok("padding", inst + " -> set_padding(%s) on every path" % ctxt)
        else:
            chk.violation("padding", GG, where, pf.src(last), last.lineno,
                          "%s padding points are appended but a path reaches the end of %s without "
                          "grids_indexer.set_padding(%s)" % (ctxt, fn.name, ctxt), instance=inst + " -> set_padding")
    if not fresh:
        # a grid that may already carry padding: every recomputed padding must reach set_padding
        for x in pf.walk_no_nested(fn):
            if isinstance(x, ast.Assign) and len(x.targets) == 1 and isinstance(x.targets[0], ast.Name) \
                    and isinstance(x.value, ast.Call) and (pf.call_name(x.value) or "").endswith("_padding_size"):
                nm = x.targets[0].id
                inst = "%s %s = _padding_size(...) -> set_padding" % (where, nm)

                def pred(n, nm=nm):
                    for c in calls_at(n):
                        if ic.method(c) == "set_padding" and len(c.args) == 1 and pf.src(c.args[0]) == nm:
                            matched_pad.add(id(c))
                            return True
                    return False
                for n, c in set_pad:
                    pred(n)
                okp, wit = g.must_pass(pred, src=g.node_of(x).id)
                if okp:
                    chk.ok("padding", inst)
                else:
                    chk.violation("padding", GG, where, pf.src(x), x.lineno,
                                  "the grid was filtered and its padding recomputed, but a path (e.g. %s == 0) "
                                  "ends without set_padding(%s): the indexer keeps the stale padding of the "
                                  "previous grid" % (nm, nm), instance=inst)
    for n, c in set_pad:
        if id(c) not in matched_pad:
            chk.violation("padding", GG, where, pf.src(c), c.lineno,
                          "set_padding argument is not the count of rows appended to coords/weights",
                          instance="%s %s" % (where, pf.src(c)))

    # --- set_weights before first set_idx ---------------------------------------
    if fresh:
        def is_setw(n):
            return any(ic.method(c) == "set_weights" for c in calls_at(n))
        for n, c in set_idx:
            inst = "%s set_weights before %s" % (where, pf.src(c))
            okp, wit = g.must_pass(is_setw, src=g.entry.id, dst=n.id)
            if okp:
                chk.ok("weights-first", inst)
            else:
                chk.violation("weights-first", GG, where, pf.src(c), c.lineno,
                              "set_idx can be reached without a preceding set_weights: set_idx sizes its atom "
                              "table by all_weights.size (None at that point)", instance=inst)
        for n, c in set_w:
            inst = "%s %s" % (where, pf.src(c))
            bad = None
            if len(c.args) != 1 or not pf.is_self_attr(strip_layout(c.args[0]), "weights"):
                bad = "its argument is not self.weights"
            elif not g.dominates(gen_node.id, n.id):
                bad = "it is not preceded by the get_partition assignment on every path"
            else:
                for s_, k_, _ in w.reorder:
                    if reaches(g, node_of[id(s_)].id, n.id):
                        bad = "self.weights has already been reordered by `%s`" % pf.src(s_)
                for s_, k_, _, _ in w.pad:
                    if reaches(g, node_of[id(s_)].id, n.id):
                        bad = "self.weights has already been padded by `%s`" % pf.src(s_)
            if bad:
                chk.violation("weights-first", GG, where, pf.src(c), c.lineno,
                              "set_weights must store the atom-ordered, unsorted, unpadded weights, but " + bad,
                              instance=inst + " atom-ordered")
            else:
                chk.ok("weights-first", inst + " atom-ordered")
        if not set_w:
            chk.violation("weights-first", GG, where, "no set_weights", fn.lineno,
                          "a fresh grid is built without grids_indexer.set_weights", instance=where + " set_weights")
        # the indexer must be (re)built by this method
        built = False
        for x in pf.walk_no_nested(fn):
            if isinstance(x, ast.Call) and isinstance(x.func, ast.Attribute) and x.func.attr == "gen_atomic_grids" \
                    and isinstance(x.func.value, ast.Name) and x.func.value.id == "self":
                for kw in x.keywords:
                    if kw.arg == "build_indexer" and isinstance(kw.value, ast.Constant) and kw.value.value is True:
                        built = True
        inst = "%s builds the indexer (build_indexer=True)" % where
        if built:
            chk.ok("weights-first", inst)
        else:
            chk.violation("weights-first", GG, where, "self.gen_atomic_grids(...)", fn.lineno,
                          "the fresh grid is generated without build_indexer=True: grids_indexer is None or "
                          "belongs to a previous grid", instance=inst)
    return True


def _methods_mro(mod, cls, _seen=None):
    """methods of cls including those inherited from base classes defined in the same module"""
    _seen = _seen or set()
    out = dict(pf.methods(cls))
    for b in cls.bases:
        if isinstance(b, ast.Name) and b.id in mod.classes and b.id not in _seen:
            _seen.add(b.id)
            for k, v in _methods_mro(mod, mod.classes[b.id], _seen).items():
                out.setdefault(k, v)
    return out


def rule_protocol(chk, mod):
    cls = mod.cls("CiderGrids")
    ms = _methods_mro(mod, cls)
    for anchor in ("build", "prune_by_density_"):
        if anchor not in ms:
            raise core.AnalysisError("anchor method CiderGrids.%s vanished" % anchor)
    n = 0
    for name, fn in ms.items():
        if name in getattr(mod, "absorbed", ()):
            continue  # private helper inlined into every caller: analysed there
        if analyse_grid_method(chk, cls, fn):
            n += 1
            chk.count("grid-mutating methods")
    for cname, c2 in mod.classes.items():
        if c2 is cls:
            continue
        if any(pf.src(b) == "CiderGrids" for b in c2.bases):
            for name, fn in pf.methods(c2).items():
                if analyse_grid_method(chk, c2, fn):
                    chk.count("grid-mutating methods")
    if n < 2:
        raise core.AnalysisError("fewer than 2 CiderGrids methods write coords/weights (build, prune_by_density_)")


# ----------------------------------------------------------------------------
# rule 2: producer/consumer width binding
# ----------------------------------------------------------------------------
def _is_square_of_plus1(e, env):
    """(P+1)*(P+1) | (P+1)**2  -> name P"""
    if isinstance(e, ast.Name) and e.id in env:
        vals = env[e.id]
        names = {_is_square_of_plus1(v, {}) for v in vals}
        if len(names) == 1:
            return names.pop()
        return None

    def plus1(x):
        if isinstance(x, ast.BinOp) and isinstance(x.op, ast.Add):
            a, b = x.left, x.right
            if isinstance(b, ast.Constant) and b.value == 1 and isinstance(a, ast.Name):
                return a.id
            if isinstance(a, ast.Constant) and a.value == 1 and isinstance(b, ast.Name):
                return b.id
        return None
    if isinstance(e, ast.BinOp) and isinstance(e.op, ast.Mult):
        a, b = plus1(e.left), plus1(e.right)
        if a and a == b:
            return a
    if isinstance(e, ast.BinOp) and isinstance(e.op, ast.Pow) and isinstance(e.right, ast.Constant) \
            and e.right.value == 2:
        return plus1(e.left)
    return None


def assigns_env(fn):
    env = {}
    for x in pf.walk_no_nested(fn):
        if isinstance(x, ast.Assign):
            for t in x.targets:
                if isinstance(t, ast.Name):
                    env.setdefault(t.id, []).append(x.value)
    return env


def producer_width_param(fn):
    """parameter P such that the harmonic tables are allocated with (P+1)**2 columns."""
    env = assigns_env(fn)
    params = {a.arg for a in fn.args.args + fn.args.kwonlyargs}
    found = {}
    for x in pf.walk_no_nested(fn):
        if isinstance(x, ast.Call) and pf.call_name(x) in ("np.zeros", "np.empty", "numpy.zeros", "numpy.empty") \
                and x.args and isinstance(x.args[0], ast.Tuple) and len(x.args[0].elts) == 2:
            p = _is_square_of_plus1(x.args[0].elts[1], env)
            if p:
                found.setdefault(p, []).append(x)
    ps = [p for p in found if p in params]
    if len(ps) != 1:
        raise core.AnalysisError("gen_atomic_grids_cider: cannot identify the single parameter that sizes the "
                                 "harmonic table ((P+1)**2 columns); candidates %s" % sorted(found))
    return ps[0], found[ps[0]]


def bind_call(call, fn, skip_self=False):
    """argument expression bound to each parameter name of fn at `call` (None = not bound explicitly);
    also returns whether **kwargs is forwarded."""
    pos = [a.arg for a in fn.args.args]
    if skip_self and pos and pos[0] in ("self", "cls"):
        pos = pos[1:]
    bound = {}
    for i, a in enumerate(call.args):
        if isinstance(a, ast.Starred):
            raise core.AnalysisError("star-args at %s" % pf.src(call)[:80])
        if i < len(pos):
            bound[pos[i]] = a
    star = False
    for kw in call.keywords:
        if kw.arg is None:
            star = True
        else:
            bound[kw.arg] = kw.value
    return bound, star


def rule_width(chk, mod, imod):
    prod = mod.func("gen_atomic_grids_cider")
    wparam, allocs = producer_width_param(prod)
    chk.ok("width-binding", "producer gen_atomic_grids_cider sizes ylm by (%s+1)**2 in %d allocation(s)"
           % (wparam, len(allocs)))
    # consumer: from_tabs(lmax) -> cls(natm, lmax, ...) -> assert self.nlm == ylm.shape[1]
    init = imod.func("AtomicGridsIndexer.__init__")
    ft = imod.func("AtomicGridsIndexer.from_tabs")
    env_i = assigns_env(init)
    nlm_from = None
    for x in pf.walk_no_nested(init):
        if isinstance(x, ast.Assign) and len(x.targets) == 1 and pf.is_self_attr(x.targets[0], "nlm"):
            nlm_from = _is_square_of_plus1(x.value, env_i)
    asserted = False
    for cond, _st in inline.asserted_conditions(init):  # assert c  ==  if not c: raise ...
        if isinstance(cond, ast.Compare) and len(cond.ops) == 1 and isinstance(cond.ops[0], ast.Eq):
            sides = {pf.src(cond.left), pf.src(cond.comparators[0])}
            if "self.nlm" in sides and any(s.endswith(".shape[1]") for s in sides):
                asserted = True
    if nlm_from is None or not asserted:
        raise core.AnalysisError("AtomicGridsIndexer.__init__: `self.nlm = (lmax+1)**2` / `assert self.nlm == "
                                 "ylm.shape[1]` not found; the consumer's width requirement is unknown")
    env_f = assigns_env(ft)
    ft_w = None
    for x in pf.walk_no_nested(ft):
        if isinstance(x, ast.Call) and pf.call_name(x) in ("np.empty", "np.zeros") and x.args \
                and isinstance(x.args[0], ast.Tuple) and len(x.args[0].elts) == 2:
            ft_w = _is_square_of_plus1(x.args[0].elts[1], env_f) or ft_w
    rets = [x for x in pf.walk_no_nested(ft) if isinstance(x, ast.Return)]
    if len(rets) != 1 or not isinstance(rets[0].value, ast.Call) or pf.src(rets[0].value.func) != "cls":
        raise core.AnalysisError("from_tabs no longer ends in a single `return cls(...)`")
    b, _ = bind_call(rets[0].value, init, skip_self=True)
    cons_param = None
    if nlm_from in b and isinstance(b[nlm_from], ast.Name):
        cons_param = b[nlm_from].id
    if cons_param is None or cons_param not in {a.arg for a in ft.args.args} or (ft_w and ft_w != cons_param):
        raise core.AnalysisError("from_tabs: cannot trace the lmax passed to cls(...) back to one parameter")
    chk.ok("width-binding", "consumer from_tabs(%s) requires ylm_tab width (%s+1)**2 (np.append axis=0 + assert)"
           % (cons_param, cons_param))

    # the call pair
    npairs = 0
    for cname, cls in mod.classes.items():
        for mname, fn in pf.methods(cls).items():
            pcalls = [x for x in pf.walk_no_nested(fn) if isinstance(x, ast.Call)
                      and pf.call_name(x) == "gen_atomic_grids_cider"]
            ccalls = [x for x in pf.walk_no_nested(fn) if isinstance(x, ast.Call)
                      and (pf.call_name(x) or "").endswith("AtomicGridsIndexer.from_tabs")]
            if not pcalls and not ccalls:
                continue
            where = "%s.%s" % (cname, mname)
            if len(pcalls) != 1 or len(ccalls) != 1:
                raise core.AnalysisError("%s: expected one producer call and one from_tabs call" % where)
            npairs += 1
            pc, cc = pcalls[0], ccalls[0]
            pb, pstar = bind_call(pc, prod)
            cb, _ = bind_call(cc, ft, skip_self=True)
            want = cb.get(cons_param)
            if want is None:
                raise core.AnalysisError("%s: from_tabs call does not bind %s" % (where, cons_param))
            got = pb.get(wparam)
            inst = "%s: producer %s == consumer %s" % (where, wparam, cons_param)
            dflt = None
            pos = prod.args.args
            nd = len(prod.args.defaults)
            for a, d in zip(pos[len(pos) - nd:], prod.args.defaults):
                if a.arg == wparam:
                    dflt = pf.src(d)
            if got is None:
                chk.violation(
                    "width-binding", GG, where, "%s(...) without %s" % (pf.call_name(pc), wparam), pc.lineno,
                    "the harmonic table is produced with %s left at its default (%s%s) while "
                    "AtomicGridsIndexer.from_tabs is given %s=%s and requires (%s+1)**2 columns: every "
                    "%s different from the default fails in from_tabs (np.append / assert nlm == ylm.shape[1])"
                    % (wparam, dflt, ", reachable only through **kwargs" if pstar else "", cons_param,
                       pf.src(want), pf.src(want), pf.src(want)), instance=inst)
            elif pf.src(got) != pf.src(want):
                chk.violation("width-binding", GG, where, "%s=%s" % (wparam, pf.src(got)), pc.lineno,
                              "producer table width uses %s but the consumer is told %s" % (pf.src(got), pf.src(want)),
                              instance=inst)
            else:
                chk.ok("width-binding", inst + " (%s)" % pf.src(want))
            # table-to-parameter binding through the unpacked return tuple
            rets_p = [x for x in pf.walk_no_nested(prod) if isinstance(x, ast.Return)]
            if len(rets_p) != 1 or not isinstance(rets_p[0].value, ast.Tuple):
                raise core.AnalysisError("gen_atomic_grids_cider no longer returns one tuple")
            rnames = [e.id if isinstance(e, ast.Name) else None for e in rets_p[0].value.elts]
            asg = pf.parent(pc)
            if not (isinstance(asg, ast.Assign) and len(asg.targets) == 1 and isinstance(asg.targets[0], ast.Tuple)):
                raise core.AnalysisError("%s: result of gen_atomic_grids_cider is not unpacked into a tuple" % where)
            lnames = [e.id if isinstance(e, ast.Name) else None for e in asg.targets[0].elts]
            if len(lnames) != len(rnames):
                chk.violation("width-binding", GG, where, pf.src(asg.targets[0]), asg.lineno,
                              "unpacks %d values from a producer returning %d" % (len(lnames), len(rnames)),
                              instance="%s unpack arity" % where)
                continue
            local2prod = dict(zip(lnames, rnames))
            cparams = {a.arg for a in ft.args.args}
            for p, a in sorted(cb.items()):
                if not p.endswith("_tab"):
                    continue
                inst = "%s: from_tabs(%s=...)" % (where, p)
                if not isinstance(a, ast.Name) or a.id not in local2prod or p not in rnames:
                    chk.note("width-binding", where, "table parameter %s: producer/consumer names not comparable" % p)
                    continue
                q = local2prod[a.id]
                if q == p:
                    chk.ok("width-binding", inst + " <- producer's %s" % q)
                elif q in cparams:
                    chk.violation("width-binding", GG, where, "%s <- %s" % (p, a.id), cc.lineno,
                                  "from_tabs parameter %s receives the producer's %s" % (p, q), instance=inst)
                else:
                    chk.violation("width-binding", GG, where, "%s <- %s" % (p, a.id), cc.lineno,
                                  "from_tabs parameter %s receives the producer's %s, which is not an indexer "
                                  "table" % (p, q), instance=inst)
            # normalised parameters must be the ones forwarded
            normalised = {}
            for st in fn.body:
                if isinstance(st, ast.If) and not st.orelse and len(st.body) == 1 \
                        and isinstance(st.test, ast.Compare) and isinstance(st.test.left, ast.Name) \
                        and len(st.test.ops) == 1 and isinstance(st.test.ops[0], ast.Is) \
                        and isinstance(st.test.comparators[0], ast.Constant) and st.test.comparators[0].value is None:
                    b0 = st.body[0]
                    if isinstance(b0, ast.Assign) and len(b0.targets) == 1 and isinstance(b0.targets[0], ast.Name) \
                            and b0.targets[0].id == st.test.left.id and pf.is_self_attr(b0.value):
                        normalised[st.test.left.id] = b0.value.attr
            fparams = {a.arg for a in fn.args.args}
            for p, attr in sorted(normalised.items()):
                if p not in fparams:
                    continue
                inst = "%s: normalised %s forwarded" % (where, p)
                fw = pb.get(p)
                uses = [x for x in pf.walk_no_nested(fn) if isinstance(x, ast.Name) and x.id == p
                        and isinstance(x.ctx, ast.Load)]
                # uses outside its own normalisation statement
                live = [u for u in uses if not _within_normalisation(u, p)]
                if fw is not None and isinstance(fw, ast.Name) and fw.id == p:
                    chk.ok("param-forward", inst)
                elif not live:
                    chk.violation("param-forward", GG, where, "parameter %s" % p, fn.lineno,
                                  "parameter %s is normalised (`if %s is None: %s = self.%s`) and then never "
                                  "used; the producer is given %s instead, so a caller's %s is ignored and the "
                                  "grid is not the PySCF grid of the same settings"
                                  % (p, p, p, attr, pf.src(fw) if fw is not None else "nothing", p), instance=inst)
                else:
                    chk.note("param-forward", where, "parameter %s is used but not forwarded under its name" % p)
    if npairs < 1:
        raise core.AnalysisError("no method pairs gen_atomic_grids_cider with AtomicGridsIndexer.from_tabs")


def _within_normalisation(name_node, p):
    n = pf.parent(name_node)
    while n is not None and not isinstance(n, ast.stmt):
        n = pf.parent(n)
    if isinstance(n, ast.If) and isinstance(n.test, ast.Compare) and name_node in list(ast.walk(n.test)):
        return pf.src(n.test) == "%s is None" % p
    return False


# ----------------------------------------------------------------------------
# rule 3: truncation by the per-shell Lebedev degree
# ----------------------------------------------------------------------------
def rule_truncation(chk, mod):
    fn = mod.func("gen_atomic_grids_cider")
    where = "gen_atomic_grids_cider"
    # LMAX_DICT = {v: k // 2 for k, v in LEBEDEV_ORDER.items()}
    ld = mod.assigns.get("LMAX_DICT")
    inst = "LMAX_DICT maps n_ang -> order // 2"
    okd = False
    if isinstance(ld, ast.DictComp) and len(ld.generators) == 1:
        gen = ld.generators[0]
        if pf.src(gen.iter) == "LEBEDEV_ORDER.items()" and isinstance(gen.target, ast.Tuple) \
                and len(gen.target.elts) == 2 and all(isinstance(e, ast.Name) for e in gen.target.elts):
            k, v = gen.target.elts[0].id, gen.target.elts[1].id
            if pf.src(ld.key) == v and isinstance(ld.value, ast.BinOp) and isinstance(ld.value.op, ast.FloorDiv) \
                    and pf.src(ld.value.left) == k and isinstance(ld.value.right, ast.Constant) \
                    and ld.value.right.value == 2:
                okd = True
    if ld is None:
        raise core.AnalysisError("LMAX_DICT vanished from %s" % GG)
    if okd:
        chk.ok("truncation", inst)
    else:
        chk.violation("truncation", GG, "<module>", "LMAX_DICT = %s" % pf.src(ld), ld.lineno,
                      "a Lebedev grid of algebraic order k integrates products of harmonics exactly up to "
                      "l = k // 2; LMAX_DICT must be {n_ang: k // 2 for k, n_ang in LEBEDEV_ORDER.items()}",
                      instance=inst)
    # the harmonic evaluation calls
    calls = [x for x in pf.walk_no_nested(fn) if isinstance(x, ast.Call)
             and (pf.call_name(x) or "").endswith("recursive_sph_harm_vec")]
    if not calls:
        raise core.AnalysisError("recursive_sph_harm_vec call vanished from gen_atomic_grids_cider")
    env = assigns_env(fn)
    for call in calls:
        loop = pf.enclosing(call, (ast.For,))
        if loop is None or not isinstance(loop.target, ast.Name):
            raise core.AnalysisError("harmonic evaluation is not inside a `for n in ...` loop over angular sizes")
        nvar = loop.target.id
        # output array: the .ctypes.data_as argument that is allocated with np.zeros((n, nlm))
        out = None
        for a in call.args:
            r = pf.base_name(a.func.value) if isinstance(a, ast.Call) and isinstance(a.func, ast.Attribute) else None
            if r and r in env:
                for v in env[r]:
                    if isinstance(v, ast.Call) and pf.call_name(v) in ("np.zeros", "np.empty") and v.args \
                            and isinstance(v.args[0], ast.Tuple) and len(v.args[0].elts) == 2 \
                            and _is_square_of_plus1(v.args[0].elts[1], env):
                        out = (r, v)
        if out is None:
            raise core.AnalysisError("cannot identify the ylm output array of recursive_sph_harm_vec")
        yname, alloc = out
        inst0 = "%s: %s rows == loop variable %s" % (where, yname, nvar)
        if pf.src(alloc.args[0].elts[0]) == nvar:
            chk.ok("truncation", inst0, nontrivial=False)
        else:
            raise core.AnalysisError("ylm rows are %s, not the loop variable %s" % (pf.src(alloc.args[0].elts[0]), nvar))
        # truncation statement in the same loop body, after the call, before the append
        body = loop.body
        call_st = call
        while pf.parent(call_st) is not loop:
            call_st = pf.parent(call_st)
        i_call = body.index(call_st)
        trunc = None
        append_i = None
        for i, st in enumerate(body):
            if isinstance(st, ast.Assign) and len(st.targets) == 1 and isinstance(st.targets[0], ast.Subscript) \
                    and isinstance(st.targets[0].value, ast.Name) and st.targets[0].value.id == yname:
                trunc = (i, st) if trunc is None else trunc
            if append_i is None and i > i_call and isinstance(st, ast.Assign) and any(
                    isinstance(x, ast.Name) and x.id == yname for x in ast.walk(st.value)) \
                    and isinstance(st.value, ast.Call) and pf.call_name(st.value) in STACKS:
                append_i = i
        inst = "%s: ylm[:, (LMAX_DICT[%s]+1)**2:] = 0 after the evaluation, before the append" % (where, nvar)
        if append_i is None:
            raise core.AnalysisError("append of %s to the element table not found in the shell loop" % yname)
        if trunc is None:
            chk.violation("truncation", GG, where, "no truncation of %s" % yname, call_st.lineno,
                          "harmonics above the degree the shell's Lebedev grid supports are not zeroed",
                          instance=inst)
            continue
        ti, tst = trunc
        tgt = tst.targets[0]
        sl = tgt.slice
        good_shape = (isinstance(sl, ast.Tuple) and len(sl.elts) == 2
                      and isinstance(sl.elts[0], ast.Slice) and sl.elts[0].lower is None and sl.elts[0].upper is None
                      and isinstance(sl.elts[1], ast.Slice) and sl.elts[1].upper is None and sl.elts[1].step is None
                      and sl.elts[1].lower is not None)
        zero = isinstance(tst.value, ast.Constant) and tst.value.value in (0, 0.0)
        msg = None
        if not good_shape or not zero:
            msg = "the store `%s` is not of the form %s[:, K:] = 0" % (pf.src(tst), yname)
        else:
            lower = sl.elts[1].lower
            lname = _is_square_of_plus1(lower, env)
            if lname is None:
                msg = "lower bound %s is not (l+1)**2" % pf.src(lower)
            else:
                lv = env.get(lname, [])
                if len(lv) != 1 or not (isinstance(lv[0], ast.Subscript) and pf.src(lv[0].value) == "LMAX_DICT"):
                    msg = "%s is not read from LMAX_DICT" % lname
                elif pf.src(lv[0].slice) != nvar:
                    msg = ("the degree is LMAX_DICT[%s], not LMAX_DICT[%s] of the shell being tabulated"
                           % (pf.src(lv[0].slice), nvar))
        if msg is None and not (i_call < ti < append_i):
            msg = "the truncation is not between the harmonic evaluation and the append to the table"
        if msg:
            chk.violation("truncation", GG, where, pf.src(tst), tst.lineno, msg, instance=inst)
        else:
            chk.ok("truncation", inst)



# ----------------------------------------------------------------------------
# owner lookup: atom a owns the half-open block ga_loc[a] <= g < ga_loc[a+1]
# ----------------------------------------------------------------------------
def _resolve_local(fn, e, depth=4):
    e = strip_layout(e)
    while isinstance(e, ast.Name) and depth > 0:
        ds = local_defs(fn, e.id)
        if len(ds) != 1:
            break
        e = strip_layout(ds[0])
        depth -= 1
    return e


def _kw(call, name, pos=None):
    for k in call.keywords:
        if k.arg == name:
            return k.value
    if pos is not None and len(call.args) > pos:
        return call.args[pos]
    return None


def rule_owner_map(chk, imod):
    fn = imod.func("AtomicGridsIndexer.set_idx")
    init = imod.func("AtomicGridsIndexer.__init__")
    where = "AtomicGridsIndexer.set_idx"
    # the block table: self.ga_loc = self.rad_loc[self.ra_loc]  (natm + 1 offsets: starts of the atoms + total)
    gdef = [x for x in pf.walk_no_nested(init) if isinstance(x, ast.Assign) and pf.is_self_attr(x.targets[0], "ga_loc")]
    if len(gdef) != 1:
        raise core.AnalysisError("AtomicGridsIndexer.__init__ no longer defines self.ga_loc once")
    LOC = "self.ga_loc"
    asg = [x for x in pf.walk_no_nested(fn) if isinstance(x, ast.Assign) and pf.is_self_attr(x.targets[0], "iatom_list")]
    if len(asg) != 1:
        raise core.AnalysisError("set_idx no longer assigns self.iatom_list exactly once")
    e = _resolve_local(fn, asg[0].value)
    inst = "%s: iatom_list[i] is the atom a with ga_loc[a] <= idx_map[i] < ga_loc[a+1]" % where
    minus1 = False
    if isinstance(e, ast.BinOp) and isinstance(e.op, ast.Sub) and isinstance(e.right, ast.Constant) and e.right.value == 1:
        minus1, e = True, _resolve_local(fn, e.left)

    def bad(msg, node=None):
        node = node or asg[0]
        chk.violation("owner-map", GI, where, pf.src(node)[:110], node.lineno, msg, instance=inst)

    if isinstance(e, ast.Call) and (pf.call_name(e) or "").split(".")[-1] in ("searchsorted", "digitize"):
        kind = pf.call_name(e).split(".")[-1]
        if kind == "searchsorted":
            hay, side = strip_layout(e.args[0]) if e.args else None, _kw(e, "side", 2)
            sidev = side.value if isinstance(side, ast.Constant) else ("left" if side is None else None)
            right = sidev == "right"
        else:
            hay = strip_layout(_kw(e, "bins", 1))
            r = _kw(e, "right", 2)
            right = not (isinstance(r, ast.Constant) and r.value is True)  # digitize default: bins[i-1] <= x < bins[i]
            sidev = "right" if right else "left"
        h = pf.src(hay) if hay is not None else ""
        if h == LOC + "[1:]" or h == LOC + "[1:-1]":
            need_minus = False
        elif h in (LOC, LOC + "[:-1]"):
            need_minus = True
        else:
            raise core.AnalysisError("%s: bisection over %s, not over the atom block table %s" % (where, h, LOC))
        if not right:
            bad("the owner of grid point g is the number of block boundaries <= g (half-open blocks ga_loc[a] <= g < "
                "ga_loc[a+1]); %s(..., side=%r) counts the boundaries < g, so the first point of every atom block "
                "is attributed to the previous atom" % (kind, sidev), e)
        elif need_minus != minus1:
            bad("bisection over %s %s a `- 1`: the result is off by one atom for every point" % (
                h, "needs" if need_minus else "must not be followed by"), e)
        else:
            chk.ok("owner-map", inst + " (%s over %s, side='right')" % (kind, h))
        return
    base = _resolve_local(fn, e.value) if isinstance(e, ast.Subscript) else None
    if isinstance(base, ast.Call) and (pf.call_name(base) or "").endswith("repeat"):
        c = base
        reps = _kw(c, "repeats", 1)
        if reps is not None and pf.src(reps) in ("np.diff(%s)" % LOC, "%s[1:] - %s[:-1]" % (LOC, LOC)) \
                and "arange" in pf.src(c.args[0]):
            chk.ok("owner-map", inst + " (np.repeat over block sizes)")
            return
        raise core.AnalysisError("%s: np.repeat form not recognised: %s" % (where, pf.src(c)[:80]))
    if isinstance(e, ast.Subscript) and isinstance(e.value, ast.Name) and not minus1:
        tname = e.value.id
        fills = []
        for lp in pf.walk_no_nested(fn):
            if isinstance(lp, ast.For) and isinstance(lp.target, ast.Name):
                for st in lp.body:
                    if isinstance(st, ast.Assign) and isinstance(st.targets[0], ast.Subscript) \
                            and isinstance(st.targets[0].value, ast.Name) and st.targets[0].value.id == tname:
                        fills.append((lp, st))
        if len(fills) != 1:
            raise core.AnalysisError("%s: owner table %s is not filled by exactly one per-atom loop" % (where, tname))
        lp, st = fills[0]
        a = lp.target.id
        sl = st.targets[0].slice
        okf = (isinstance(sl, ast.Slice) and sl.step is None and sl.lower is not None and sl.upper is not None
               and pf.src(sl.lower) == "%s[%s]" % (LOC, a) and pf.src(sl.upper) in ("%s[%s + 1]" % (LOC, a), "%s[1 + %s]" % (LOC, a))
               and pf.src(st.value) == a)
        okr = pf.src(lp.iter) in ("range(self.natm)", "range(len(%s) - 1)" % LOC, "range(%s.size - 1)" % LOC)
        idx_ok = pf.src(e.slice) in ("self.idx_map", "idx") or pf.src(_resolve_local(fn, e.slice)) in ("self.idx_map", "idx")
        if okf and okr and idx_ok:
            chk.ok("owner-map", inst + " (per-atom fill of %s[ga_loc[a]:ga_loc[a+1]] = a, read at idx_map)" % tname)
        else:
            bad("the per-atom fill `%s` in `for %s in %s` read at [%s] does not assign atom a to exactly the half-open "
                "block ga_loc[a]:ga_loc[a+1] of every atom" % (pf.src(st), a, pf.src(lp.iter), pf.src(e.slice)), st)
        return
    raise core.AnalysisError("%s: the computation of iatom_list (%s) has a shape the owner rule does not know"
                             % (where, pf.src(asg[0].value)[:80]))

# ----------------------------------------------------------------------------
# memoisation: every varying input of the cached computation is part of the key
# ----------------------------------------------------------------------------
def _defs_with_mutations(fn):
    """name -> [value expressions that may flow into it]: assignments (also element stores and tuple targets),
    augmented assignments, loop targets, and growth through .append/.extend/.update/.setdefault"""
    out = {}
    for st in pf.walk_no_nested(fn):
        if isinstance(st, ast.Assign):
            for t in st.targets:
                for tt in (t.elts if isinstance(t, (ast.Tuple, ast.List)) else [t]):
                    r = pf.base_name(tt)
                    if r:
                        out.setdefault(r, []).append((st, st.value))
                        if isinstance(tt, ast.Subscript):
                            out[r].append((st, tt.slice))
        elif isinstance(st, ast.AugAssign):
            r = pf.base_name(st.target)
            if r:
                out.setdefault(r, []).append((st, st.value))
        elif isinstance(st, ast.For):
            for n in ast.walk(st.target):
                if isinstance(n, ast.Name):
                    out.setdefault(n.id, []).append((st, st.iter))
        elif isinstance(st, ast.Expr) and isinstance(st.value, ast.Call) and isinstance(st.value.func, ast.Attribute) \
                and st.value.func.attr in ("append", "extend", "update", "setdefault", "insert", "add"):
            r = pf.base_name(st.value.func.value)
            if r:
                for a in st.value.args:
                    out.setdefault(r, []).append((st, a))
    return out


def _memo_sites(mod, fn):
    """[(cache name, key expr, store stmt, stored value expr, membership test node)]"""
    tests = {}
    for n in pf.walk_no_nested(fn):
        if isinstance(n, ast.Compare) and len(n.ops) == 1 and isinstance(n.ops[0], (ast.In, ast.NotIn)) \
                and isinstance(n.comparators[0], ast.Name):
            tests.setdefault(n.comparators[0].id, []).append(n)
        if isinstance(n, ast.Call) and isinstance(n.func, ast.Attribute) and n.func.attr == "get" \
                and isinstance(n.func.value, ast.Name) and n.args:
            tests.setdefault(n.func.value.id, []).append(n)
    out = []
    for st in pf.walk_no_nested(fn):
        if not isinstance(st, ast.Assign):
            continue
        for t in st.targets:
            elts = list(t.elts) if isinstance(t, (ast.Tuple, ast.List)) else [t]
            vals = list(st.value.elts) if isinstance(t, (ast.Tuple, ast.List)) and isinstance(st.value, ast.Tuple) \
                and len(st.value.elts) == len(elts) else [st.value] * len(elts)
            for tt, v in zip(elts, vals):
                if isinstance(tt, ast.Subscript) and isinstance(tt.value, ast.Name) and tt.value.id in tests:
                    for tn in tests[tt.value.id]:
                        k = tn.left if isinstance(tn, ast.Compare) else tn.args[0]
                        if pf.src(k) == pf.src(tt.slice):
                            out.append((tt.value.id, tt.slice, st, v, tn))
                            break
    return out


def rule_memo_key(chk, mod):
    n_inst = 0
    fns = [(fn.name, fn) for fn in mod.functions.values()]
    for cname, cls in mod.classes.items():
        fns += [("%s.%s" % (cname, n), f) for n, f in pf.methods(cls).items()]
    for where, fn in fns:
        sites = _memo_sites(mod, fn)
        if not sites:
            continue
        defs = _defs_with_mutations(fn)
        params = {a.arg for a in fn.args.args + fn.args.kwonlyargs if a.arg not in ("self", "cls")}
        if fn.args.kwarg:
            params.add(fn.args.kwarg.arg)
        if fn.args.vararg:
            params.add(fn.args.vararg.arg)
        loopvars = {}
        for x in pf.walk_no_nested(fn):
            if isinstance(x, ast.For):
                for n in ast.walk(x.target):
                    if isinstance(n, ast.Name):
                        loopvars[n.id] = x
        done = set()
        for cache, key, st, val, tn in sites:
            if (cache, pf.src(key)) in done:
                continue
            done.add((cache, pf.src(key)))
            persistent = cache in mod.assigns or any(isinstance(x, ast.Global) and cache in x.names for x in ast.walk(fn)) \
                or cache not in defs or not any(isinstance(v, (ast.Dict, ast.Call)) for s_, v in defs.get(cache, [])
                                                if isinstance(s_, ast.Assign) and isinstance(s_.targets[0], ast.Name))
            # key components
            kexprs = [key]
            if isinstance(key, ast.Name):
                kexprs = [v for s_, v in defs.get(key.id, []) if v is not None and not (isinstance(v, ast.Constant) and v.value is None)]
            kcomp = set()
            for ke in kexprs:
                kcomp |= {n.id for n in ast.walk(ke) if isinstance(n, ast.Name)}
            if isinstance(key, ast.Name):
                kcomp.add(key.id)
            # names upstream of key components (indices the key is computed from)
            upstream, todo = set(), list(kcomp)
            while todo:
                nm = todo.pop()
                if nm in upstream:
                    continue
                upstream.add(nm)
                for s_, v in defs.get(nm, []):
                    todo += [n.id for n in ast.walk(v) if isinstance(n, ast.Name)]
            # inputs known to be empty/None whenever the cache is used (guards of the key definition and of the store)
            neutral = set()
            guard_nodes = [st] + [s_ for ke in ([key] if isinstance(key, ast.Name) else []) for s_, v in defs.get(ke.id, [])]
            for gn in guard_nodes:
                for t, pol, kind in cfgm.conditions_at(gn):
                    tt = t
                    neg = False
                    while isinstance(tt, ast.UnaryOp) and isinstance(tt.op, ast.Not):
                        tt, neg = tt.operand, not neg
                    if isinstance(tt, ast.Name) and (neg == pol):
                        neutral.add(tt.id)  # `if not kwargs:` -> kwargs is empty here
                    if isinstance(tt, ast.Compare) and isinstance(tt.left, ast.Name) and len(tt.ops) == 1 \
                            and isinstance(tt.comparators[0], ast.Constant) and tt.comparators[0].value is None \
                            and ((isinstance(tt.ops[0], ast.Is) and pol != neg) or (isinstance(tt.ops[0], ast.IsNot) and pol == neg)):
                        neutral.add(tt.left.id)
            # what the cached value is computed from, cut at the key components
            reached, todo = set(), [n.id for n in ast.walk(val) if isinstance(n, ast.Name)]
            while todo:
                nm = todo.pop()
                if nm in reached or nm in kcomp or nm == cache:
                    continue
                reached.add(nm)
                for s_, v in defs.get(nm, []):
                    if any(pf.base_name(t_) == cache for t_ in (s_.targets if isinstance(s_, ast.Assign) else [])
                           if isinstance(t_, ast.Subscript)):
                        continue
                    if isinstance(v, ast.Subscript) and pf.base_name(v) == cache:
                        continue  # the hit path re-reads the cache
                    todo += [n.id for n in ast.walk(v) if isinstance(n, ast.Name)]
            varying = set()
            for nm in reached:
                if nm in neutral:
                    continue
                if nm in loopvars and nm not in upstream and any(x is st for x in ast.walk(loopvars[nm])):
                    varying.add(nm)  # variable of a loop that encloses the cached computation
                elif persistent and nm in params and nm not in upstream:
                    varying.add(nm)
            n_inst += 1
            kind = "module-level (persists across calls)" if persistent else "per-call"
            inst = "%s: %s cache %s[%s] is keyed by everything its values vary with" % (where, kind, cache, pf.src(key))
            if not varying:
                chk.ok("memo-key", inst, detail="key components %s" % sorted(kcomp - {key.id if isinstance(key, ast.Name) else ""}))
            else:
                chk.violation("memo-key", GG if mod.rel == GG else mod.rel, where, "%s[%s]" % (cache, pf.src(key)), st.lineno,
                              "the value stored in the %s cache %s is computed from %s, which %s and %s not part of the "
                              "key (%s): a later lookup with a different %s returns the entry computed for the earlier one"
                              % (kind, cache, ", ".join(sorted(varying)),
                                 "can differ between calls" if persistent else "changes between iterations",
                                 "is" if len(varying) == 1 else "are",
                                 ", ".join(pf.src(k_)[:80] for k_ in kexprs), sorted(varying)[0]), instance=inst)
    chk.count("memo tables examined", n_inst)


# ----------------------------------------------------------------------------
# round 11: fork of pyscf.dft.gen_grid.gen_atomic_grids; table extents in sph_harm.c; minimum lmax
# ----------------------------------------------------------------------------
PYSCF_REL = "pyscf/dft/gen_grid.py"


def _site_packages_with(rel):
    import glob as _glob
    env = os.environ.get("VERIF_SITE_PACKAGES")
    for c in ([env] if env else sorted(_glob.glob("/venv/lib/python3*/site-packages"))):
        if c and os.path.exists(os.path.join(c, rel)):
            return c
    raise core.AnalysisError("installed source %s not found (set VERIF_SITE_PACKAGES): the sibling implementation "
                             "cannot be read" % rel)


def _grid_facts(mod, fn, wrappers):
    """configuration facts of an atomic-grid generator (names of locals do not matter)"""
    params = {a.arg for a in fn.args.args + fn.args.kwonlyargs}
    grid_param = "atom_grid" if "atom_grid" in params else None
    facts = {}
    env = {}
    for x in pf.walk_no_nested(fn):
        if isinstance(x, ast.Assign) and len(x.targets) == 1 and isinstance(x.targets[0], ast.Name):
            env.setdefault(x.targets[0].id, []).append(x.value)

    def callee_family(e, depth=2):
        out = set()
        for c in ast.walk(e):
            if isinstance(c, ast.Call):
                nm = pf.call_name(c)
                if nm is None:
                    continue
                last = nm.split(".")[-1]
                if depth > 0 and nm in wrappers:
                    for alt in wrappers[nm]:
                        out |= callee_family(alt, depth - 1)
                else:
                    out.add(last)
        return out
    for c in pf.walk_no_nested(fn):
        if not isinstance(c, ast.Call):
            continue
        f = c.func
        nm = pf.call_name(c)
        # calls of the generator's own parameters (radial scheme, pruning)
        if isinstance(f, ast.Name) and f.id in params and f.id != "callable":
            facts[("param-call", f.id)] = (len(c.args), any(k.arg is None for k in c.keywords))
            if f.id == "radi_method" and len(c.args) >= 2 and isinstance(c.args[1], ast.Name):
                fam = set()
                for v in env.get(c.args[1].id, []):
                    fam |= callee_family(v)
                facts[("charge-of-atom",)] = tuple(sorted(fam))
        # level defaults
        if nm and nm.split(".")[-1] in ("_default_rad", "_default_ang"):
            facts[("default", nm.split(".")[-1])] = len(c.args)
        # dictionary lookups on atom_grid
        if isinstance(f, ast.Attribute) and f.attr == "get" and isinstance(f.value, ast.Name) and f.value.id == grid_param and c.args:
            k = c.args[0]
            if isinstance(k, ast.Constant):
                facts[("atom_grid-key", k.value)] = True
            else:
                fb = c.args[1] if len(c.args) > 1 else None
                facts[("atom_grid-per-atom", "falls back to the 'default' entry")] = bool(
                    fb is not None and not (isinstance(fb, ast.Constant) and fb.value is None))
    for x in pf.walk_no_nested(fn):
        if isinstance(x, ast.Subscript) and isinstance(x.value, ast.Name) and x.value.id == grid_param \
                and isinstance(x.slice, ast.Constant):
            facts[("atom_grid-key", x.slice.value)] = True
        if isinstance(x, ast.Compare) and len(x.ops) == 1 and isinstance(x.ops[0], (ast.In, ast.NotIn)) \
                and isinstance(x.comparators[0], ast.Name) and x.comparators[0].id.isupper():
            facts[("validated-against", x.comparators[0].id)] = True
    # parameters: effective default (after an `if p is None: p = X` sentinel) and the meaning of None
    args = fn.args.args
    dflt = dict(zip([a.arg for a in args[len(args) - len(fn.args.defaults):]], fn.args.defaults))
    remap = {}
    for st in fn.body:
        if isinstance(st, ast.If) and not st.orelse and len(st.body) == 1 and isinstance(st.test, ast.Compare) \
                and isinstance(st.test.left, ast.Name) and len(st.test.ops) == 1 and isinstance(st.test.ops[0], ast.Is) \
                and isinstance(st.test.comparators[0], ast.Constant) and st.test.comparators[0].value is None \
                and isinstance(st.body[0], ast.Assign) and isinstance(st.body[0].targets[0], ast.Name) \
                and st.body[0].targets[0].id == st.test.left.id:
            remap[st.test.left.id] = st.body[0].value
    for p_, d in dflt.items():
        eff = remap.get(p_, d) if (isinstance(d, ast.Constant) and d.value is None) else d
        txt = pf.src(eff).replace("numpy.", "np.")
        if txt in ("dict()", "{}"):
            txt = "{}"
        facts[("effective-default", p_)] = txt
    for p_ in params:
        tested = False
        for x in pf.walk_no_nested(fn):
            if isinstance(x, ast.Call) and pf.call_name(x) == "callable" and x.args and isinstance(x.args[0], ast.Name) \
                    and x.args[0].id == p_:
                tested = True
            if isinstance(x, ast.Compare) and isinstance(x.left, ast.Name) and x.left.id == p_ and len(x.ops) == 1 \
                    and isinstance(x.ops[0], (ast.Is, ast.IsNot)) and isinstance(x.comparators[0], ast.Constant) \
                    and x.comparators[0].value is None and p_ not in remap:
                tested = True
        if tested and p_ not in remap:
            facts[("None-is-a-value", p_)] = True  # e.g. prune=None means "no pruning"
        elif p_ in remap:
            facts[("None-remapped", p_)] = pf.src(remap[p_])
    if ("atom_grid-per-atom", "falls back to the 'default' entry") not in facts:
        facts[("atom_grid-per-atom", "falls back to the 'default' entry")] = False
    return facts


def rule_pyscf_mirror(chk, mod):
    site = _site_packages_with(PYSCF_REL)
    ptree = core.Tree(site)
    pmod = pf.Module(ptree, PYSCF_REL)
    if "gen_atomic_grids" not in pmod.functions:
        raise core.AnalysisError("pyscf.dft.gen_grid.gen_atomic_grids not found in the installed source")
    cfn = mod.func("gen_atomic_grids_cider")
    # one level of module-level wrappers of the fork (def _grid_charge(symb): return elements_proton(...))
    wrappers = {}
    for name, f in getattr(mod, "orig", mod).functions.items():
        rets = [x for x in pf.walk_no_nested(f) if isinstance(x, ast.Return) and x.value is not None]
        if len(rets) == 1 and len(f.body) <= 2:
            wrappers.setdefault(name, []).append(rets[0].value)
    for n in ast.walk(getattr(mod, "orig", mod).ast):
        if isinstance(n, ast.FunctionDef) and n.name not in getattr(mod, "orig", mod).functions:
            rets = [x for x in pf.walk_no_nested(n) if isinstance(x, ast.Return) and x.value is not None]
            if len(rets) == 1 and len(n.body) <= 2 and pf.enclosing_class(n) is None and pf.enclosing_func(n) is None:
                wrappers.setdefault(n.name, []).append(rets[0].value)
    pf_ = _grid_facts(pmod, pmod.functions["gen_atomic_grids"], {})
    cf_ = _grid_facts(mod, cfn, wrappers)
    chk.extra["pyscf_source"] = os.path.join(site, PYSCF_REL)
    for key, want in sorted(pf_.items(), key=str):
        got = cf_.get(key)
        label = " ".join(str(k) for k in key)
        inst = "gen_atomic_grids_cider mirrors pyscf.dft.gen_grid.gen_atomic_grids: %s" % label
        okf = got == want
        if key == ("charge-of-atom",) and got is not None:
            okf = set(want) <= set(got)
        if key[0] == "None-is-a-value":
            okf = got is True
            if not okf and ("None-remapped", key[1]) in cf_:
                chk.violation("pyscf-mirror", GG, "gen_atomic_grids_cider", "None for %s" % key[1], cfn.lineno,
                              "in pyscf's gen_atomic_grids `%s=None` is a value of its own (the function tests it: no "
                              "%s is applied), and CiderGrids.gen_atomic_grids forwards self.%s unchanged; the fork maps "
                              "None to `%s`, so a Grids object configured with %s=None gets a different grid"
                              % (key[1], key[1], key[1], cf_[("None-remapped", key[1])], key[1]), instance=inst)
                continue
        if key[0] == "param-call" and got is not None:
            okf = got[0] == want[0] and got[1] == want[1]
        if okf:
            chk.ok("pyscf-mirror", inst, detail=str(want))
        elif key[0] == "validated-against":
            # an input PySCF accepts (after remapping) and the fork rejects with an exception: loud, not a silently
            # different grid -- recorded, not a violation of "same points for the same settings"
            chk.ok("pyscf-mirror", inst + " (fork rejects instead: noted)", nontrivial=False)
            chk.note("pyscf-mirror", "gen_atomic_grids_cider",
                     "pyscf consults %s (accepts and remaps such n_ang with a warning); the fork raises ValueError for them"
                     % key[1])
        else:
            chk.violation("pyscf-mirror", GG, "gen_atomic_grids_cider", label, cfn.lineno,
                          "the installed pyscf.dft.gen_grid.gen_atomic_grids has `%s` = %s, but its CIDER fork has %s: "
                          "with the same settings the CIDER grid is not PySCF's grid (e.g. atom_grid={'default': ...} or "
                          "ghost atoms give a different number of points)" % (label, want, got), instance=inst)


def rule_table_extent(chk):
    from sa import cfacts
    import re as _re
    n_tab, n_idx = 0, 0
    for rel in ("mod_cider/sph_harm.c", "mod_cider/cider_grids.c"):
        tu = cfacts.TU(chk.tree, rel)
        for fname, f in tu.funcs.items():
            loops = []

            def visit(n):
                nonlocal n_tab, n_idx
                pushed = False
                if n.get("kind") == "ForStmt":
                    ks = cfacts.kids(n)
                    cond = [k for k in ks[:-1] if k.get("kind") == "BinaryOperator" and k.get("opcode") in ("<", "<=")]
                    if cond:
                        ck = cfacts.kids(cond[0])
                        lhs, rhs = cfacts.strip(ck[0]), cfacts.strip(ck[1])
                        var = lhs.get("referencedDecl", {}).get("name") if lhs.get("kind") == "DeclRefExpr" else None
                        bound = int(rhs["value"]) if rhs.get("kind") == "IntegerLiteral" else None
                        loops.append((var, cond[0].get("opcode"), bound, tu.text_of(rhs)))
                        pushed = True
                if n.get("kind") == "ArraySubscriptExpr":
                    ks = cfacts.kids(n)
                    base, idx = cfacts.strip(ks[0]), cfacts.strip(ks[1])
                    m = _re.search(r"\[(\d+)\]$", base.get("type", {}).get("qualType", "")) if base.get("kind") == "DeclRefExpr" else None
                    if m:
                        size = int(m.group(1))
                        n_idx += 1
                        tname = base.get("referencedDecl", {}).get("name")
                        inst = "%s:%s: index of the fixed-size table %s[%d] stays inside it" % (rel, fname, tname, size)
                        why = None
                        if idx.get("kind") == "IntegerLiteral":
                            if int(idx["value"]) >= size:
                                why = "constant index %s" % idx["value"]
                        elif idx.get("kind") == "DeclRefExpr":
                            var = idx.get("referencedDecl", {}).get("name")
                            lp = [l for l in loops if l[0] == var]
                            if lp:
                                v, op, bound, btxt = lp[-1]
                                limit = None if bound is None else (bound if op == "<" else bound + 1)
                                if limit is None:
                                    why = "loop variable %s runs up to the runtime value `%s`" % (var, btxt)
                                elif limit > size:
                                    why = "loop variable %s runs up to %d" % (var, limit)
                            else:
                                why = None  # not a loop variable: not decided here
                                chk.note("table-extent", "%s:%s" % (rel, fname), "index `%s` of %s is not a loop variable: not decided"
                                         % (tu.text_of(idx), tname))
                        else:
                            chk.note("table-extent", "%s:%s" % (rel, fname), "index `%s` of %s: not decided" % (tu.text_of(idx), tname))
                        if why:
                            chk.violation("table-extent", "ciderpress/lib/" + rel, fname, "%s[%s]" % (tname, tu.text_of(idx)),
                                          tu.line_of(n),
                                          "the table %s has %d entries, but %s: for larger values the read runs past the "
                                          "table and returns whatever follows it in memory (silently wrong harmonics)"
                                          % (tname, size, why), instance=inst)
                        else:
                            chk.ok("table-extent", inst)
                for k in cfacts.kids(n):
                    visit(k)
                if pushed:
                    loops.pop()
            visit(f)
    chk.ok("table-extent", "sph_harm.c, cider_grids.c: %d subscripts of fixed-size tables examined" % n_idx, nontrivial=False)


def rule_lmax_min(chk, mod, imod):
    """the indexer reads fixed columns of the harmonic table: the producer must reject an lmax that does not provide them"""
    init = imod.func("AtomicGridsIndexer.__init__")
    cols = []
    for x in pf.walk_no_nested(init):
        if isinstance(x, ast.Subscript) and isinstance(x.value, ast.Name) and x.value.id == "ylm":
            idx = x.slice.elts if isinstance(x.slice, ast.Tuple) else [x.slice]
            if len(idx) == 2:
                for c in ast.walk(idx[1]):
                    if isinstance(c, ast.Constant) and isinstance(c.value, int):
                        cols.append(c.value)
    if not cols:
        chk.ok("lmax-min", "AtomicGridsIndexer.__init__ reads no fixed column of ylm", nontrivial=False)
        return
    need = 0
    while (need + 1) ** 2 <= max(cols):
        need += 1
    prod = mod.func("gen_atomic_grids_cider")
    wparam, _ = producer_width_param(prod)
    inst = "gen_atomic_grids_cider rejects %s < %d (the indexer reads column %d of ylm)" % (wparam, need, max(cols))
    okv = False
    holders = [prod] + [f for c in mod.classes.values() for n, f in pf.methods(c).items() if n == "__init__"]
    for h in holders:
        for cond, st in inline.asserted_conditions(h):
            if isinstance(cond, ast.Compare) and len(cond.ops) == 1 and isinstance(cond.comparators[0], ast.Constant):
                left = pf.src(cond.left)
                if left not in (wparam, "lmax", "self.lmax"):
                    continue
                v = cond.comparators[0].value
                if (isinstance(cond.ops[0], ast.GtE) and v >= need) or (isinstance(cond.ops[0], ast.Gt) and v >= need - 1):
                    okv = True
    if okv:
        chk.ok("lmax-min", inst)
    else:
        chk.violation("lmax-min", GG, "gen_atomic_grids_cider", "%s >= %d" % (wparam, need), prod.lineno,
                      "AtomicGridsIndexer.__init__ reads column %d of the harmonic table (grid directions from the l=1 "
                      "harmonics), which exists only for lmax >= %d, and the C tabulation writes the l=1 entries "
                      "unconditionally; neither gen_atomic_grids_cider nor CiderGrids.__init__ rejects a smaller lmax"
                      % (max(cols), need), instance=inst)


# ----------------------------------------------------------------------------
def _analyse_own(chk):
    # helper calls are inlined one level (sa.inline) so that the rules see one body per anchored function
    prog = inline.inlined_program(chk.tree, [GG, GI])
    chk.count("helper calls inlined", sum(m.inlined for m in prog.modules.values()))
    mod = prog.module(GG)
    imod = prog.module(GI)
    chk.rule("reindex", "reorder/filter of coords+weights => set_idx of the (composed) index on every path")
    chk.rule("padding", "padding rows: same count on coords, zero weights, set_padding(count) on every path")
    chk.rule("weights-first", "set_weights(atom-ordered self.weights) precedes the first set_idx; indexer rebuilt")
    chk.rule("width-binding", "producer table width parameter bound to the lmax asserted by from_tabs; tables by name")
    chk.rule("param-forward", "normalised parameters are forwarded")
    chk.rule("truncation", "per-shell truncation of ylm by LMAX_DICT[n]")
    chk.guard(rule_protocol, mod)
    chk.guard(rule_width, mod, imod)
    chk.guard(rule_truncation, mod)
    chk.rule("memo-key", "tables used as memo in grid generation are keyed by every varying input of the cached value")
    chk.guard(rule_memo_key, mod)
    chk.floor("memo-key", 1, "per-element tables of gen_atomic_grids_cider")
    chk.rule("pyscf-mirror", "gen_atomic_grids_cider keeps every configuration step of the installed pyscf gen_atomic_grids")
    chk.rule("table-extent", "fixed-size C tables are not indexed by loop variables with runtime bounds")
    chk.rule("lmax-min", "the grid generator rejects an lmax too small for the columns the indexer reads")
    chk.guard(rule_pyscf_mirror, mod)
    chk.guard(rule_table_extent)
    chk.guard(rule_lmax_min, mod, imod)
    chk.floor("pyscf-mirror", 5, "param calls, defaults, charge, atom_grid keys")
    chk.floor("table-extent", 1, "summary instance")
    chk.floor("lmax-min", 1, "ylm[:, [3, 1, 2]]")
    chk.rule("owner-map", "iatom_list assigns each point to the atom whose half-open block [ga_loc[a], ga_loc[a+1]) contains it")
    chk.guard(rule_owner_map, imod)
    chk.floor("owner-map", 1, "AtomicGridsIndexer.set_idx")
    # consumer side of the protocol: set_idx needs all_weights, set_padding stores its argument
    def _consumer(c):
        si = imod.func("AtomicGridsIndexer.set_idx")
        sp = imod.func("AtomicGridsIndexer.set_padding")
        sw = imod.func("AtomicGridsIndexer.set_weights")
        if "self.all_weights.size" in pf.src(si):
            c.ok("weights-first", "AtomicGridsIndexer.set_idx reads self.all_weights.size", nontrivial=False)
        else:
            c.note("weights-first", GI, "set_idx no longer reads all_weights: the ordering requirement may be obsolete")
        a = [x for x in pf.walk_no_nested(sp) if isinstance(x, ast.Assign) and pf.is_self_attr(x.targets[0], "padding")]
        if len(a) == 1 and isinstance(a[0].value, ast.Name) and a[0].value.id == sp.args.args[1].arg:
            c.ok("padding", "AtomicGridsIndexer.set_padding stores its argument", nontrivial=False)
        else:
            raise core.AnalysisError("set_padding no longer stores its argument in self.padding")
        a = [x for x in pf.walk_no_nested(sw) if isinstance(x, ast.Assign) and pf.is_self_attr(x.targets[0], "all_weights")]
        if not a:
            raise core.AnalysisError("set_weights no longer assigns self.all_weights")
    chk.guard(_consumer)
    chk.floor("reindex", 3, "2 reorder pairs x (pairing, set_idx) + identity set_idx + fresh-path")
    chk.floor("padding", 3, "2 padding blocks x (pairing, set_padding) + recomputed padding in prune_by_density_")
    chk.floor("weights-first", 2, "2 set_idx sites in build + set_weights + build_indexer")
    chk.floor("width-binding", 3, "producer, consumer, call pair, 4 tables")
    chk.floor("param-forward", 2, "atom_grid, radi_method, level, prune")
    chk.floor("truncation", 1, "LMAX_DICT + one truncation store")
    chk.assumptions += [
        "coords/weights of a CiderGrids object are only re-ordered by methods of CiderGrids (tests/utilities "
        "that copy idx_map by hand are outside the rule)",
        "get_partition returns points in atom order (PySCF)",
    ]
    chk.not_decided += [
        "that idx_map is an injection with matching coordinates/weights/atoms for a concrete molecule (runtime data)",
        "orthonormality of the tabulated harmonics under each shell's quadrature (numerical)",
        "equality of points/weights with pyscf.dft.gen_grid.Grids for the same settings (needs execution)",
    ]


def analyse(chk):
    _analyse_own(chk)
    chk.guard(lambda c_: core.include_findings(c_, 'C06', files=['ciderpress/dft/grids_indexer.py', 'ciderpress/pyscf/gen_cider_grid.py'], rules=['key-domain'],
                                               why='per-atom grid / harmonic tables must be looked up with the key function they were produced with'))
    chk.guard(lambda c_: core.include_findings(c_, 'C10', files=['ciderpress/lib/mod_cider/cider_grids.c', 'ciderpress/lib/mod_cider/sph_harm.c'], rules=None,
                                               why='a data race in the harmonic tabulation corrupts ylm'))



def _seed_cache(with_prune):
    def fn(text):
        a = "            rad, dr = radi_method(n_rad, chg, ia, **kwargs)\n"
        b = "            dr_tab[symb] = np.concatenate(drs).astype(np.float64)\n"
        c = "\ndef gen_atomic_grids_cider("
        if a not in text or b not in text or c not in text:
            return None
        key = "(symb, radi_method, n_rad, n_ang, full_lmax%s)" % (", prune" if with_prune else "")
        text = text.replace(c, "\n_ELEMENT_TAB_CACHE = {}\n\n" + c, 1)
        text = text.replace(a, "            cache_key = None\n            if not kwargs:\n                cache_key = %s\n"
                               "                if cache_key in _ELEMENT_TAB_CACHE:\n"
                               "                    (atom_grids_tab[symb], lmax_tab[symb], rad_loc_tab[symb], ylm_tab[symb],\n"
                               "                     ylm_loc_tab[symb], rad_tab[symb], dr_tab[symb]) = _ELEMENT_TAB_CACHE[cache_key]\n"
                               "                    continue\n" % key + a, 1)
        return text.replace(b, b + "            if cache_key is not None:\n                _ELEMENT_TAB_CACHE[cache_key] = (\n"
                                   "                    atom_grids_tab[symb], lmax_tab[symb], rad_loc_tab[symb], ylm_tab[symb],\n"
                                   "                    ylm_loc_tab[symb], rad_tab[symb], dr_tab[symb])\n", 1)
    return fn



def _revert_fac_list(text):
    a = "#define FAC_LIST(m) (((m)&1) ? SQRT2 : -SQRT2)\n"
    if a not in text or "FAC_LIST(m)" not in text.replace(a, ""):
        return None
    tab = ("const double FAC_LIST[24] = {-SQRT2, SQRT2, -SQRT2, SQRT2, -SQRT2, SQRT2,\n"
           "                             -SQRT2, SQRT2, -SQRT2, SQRT2, -SQRT2, SQRT2,\n"
           "                             -SQRT2, SQRT2, -SQRT2, SQRT2, -SQRT2, SQRT2,\n"
           "                             -SQRT2, SQRT2, -SQRT2, SQRT2, -SQRT2, SQRT2};\n")
    return text.replace(a, tab).replace("FAC_LIST(m)", "FAC_LIST[m]")



def _seed_none_prune(text):
    a = "    prune=nwchem_prune,\n    full_lmax"
    b = "    if atom_grid is None:\n        atom_grid = {}\n"
    if a not in text or b not in text:
        return None
    text = text.replace(a, "    prune=None,\n    full_lmax", 1)
    return text.replace(b, "    if prune is None:\n        prune = nwchem_prune\n" + b, 1)


def mutants(tree):
    return [
        Mutant("remove set_idx after sort", GG, "            self.grids_indexer.set_idx(idx)\n", "", expect="reindex"),
        Mutant("remove identity set_idx", GG,
               "        else:\n            self.grids_indexer.set_idx(np.arange(self.weights.size))\n", "", expect="reindex"),
        Mutant("index coords but not weights (build)", GG, "            self.weights = self.weights[idx]\n", "",
               expect="reindex"),
        Mutant("prune: set_idx not composed", GG, "self.grids_indexer.set_idx(old_idx[idx[:old_idx_size]])",
               "self.grids_indexer.set_idx(idx[:old_idx_size])", expect="reindex"),
        Mutant("prune: set_idx removed", GG, "            self.grids_indexer.set_idx(old_idx[idx[:old_idx_size]])\n", "",
               expect="reindex"),
        Mutant("prune: weights not filtered", GG,
               '            self.weights = np.asarray(self.weights[idx], order="C")\n', "", expect="reindex"),
        Mutant("sorted index reversed in set_idx", GG, "self.grids_indexer.set_idx(idx)",
               "self.grids_indexer.set_idx(idx[::-1])", expect="reindex"),
        Mutant("remove set_padding in build", GG, "                self.grids_indexer.set_padding(padding)\n", "",
               count=1, expect="padding"),
        Mutant("prune: set_padding only when padding>0", GG,
               "                    self.weights = np.hstack([self.weights, np.zeros(padding)])\n"
               "                self.grids_indexer.set_padding(padding)",
               "                    self.weights = np.hstack([self.weights, np.zeros(padding)])\n"
               "                    self.grids_indexer.set_padding(padding)", expect="padding"),
        Mutant("padding weights ones", GG, "self.weights = np.hstack([self.weights, np.zeros(padding)])",
               "self.weights = np.hstack([self.weights, np.ones(padding)])", count=1, expect="padding"),
        Mutant("padding count differs", GG, "np.repeat([[1e-4] * 3], padding, axis=0)",
               "np.repeat([[1e-4] * 3], padding + 1, axis=0)", count=1, expect="padding"),
        Mutant("set_weights after sort", GG,
               "        self.grids_indexer.set_weights(self.weights)\n\n        if sort_grids:\n"
               "            idx = arg_group_grids(mol, self.coords)\n"
               "            self.coords = self.coords[idx]\n            self.weights = self.weights[idx]\n",
               "        if sort_grids:\n            idx = arg_group_grids(mol, self.coords)\n"
               "            self.coords = self.coords[idx]\n            self.weights = self.weights[idx]\n"
               "            self.grids_indexer.set_weights(self.weights)\n", expect="weights-first"),
        Mutant("set_weights removed", GG, "        self.grids_indexer.set_weights(self.weights)\n", "",
               expect="weights-first"),
        Mutant("swap ylm_tab / ylm_loc_tab at from_tabs", GG,
               "mol, self.lmax, rad_loc_tab, ylm_loc_tab, rad_tab, ylm_tab",
               "mol, self.lmax, rad_loc_tab, ylm_tab, rad_tab, ylm_loc_tab", expect="width-binding"),
        Mutant("bind full_lmax to a constant", GG,
               r"(mol, atom_grid, (?:self\.)?radi_method, level, prune,)(?: full_lmax=self\.lmax,)? \*\*kwargs",
               r"\1 full_lmax=CIDER_DEFAULT_LMAX, **kwargs", regex=True, expect="width-binding"),
        Mutant("level not forwarded", GG, r"(mol, atom_grid, (?:self\.)?radi_method,) level, prune,",
               r"\1 self.level, prune,", regex=True, expect="param-forward"),
        Mutant("full_lmax binding dropped", GG, " full_lmax=self.lmax,", "", expect="width-binding"),
        Mutant("owner lookup by searchsorted with the default side", GI,
               "        tmp = np.arange(self.all_weights.size)\n        for a in range(self.natm):\n            tmp[self.ga_loc[a] : self.ga_loc[a + 1]] = a\n        self.iatom_list = np.asarray(tmp[self.idx_map], order=\"C\", dtype=np.int32)",
               "        iatom = np.searchsorted(self.ga_loc[1:], self.idx_map)\n        self.iatom_list = np.asarray(iatom, order=\"C\", dtype=np.int32)",
               expect="owner-map"),
        Mutant("owner lookup over starts without -1", GI,
               "        tmp = np.arange(self.all_weights.size)\n        for a in range(self.natm):\n            tmp[self.ga_loc[a] : self.ga_loc[a + 1]] = a\n        self.iatom_list = np.asarray(tmp[self.idx_map], order=\"C\", dtype=np.int32)",
               "        iatom = np.searchsorted(self.ga_loc, self.idx_map, side=\"right\")\n        self.iatom_list = np.asarray(iatom, order=\"C\", dtype=np.int32)",
               expect="owner-map"),
        Mutant("per-atom fill shifted by one", GI, "tmp[self.ga_loc[a] : self.ga_loc[a + 1]] = a",
               "tmp[self.ga_loc[a] + 1 : self.ga_loc[a + 1] + 1] = a", expect="owner-map"),
        Mutant("per-atom fill skips the last atom", GI, "        for a in range(self.natm):\n            tmp[self.ga_loc[a]",
               "        for a in range(self.natm - 1):\n            tmp[self.ga_loc[a]", expect="owner-map"),
        Mutant("module-level element cache without prune in the key", GG, fn=_seed_cache(False), expect="memo-key"),
        Mutant("prune=None resolved to nwchem_prune inside the fork", GG, fn=_seed_none_prune, expect="pyscf-mirror"),
        Mutant("fork default level differs from pyscf", GG, "    level=3,\n    prune=nwchem_prune,\n    full_lmax", "    level=4,\n    prune=nwchem_prune,\n    full_lmax",
               expect="pyscf-mirror"),
        Mutant("charge of the atom from gto.charge (ghost atoms get 0)", GG, "            chg = _grid_charge(symb)\n",
               "            chg = gto.charge(symb)\n", expect="pyscf-mirror"),
        Mutant("atom_grid['default'] ignored", GG, "            atom_config = atom_grid.get(symb, default)\n",
               "            atom_config = atom_grid.get(symb, None)\n", expect="pyscf-mirror"),
        Mutant("pruning called without the radii", GG, "angs = prune(chg, rad, n_ang)", "angs = prune(chg, n_ang)", expect="pyscf-mirror"),
        Mutant("lmax < 1 no longer rejected", GG, regex=True,
               old=r"    if full_lmax < 1:\n(?:        #.*\n)*        raise ValueError\(\"lmax must be at least 1\"\)\n", new="",
               expect="lmax-min"),
        Mutant("sign factors from a 24-entry table", "ciderpress/lib/mod_cider/sph_harm.c", fn=_revert_fac_list, expect="table-extent"),
        Mutant("truncation removed", GG, "                ylm[:, nlm_shl:] = 0.0\n", "", expect="truncation"),
        Mutant("truncation keeps the wrong side", GG, "ylm[:, nlm_shl:] = 0.0", "ylm[:, :nlm_shl] = 0.0",
               expect="truncation"),
        Mutant("truncation uses atom-wide n_ang", GG, "lmax_shl = LMAX_DICT[n]", "lmax_shl = LMAX_DICT[n_ang]",
               expect="truncation"),
        Mutant("LMAX_DICT uses full order", GG, "{v: k // 2 for k, v in LEBEDEV_ORDER.items()}",
               "{v: k for k, v in LEBEDEV_ORDER.items()}", expect="truncation"),
        Mutant("truncation after append", GG,
               "                ylm[:, nlm_shl:] = 0.0\n                ylm_full = np.append(ylm_full, ylm, axis=0)\n",
               "                ylm_full = np.append(ylm_full, ylm, axis=0)\n                ylm[:, nlm_shl:] = 0.0\n",
               expect="truncation"),
    ]


if __name__ == "__main__":
    sys.exit(core.main(PROP, analyse, mutants, __doc__))
