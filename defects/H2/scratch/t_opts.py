from ref import *
import ref, sys
from ciderpress.pyscf.gen_cider_grid import CiderGrids
from ciderpress.pyscf.nldf_convolutions import PyscfNLDFGenerator
np.random.seed(0)
mol = gto.M(atom="H 0 0 0; F 0 0 0.9", basis="def2-svp", spin=0, verbose=0)
ks = dft.RKS(mol); ks.xc='PBE'; ks.grids.level=1; ks.kernel()
dm = ks.make_rdm1()
ni = NumInt()
th=[1.0,0.0,0.03125]; fp=[[2.0,0.0,0.04],[2.0,0.0,0.04,2.0]]
vij = NLDFSettingsVIJ('MGGA', th, 'one', ["se_ap","se_r2"], ["se_grad","se_rvec"], [(0,0),(-1,1)], ["se","se_erf_rinv"], fp)
vk = NLDFSettingsVK('MGGA', th, 'one', [[1.0,0.0,0.02],[4.0,0.0,0.08]], "exponential")
def run(settings, glmax, glevel, **kw):
    grids = CiderGrids(mol, lmax=glmax); grids.level=glevel; grids.build(with_non0tab=False)
    rho = get_full_rho(ni, mol, dm, grids, 'MGGA')[0]
    sel0 = np.where(rho[0] > 1e-3)[0]
    sel = np.random.choice(sel0, 100, replace=False)
    coords = grids.coords[sel]
    gen = PyscfNLDFGenerator.from_mol_and_settings(mol, grids.grids_indexer, 1, settings, **kw)
    gen.interpolator.set_coords(grids.coords)
    pred = gen.get_features(rho)[:, sel]
    refv = reference(mol, dm, settings, coords)
    err = np.abs(pred - refv).max(axis=1)
    scale = np.abs(refv).max(axis=1)
    return ' '.join('%.0e'%x for x in err/scale)
for s in [vij, vk]:
  for glmax, glevel, kw in [
    (10, 1, dict()),
    (10, 1, dict(lmax=6)),
    (6, 1, dict()),
    (10, 3, dict(aux_lambd=2.0, aug_beta=1.8)),
    (10, 1, dict(aux_lambd=1.4, aug_beta=1.4)),
    (10, 1, dict(plan_type='gaussian', alpha_formula='zexp')),
    (10, 1, dict(plan_type='spline', alpha_formula='etb')),
    (10, 1, dict(gbuf=1.0)),
    (10, 1, dict(alpha_max=3000, alpha_min=0.01)),
    (10, 1, dict(interpolator_type='onsite_spline', nrad=100, aparam=0.06, dparam=0.08)),
    (12, 2, dict()),
  ]:
    try:
        print(s.version, glmax, glevel, kw, run(s, glmax, glevel, **kw))
    except Exception as e:
        print(s.version, glmax, glevel, kw, 'EXC', type(e).__name__, e)
