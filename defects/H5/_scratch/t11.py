import cider_build
import numpy as np, sys
from pyscf import gto, dft
from pyscf.data.nist import BOHR
from ciderpress.pyscf.gen_cider_grid import CiderGrids
from ciderpress.dft.settings import *
from toy import make_ni

vj_specs = ["se", "se_ar2", "se_a2r4", "se_erf_rinv"]
theta_params = [1.0, 0.0, 0.03125]
feat_params = [[2.0, 0.0, 0.04] for i in range(4)]
feat_params[-1].append(2.0)
vij = NLDFSettingsVIJ("MGGA", theta_params, "one", ["se_ap"], ["se_grad", "se_rvec"], [(0, 0), (1, -1)], vj_specs, feat_params)
sd = SDMXG1Settings([0,1,2], 2, 2)
fl = FracLaplSettings([-1.0, -0.5, 0.5], 2, 2, [(0,1), (-1, 0), (1,1)], nd1=2, ld_dots=[(0,0),(-1,1)], ndd=1)
sl = SemilocalSettings("nst")
base = np.array([[0.0,0.0,0.0],[0.15,0.85,0.45],[-0.75,-0.35,0.95]])
syms = ["O","H","F"]
spin = int(sys.argv[1])

def run(R, t, perm):
    coords = base @ R.T + t
    atom = [[syms[i], tuple(coords[i])] for i in perm]
    mol = gto.M(atom=atom, basis="def2-svp", verbose=0, spin=spin, charge=spin % 2)
    grids = CiderGrids(mol, lmax=6); grids.level = 0; grids.build(with_non0tab=True)
    ks = (dft.UKS if spin else dft.RKS)(mol); ks.xc = "PBE"; ks.grids = grids; ks.conv_tol = 1e-12
    ks.kernel()
    dm = np.asarray(ks.make_rdm1())
    out = []
    for kw in [dict(nldf=vij, sdmx=sd), dict(sdmx=sd), dict(nldf=vij, plan_type="spline")]:
        ni = make_ni(sl=sl, **kw)
        fn = ni.nr_uks if spin else ni.nr_rks
        n, e, v = fn(mol, grids, "", dm)
        out += [e, np.sum(v * dm), np.sum(np.asarray(v)**2)]
    return np.array(out)

I = np.eye(3)
ref = run(I, np.zeros(3), [0,1,2])
print("ref", ref)
Rz = np.array([[0,-1,0],[1,0,0],[0,0,1.0]])
Rc3 = np.array([[0,0,1],[1,0,0],[0,1,0.0]])
Inv = -np.eye(3)
for label, R, t, perm in [("perm", I, np.zeros(3), [2,0,1]), ("trans", I, np.array([0.7,-1.3,2.1]), [0,1,2]),
                          ("C4z", Rz, np.zeros(3), [0,1,2]), ("all", Inv@Rc3@Rz, np.array([0.3,0.2,-0.9]), [1,2,0])]:
    r = run(R, t, perm)
    print(label, np.array2string((r - ref) / np.abs(ref), precision=1), flush=True)
