"""
C17: "unsupported combinations raise NotImplementedError instead of returning
numbers".  The grid-response force drivers of NLDF models need the per-atom grid
layout of LCAOInterpolatorDirect; with interpolator_type="train_gen" (the plain
LCAOInterpolator, accepted by PySCFNLDFInitializer and fine for energies and for
grid_response=False forces) they die with an AttributeError in the middle of the
evaluation instead of reporting the combination as unsupported.
"""
import os, sys
sys.path.insert(0, os.path.dirname(os.path.abspath(__file__)))
import mk  # noqa
import numpy as np
from pyscf import gto, dft
from ciderpress.pyscf.dft import make_cider_calc
from ciderpress.pyscf.nldf_convolutions import PySCFNLDFInitializer

ml = mk.make_model("npa", "j")
fail = 0
for uks in (0, 1):
    mol = gto.M(atom="H 0 0 0; H 0.3 0.2 1.7; H 1.6 0.1 0.3" if uks else "He 0 0 0; He 0.2 0.1 2.4",
                basis="6-31g", unit="Bohr", spin=uks, verbose=0)
    ks = (dft.UKS if uks else dft.RKS)(mol); ks.xc = "PBE"; ks.grids.level = 0
    init = PySCFNLDFInitializer(ml.settings.nldf_settings, interpolator_type="train_gen")
    ks = make_cider_calc(ks, ml, xmix=0.5, xkernel="GGA_X_PBE", ckernel="GGA_C_PBE", nldf_init=init)
    ks.kernel()
    g0 = ks.nuc_grad_method().set(grid_response=False).kernel()
    print("UKS" if uks else "RKS", "train_gen, grid_response=False: forces returned, max|g| = %.4f" % np.abs(g0).max())
    try:
        g1 = ks.nuc_grad_method().set(grid_response=True).kernel()
        print("  grid_response=True returned numbers")
    except NotImplementedError as e:
        print("  grid_response=True: NotImplementedError (%s) -- as specified" % e)
    except Exception as e:
        print("  grid_response=True: expected NotImplementedError, observed %r" % (e,))
        fail += 1
sys.exit(1 if fail else 0)
