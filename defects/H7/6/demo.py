"""C16 (configuration: a kernel without additive baseline): DFTKernel / MappedDFTKernel are
documented and declared with `additive_baseline=None` as the default, but the KernelEvalBase
they are built on cannot handle it:

  * KernelEvalBase.additive_baseline() calls self._baseline(X0T, None) -> None(X0T[...])
    -> TypeError, so MOLGP._compute_mol_covs (`a, da = kernel.additive_baseline(X0T)`)
    fails for every data set;
  * KernelEvalBase.apply_baseline() guards with `self.additive_baseline is not None`,
    which tests the bound METHOD (always true) instead of self._add_basefunc, as its twin
    KernelEvalBase2.apply_libxc_baseline_ does -> the mapped model cannot be evaluated.

Expected: a kernel with additive_baseline=None trains to exactly the same weights, and
maps to the same functional, as one with the explicit zero baseline `zero_xc`.
"""
import contextlib
import io
import os
import sys
import tempfile

sys.path.insert(0, os.path.join(os.path.dirname(os.path.abspath(__file__)), "..", "common"))
import cider_env

cider_env.install(need_c=False)

import numpy as np
from pyscf.lib import chkfile

from ciderpress.dft.baselines import lda_x, zero_xc
from ciderpress.dft.settings import FeatureSettings, SemilocalSettings
from ciderpress.dft.transform_data import FeatureList, UMap
from ciderpress.dft.xc_evaluator import KernelEvaluator
from ciderpress.models.dft_kernel import DFTKernel
from ciderpress.models.kernels import DiffRBF
from ciderpress.models.train import MOLGP

rng = np.random.default_rng(0)


def make_X(n, nspin=1):
    X = np.empty((nspin, 3, n))
    X[:, 0] = rng.uniform(0.05, 2.0, (nspin, n))
    X[:, 1] = rng.uniform(0.0, 3.0, (nspin, n))
    X[:, 2] = rng.uniform(0.0, 3.0, (nspin, n))
    return X


tmp = tempfile.mkdtemp()
ddir = {"REF": os.path.join(tmp, "REF"), "SL": os.path.join(tmp, "SL"),
        "NLDF": None, "NLOF": None, "SDMX": None, "HYB": None}
os.makedirs(ddir["REF"])
os.makedirs(ddir["SL"])
for mid, n in [("A", 50), ("B", 60)]:
    ref = {"wt": rng.uniform(0.1, 1.0, n), "val": -rng.uniform(0.1, 1, n),
           "e_tot_orig": -1.0, "exc_orig": -0.3, "nspin": 1}
    chkfile.save(os.path.join(ddir["REF"], mid + ".hdf5"), "train_data", ref)
    chkfile.save(os.path.join(ddir["SL"], mid + ".hdf5"), "train_data", {"desc": make_X(n)})
Xctrl = make_X(20)
Xtest = make_X(15, nspin=2)
rxns = [(0, {"structs": ["A"], "counts": [1]}), (0, {"structs": ["A", "B"], "counts": [1, -1]})]


def mapping_plan(kernel):
    return KernelEvaluator(kernel.kernel, kernel.X1ctrl, kernel.alpha)


def train(mode, additive):
    settings = FeatureSettings(sl_settings=SemilocalSettings("npa"))
    flist = FeatureList([UMap(1, 0.3), UMap(2, 0.5)])
    if additive is None:
        kern = DFTKernel(DiffRBF(length_scale=np.array([0.4, 0.6])), flist, mode, lda_x)
    else:
        kern = DFTKernel(DiffRBF(length_scale=np.array([0.4, 0.6])), flist, mode, lda_x, additive)
    gp = MOLGP([kern], settings, default_noise=0.01)
    gp.set_control_points([Xctrl], reduce=False)
    with contextlib.redirect_stdout(io.StringIO()):
        gp.store_mol_covs(ddir, ["A", "B"])
    gp.add_reactions(rxns)
    gp.fit()
    exc, vexc = gp.map([mapping_plan])(Xtest)
    return kern.alpha.copy(), exc, vexc


ok = True
for mode in ["SEP", "NPOL"]:
    a_ref, e_ref, v_ref = train(mode, zero_xc)
    try:
        a, e, v = train(mode, None)
        d = max(np.abs(a - a_ref).max(), np.abs(e - e_ref).max(), np.abs(v - v_ref).max())
        print("%-4s additive_baseline=None: max deviation from the zero_xc model = %.2e" % (mode, d))
        ok = ok and d < 1e-12
    except Exception as exc:
        import traceback

        tb = traceback.extract_tb(exc.__traceback__)
        print("%-4s additive_baseline=None: %s: %s\n      raised in %s:%d (%s), called from %s:%d"
              % (mode, type(exc).__name__, exc, os.path.basename(tb[-1].filename), tb[-1].lineno,
                 tb[-1].line, os.path.basename(tb[-3].filename), tb[-3].lineno))
        ok = False
print("expected: same weights / energies / derivatives as with additive_baseline=zero_xc")
sys.exit(0 if ok else 1)
