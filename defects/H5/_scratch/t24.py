import cider_build
import numpy as np, sys
from pyscf import gto, dft
from ciderpress.pyscf.gen_cider_grid import CiderGrids
from ciderpress.dft.settings import *
from toy import make_ni
vj_specs = ["se", "se_ar2", "se_a2r4", "se_erf_rinv"]
molu = gto.M(atom="O 0 0 0; H 0.15 0.85 0.45; F -0.75 -0.35 0.95", basis="def2-svp", verbose=0, spin=2)
ks = dft.UKS(molu); ks.xc = "PBE"; ks.kernel(); dm = np.asarray(ks.make_rdm1()); mo = ks.mo_coeff
P = np.zeros_like(dm)
P[0] = np.outer(mo[0][:, 5], mo[0][:, 12]); P[0] += P[0].T
P[1] = 0.5 * (np.outer(mo[1][:, 3], mo[1][:, 11]) + np.outer(mo[1][:, 11], mo[1][:, 3]))
grids = CiderGrids(molu, lmax=6); grids.level = 0; grids.build(with_non0tab=True)
theta = [1.0, 0.3, 0.03125]
fp = [[2.0, 0.2, 0.04] for i in range(4)]; fp[-1].append(2.0)
for slmode in ["nst", "npa"]:
  for l0, l1, dots, vjs, fps in [(["se_ap", "se_r2", "se_lapl"], ["se_grad", "se_rvec"], [(0, 0), (1, -1), (0, 1)], vj_specs, fp),
                       (["se_ap"], [], [], ["se"], fp[:1]), ([], ["se_grad"], [(0,0)], ["se"], fp[:1]), (["se_lapl"], ["se_rvec"], [(0,-1)], ["se"], fp[:1])]:
    if len(l0) == 0: continue
    vij = NLDFSettingsVIJ("MGGA", theta, "one", l0, l1, dots, vjs, fps)
    ni = make_ni(sl=SemilocalSettings(slmode), nldf=vij, plan_type="spline")
    n, e, v = ni.nr_uks(molu, grids, "", dm)
    an = np.sum(v * P)
    res = []
    for d in [3e-3, 1e-3, 3e-4]:
        ep = ni.nr_uks(molu, grids, "", dm + d * P)[1]; em = ni.nr_uks(molu, grids, "", dm - d * P)[1]
        res.append((ep - em) / (2 * d) - an)
    print(slmode, l0, l1, "an=%.6e" % an, "fd-an:", res, flush=True)
