"""
Helper for the demos: compile the CiderPress C sources found through the
imported package (ciderpress.__file__) into a scratch directory and make
ciderpress.lib.load_library pick them up.  Libraries that cannot be built here
(FFTW/MPI based ones) are replaced by a MagicMock; they are not used.
"""
import ctypes
import glob
import hashlib
import importlib.util
import os
import subprocess
import sys
import tempfile
from unittest.mock import MagicMock

import numpy.ctypeslib


def _pkg_dir():
    spec = importlib.util.find_spec("ciderpress")
    return os.path.dirname(spec.origin)


def _pyscf_lib():
    spec = importlib.util.find_spec("pyscf")
    return os.path.join(os.path.dirname(spec.origin), "lib")


def build():
    lib = os.path.join(_pkg_dir(), "lib")
    plib = _pyscf_lib()
    mod = os.path.join(lib, "mod_cider")
    srcs = [
        os.path.join(mod, f + ".c")
        for f in (
            "frac_lapl cider_coefs cider_grids spline sph_harm conv_interpolation "
            "convolutions fast_sdmx debug_numint model_utils"
        ).split()
    ]
    xcsrc = os.path.join(lib, "xc_utils", "libxc_baselines.c")
    h = hashlib.sha1()
    for s in srcs + [xcsrc] + sorted(glob.glob(os.path.join(mod, "*.h"))):
        with open(s, "rb") as f:
            h.update(f.read())
    out = os.path.join(tempfile.gettempdir(), "cider_demo_libs_" + h.hexdigest()[:16])
    os.makedirs(out, exist_ok=True)
    blas = os.path.basename(glob.glob(os.path.join(plib, "libopenblas*.so"))[0])
    inc = os.path.join(plib, "deps", "include")
    dep = os.path.join(plib, "deps", "lib")
    common = ["gcc", "-O2", "-fopenmp", "-shared", "-fPIC", "-w"]
    t1 = os.path.join(out, "libmcider.so")
    if not os.path.exists(t1):
        subprocess.check_call(
            common + ["-o", t1 + ".tmp"] + srcs
            + ["-I" + mod, "-I" + inc, "-L" + dep, "-lcint", "-L" + plib,
               "-l:" + blas, "-l:libcgto.so", "-Wl,-rpath," + dep,
               "-Wl,-rpath," + plib, "-lm"]
        )
        os.replace(t1 + ".tmp", t1)
    t2 = os.path.join(out, "libxc_utils.so")
    if not os.path.exists(t2):
        subprocess.check_call(
            common + ["-o", t2 + ".tmp", xcsrc, "-I" + inc, "-L" + dep, "-lxc",
                      "-Wl,-rpath," + dep, "-lm"]
        )
        os.replace(t2 + ".tmp", t2)
    return out


def install():
    out = build()
    orig = numpy.ctypeslib.load_library

    def _load(libname, path):
        f = os.path.join(out, libname + ".so")
        if os.path.exists(f):
            return ctypes.CDLL(f)
        try:
            return orig(libname, path)
        except OSError:
            return MagicMock()

    numpy.ctypeslib.load_library = _load


install()
