import cider_build
import numpy as np, sys
from pyscf import gto, dft
from ciderpress.pyscf.gen_cider_grid import CiderGrids
from ciderpress.pyscf.nldf_convolutions import PyscfNLDFGenerator
from ciderpress.pyscf.sdmx import EXXSphGenerator
from ciderpress.dft.settings import *
vj_specs = ["se", "se_ar2", "se_a2r4", "se_erf_rinv"]
theta_params = [1.0, 0.2, 0.03125]
feat_params = [[2.0, 0.1, 0.04] for i in range(4)]
feat_params[-1].append(2.0)
vij = NLDFSettingsVIJ("MGGA", theta_params, "one", ["se_ap", "se_lapl"], ["se_grad", "se_rvec"], [(0, 0), (1, -1), (0, 1)], vj_specs, feat_params)
vk = NLDFSettingsVK("MGGA", theta_params, "one", [[1.0, 0.0, 0.02], [2.0, 0.0, 0.04]], "exponential")
sd = SDMXG1Settings([0,1,2], 2, 2)
mol = gto.M(atom="O 0 0 0; H 0.15 0.85 0.45; F -0.75 -0.35 0.95; H 2.0 0.1 0.3", basis="def2-svp", verbose=0, charge=1)
dm = dft.RKS(mol).get_init_guess(key="minao")
grids = CiderGrids(mol, lmax=6); grids.level = 0; grids.build(with_non0tab=True)
ni = dft.numint.NumInt()
ao = ni.eval_ao(mol, grids.coords, deriv=1)
rho = ni.eval_rho(mol, ao, dm, xctype="MGGA", with_lapl=False)
out = {}
rng = np.random.default_rng(0)
for nm, st in [("vij", vij), ("vk", vk)]:
    for it in ["onsite_direct", "onsite_spline"]:
        gen = PyscfNLDFGenerator.from_mol_and_settings(mol, grids.grids_indexer, 1, st, plan_type="spline", interpolator_type=it)
        gen.interpolator.set_coords(grids.coords)
        f = gen.get_features(rho)
        c = rng.normal(size=f.shape) * grids.weights
        out[nm + it + "f"] = f
        out[nm + it + "v"] = gen.get_potential(c)
gen = EXXSphGenerator.from_settings_and_mol(sd, 1, mol)
f = gen.get_features(dm, mol, grids.coords)
out["sdmxf"] = f
v = np.zeros_like(dm); gen.get_vxc_(v, rng.normal(size=f.shape)); out["sdmxv"] = v
np.savez(sys.argv[1], **out)
