"""C19: CiderGrids must reproduce the PySCF grid built with the same settings.

PySCF accepts an atom_grid override whose angular entry is a Lebedev *order*
(a key of LEBEDEV_ORDER, e.g. 29 -> 302 points): gen_atomic_grids warns and
uses LEBEDEV_ORDER[n_ang].  gen_atomic_grids_cider only knows LEBEDEV_NGRID
and raises ValueError for the same setting.
"""
import os
import sys

sys.path.insert(0, os.path.dirname(os.path.abspath(__file__)))
import cider_libs  # noqa: F401  (builds the C libraries, patches load_library)
import numpy as np
from pyscf import dft, gto
from pyscf.dft import gen_grid

from ciderpress.pyscf.gen_cider_grid import CiderGrids

mol = gto.M(
    atom="O 0 0 0; H 0 0.757 0.587; H 0 -0.757 0.587", basis="sto-3g", verbose=0
)
order = 29
assert order in gen_grid.LEBEDEV_ORDER and order not in gen_grid.LEBEDEV_NGRID
fail = 0
for atom_grid in [(30, order), {"O": (30, order)}, {"default": (20, 17)}]:
    g0 = dft.Grids(mol)
    g0.atom_grid = atom_grid
    try:
        g0.build()
    except ValueError as e:
        print("installed PySCF rejects atom_grid=%s too (%s): nothing to compare" % (atom_grid, e))
        continue
    g1 = CiderGrids(mol)
    g1.atom_grid = atom_grid
    try:
        g1.build()
    except Exception as e:
        print("atom_grid=%s: expected the %d PySCF points, observed %s: %s"
              % (atom_grid, g0.weights.size, type(e).__name__, e))
        fail = 1
        continue
    a = np.hstack([g0.coords, g0.weights[:, None]])
    b = np.hstack([g1.coords, g1.weights[:, None]])
    if a.shape != b.shape:
        print("atom_grid=%s: expected %d points, observed %d" % (atom_grid, a.shape[0], b.shape[0]))
        fail = 1
        continue
    a = a[np.lexsort(a.T)]
    b = b[np.lexsort(b.T)]
    err = np.abs(a - b).max()
    ind = g1.grids_indexer
    idx = ind.get_idx()
    ok = err < 1e-12 and np.array_equal(ind.all_weights[idx], g1.weights[: idx.size])
    print("atom_grid=%s: %d points, max |PySCF - CIDER| = %.1e, index map %s"
          % (atom_grid, a.shape[0], err, "ok" if ok else "WRONG"))
    fail |= not ok
sys.exit(fail)
