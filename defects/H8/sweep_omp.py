import ctypes, os, sys
import numpy as np
HERE=os.path.dirname(os.path.abspath(__file__))
lib=ctypes.CDLL(os.path.join(HERE,"build","libmcider.so"))
gomp=ctypes.CDLL("libgomp.so.1")
P=lambda a: a.ctypes.data_as(ctypes.c_void_p)
I=ctypes.c_int; D=ctypes.c_double
THREADS=[1,2,3,5,7,16]
bad=0
def check(name, fn, reps=3):
    """fn(rng) -> list of output arrays; inputs from seeded rng"""
    global bad
    ref=None
    for nt in THREADS:
        for rep in range(reps if nt>1 else 1):
            gomp.omp_set_num_threads(nt)
            outs=fn(np.random.default_rng(7))
            if ref is None: ref=[o.copy() for o in outs]; continue
            for k,(o,r) in enumerate(zip(outs,ref)):
                scale=max(1.0,np.abs(r).max()) if r.size else 1
                err=np.abs(o-r).max()/scale if r.size else 0
                if not err<1e-11:
                    print("MISMATCH",name,"nt",nt,"out",k,"err",err); bad+=1; return
    print("ok",name)

# --- contract_grad_terms
def t_cgt(ngrids,natm):
    def f(rng):
        f_g=rng.normal(size=ngrids); atm=rng.integers(0,natm,size=ngrids).astype(np.int32)
        ex=np.zeros((natm,3)); lib.contract_grad_terms_parallel(P(ex),P(f_g),I(natm),I(1),I(2),I(ngrids),P(atm))
        ex2=np.zeros((natm,3)); lib.contract_grad_terms_serial(P(ex2),P(f_g),I(natm),I(1),I(2),I(ngrids),P(atm))
        assert np.allclose(ex,ex2,atol=1e-10),(ex,ex2)
        return [ex]
    return f
for ng,na in [(1,2),(5,3),(17,3),(1000,4),(31,40)]:
    check(f"contract_grad_terms_parallel ng={ng} natm={na}", t_cgt(ng,na))

def t_lp1grad(n,natm):
    def f(rng):
        nf=6
        f0=rng.normal(size=(n,nf)); f1=rng.normal(size=(n,nf)); atm=rng.integers(0,natm,size=n).astype(np.int32)
        out=np.zeros(3*natm)
        lib.add_lp1_term_grad(P(out),P(f0),P(f1),P(atm),I(1),I(natm),I(n),I(0),I(1),I(2),I(3),I(nf))
        return [out]
    return f
for n,na in [(1,2),(7,3),(1000,5)]:
    check(f"add_lp1_term_grad n={n}", t_lp1grad(n,na))

# --- SDMX contract
def mk_bas(rng,natm,lmaxes):
    bas=[];
    for ia in range(natm):
        for l in lmaxes:
            bas.append([ia,l,1,1,0,0,0,0])
    return np.array(bas,dtype=np.int32)
def t_sdmx_contract(ngrids,variant):
    def f(rng):
        natm=2; ls=[0,1,2,1]
        bas=mk_bas(rng,natm,ls); nbas=len(bas)
        ao_loc=np.zeros(nbas+1,np.int32); rf_loc=np.zeros(nbas+1,np.int32)
        nrf_per=[1,2,1,1,2,1,1,1]
        for i in range(nbas):
            rf_loc[i+1]=rf_loc[i]+nrf_per[i]
            ao_loc[i+1]=ao_loc[i]+(2*bas[i,1]+1)*nrf_per[i]
        nao=ao_loc[-1]; nrf=rf_loc[-1]
        ylm_atom_loc=np.array([0,9,18],np.int32); nylm=18
        shls=np.array([0,nbas],np.int32)
        atm=np.zeros((natm,6),np.int32); env=np.zeros(10)
        gridx=rng.normal(size=(3,ngrids)); atomx=rng.normal(size=(3,natm))
        if variant=="fwd":
            ylm=rng.normal(size=(nylm,ngrids)); ao=rng.normal(size=(nao,ngrids)); vbas=np.full((nrf,ngrids),np.nan)
            lib.SDMXcontract_ao_to_bas(I(ngrids),P(vbas),P(ylm),P(ao),P(shls),P(ao_loc),P(ylm_atom_loc),P(atm),I(natm),P(bas),I(nbas),P(env),I(nrf),P(rf_loc))
            return [vbas]
        if variant=="bwd":
            ylm=rng.normal(size=(nylm,ngrids)); ao=rng.normal(size=(nao,ngrids)); vbas=rng.normal(size=(nrf,ngrids))
            lib.SDMXcontract_ao_to_bas_bwd(I(ngrids),P(vbas),P(ylm),P(ao),P(shls),P(ao_loc),P(ylm_atom_loc),P(atm),I(natm),P(bas),I(nbas),P(env),I(nrf),P(rf_loc))
            return [ao]
        if variant=="grid":
            ylm=rng.normal(size=(nylm,ngrids)); ao=rng.normal(size=(nao,ngrids)); vbas=np.full((nrf,ngrids),np.nan)
            lib.SDMXcontract_ao_to_bas_grid(I(ngrids),P(vbas),P(ylm),P(ao),P(shls),P(ao_loc),P(ylm_atom_loc),P(atm),I(natm),P(bas),I(nbas),P(env),I(nrf),P(rf_loc),P(gridx),P(atomx))
            return [vbas]
        if variant=="grid_bwd":
            ylm=rng.normal(size=(nylm,ngrids)); ao=rng.normal(size=(nao,ngrids)); vbas=rng.normal(size=(nrf,ngrids))
            lib.SDMXcontract_ao_to_bas_grid_bwd(I(ngrids),P(vbas),P(ylm),P(ao),P(shls),P(ao_loc),P(ylm_atom_loc),P(atm),I(natm),P(bas),I(nbas),P(env),I(nrf),P(rf_loc),P(gridx),P(atomx))
            return [ao]
        if variant=="l1":
            ylm=rng.normal(size=(4,nylm,ngrids)); ao=rng.normal(size=(nao,ngrids)); vbas=np.full((7,nrf,ngrids),np.nan)
            lib.SDMXcontract_ao_to_bas_l1(I(ngrids),P(vbas),P(ylm),P(ao),P(shls),P(ao_loc),P(ylm_atom_loc),P(atm),I(natm),P(bas),I(nbas),P(env),P(gridx),P(atomx),I(nrf),P(rf_loc))
            return [vbas]
        if variant=="l1_bwd":
            ylm=rng.normal(size=(4,nylm,ngrids)); ao=np.full((nao,ngrids),np.nan); vbas=rng.normal(size=(7,nrf,ngrids))
            lib.SDMXcontract_ao_to_bas_l1_bwd(I(ngrids),P(vbas),P(ylm),P(ao),P(shls),P(ao_loc),P(ylm_atom_loc),P(atm),I(natm),P(bas),I(nbas),P(env),P(gridx),P(atomx),I(nrf),P(rf_loc))
            return [ao]
    return f
for v in ["fwd","bwd","grid","grid_bwd","l1","l1_bwd"]:
    for ng in [1,3,17,33,257]:
        check(f"SDMXcontract {v} ng={ng}", t_sdmx_contract(ng,v), reps=1)

def t_shl_alpha(ngrids,bwd):
    def f(rng):
        nalpha=3; nsh=4
        csh=rng.normal(size=(2,nalpha,nsh,ngrids))
        if not bwd:
            b=rng.normal(size=(7,nsh,ngrids)); p=np.full((4,nalpha,ngrids),np.nan)
            lib.contract_shl_to_alpha_l1(I(ngrids),I(nalpha),I(nsh),P(p),P(b),P(csh)); return [p]
        else:
            p=rng.normal(size=(4,nalpha,ngrids)); b=np.full((7,nsh,ngrids),np.nan)
            lib.contract_shl_to_alpha_l1_bwd(I(ngrids),I(nalpha),I(nsh),P(p),P(b),P(csh)); return [b]
    return f
for ng in [1,127,128,129,300]:
    check(f"contract_shl_to_alpha_l1 ng={ng}",t_shl_alpha(ng,False),reps=1)
    check(f"contract_shl_to_alpha_l1_bwd ng={ng}",t_shl_alpha(ng,True),reps=1)

def t_ylm(ngrids):
    def f(rng):
        natm=3
        loc=np.array([0,1,10,26],np.int32)
        coords=rng.normal(size=(3,ngrids)); ac=rng.normal(size=(natm,3))
        ylm=np.full((4,26,ngrids),np.nan)
        lib.SDMXylm_loop(I(ngrids),P(ylm),P(coords),P(loc),P(ac),I(natm))
        gaunt=rng.normal(size=(5,16))
        lib.SDMXylm_grad(I(ngrids),P(ylm),P(gaunt),I(16),P(loc),I(natm))
        lib.SDMXylm_yzx2xyz(I(ngrids),I(4),P(ylm),P(loc),I(natm))
        return [ylm]
    return f
for ng in [1,55,56,57,200]:
    check(f"SDMXylm ng={ng}",t_ylm(ng),reps=1)

# cider_coefs
def t_coefs(ngrids):
    def f(rng):
        nalpha=5
        exp_g=np.abs(rng.normal(size=ngrids))+0.1; alphas=np.abs(rng.normal(size=nalpha))+0.2
        ea=np.array([0.7])
        outs=[]
        for fid in range(4):
            p=np.full((ngrids,nalpha),np.nan); dp=p.copy()
            lib.cider_coefs_gto_gq(P(p),P(dp),P(exp_g),P(alphas),I(ngrids),I(nalpha),I(fid),P(ea)); outs+=[p,dp]
            p=np.full((nalpha,ngrids),np.nan); dp=p.copy()
            lib.cider_coefs_gto_qg(P(p),P(dp),P(exp_g),P(alphas),I(ngrids),I(nalpha),I(fid),P(ea)); outs+=[p,dp]
        p=np.full((ngrids,nalpha),np.nan); dp=p.copy()
        lib.cider_coefs_vk1_gq(P(p),P(dp),P(exp_g),P(alphas),I(ngrids),I(nalpha)); outs+=[p,dp]
        p=np.full((nalpha,ngrids),np.nan); dp=p.copy()
        lib.cider_coefs_vk1_qg(P(p),P(dp),P(exp_g),P(alphas),I(ngrids),I(nalpha)); outs+=[p,dp]
        di=np.empty(ngrids); ddi=np.empty(ngrids)
        lib.cider_ind_etb(P(di),P(ddi),P(exp_g),I(ngrids),D(0.1),D(1.8)); lib.cider_ind_clip(P(di),P(ddi),I(nalpha-1),I(ngrids)); outs+=[di.copy(),ddi.copy()]
        w=rng.normal(size=(nalpha,nalpha,4))
        p=np.full((ngrids,nalpha),np.nan); dp=p.copy()
        lib.cider_coefs_spline_gq(P(p),P(dp),P(di),P(w),I(ngrids),I(nalpha),D(1.8)); outs+=[p,dp]
        p=np.full((nalpha,ngrids),np.nan); dp=p.copy()
        lib.cider_coefs_spline_qg(P(p),P(dp),P(di),P(w),I(ngrids),I(nalpha),D(1.8)); outs+=[p,dp]
        lib.cider_ind_zexp(P(di),P(ddi),P(exp_g),I(ngrids),D(0.1),D(1.8)); outs+=[di.copy(),ddi.copy()]
        return outs
    return f
for ng in [1,3,100]:
    check(f"cider_coefs ng={ng}",t_coefs(ng),reps=1)

# kernels
def t_kern(n):
    def f(rng):
        nfeat=4; nctrl=9
        outs=[]
        xin=rng.normal(size=(n,nfeat)); xc=rng.normal(size=(nctrl,nfeat)); a=rng.normal(size=nctrl); e=np.abs(rng.normal(size=nfeat))
        out=np.zeros(n); outd=np.zeros((n,nfeat))
        lib.evaluate_se_kernel(P(out),P(outd),P(xin),P(xc),P(a),P(e),I(n),I(nctrl),I(nfeat)); outs+=[out,outd]
        out=np.zeros(n); outd=np.zeros((n,nfeat))
        lib.evaluate_se_kernel_antisym(P(out),P(outd),P(xin),P(xc),P(a),P(e),I(n),I(nctrl),I(nfeat)); outs+=[out,outd]
        xin=rng.normal(size=(2,n,nfeat)); xc=rng.normal(size=(2,nctrl,nfeat))
        out=np.zeros(n); outd=np.zeros((2,n,nfeat))
        lib.evaluate_se_kernel_spin(P(out),P(outd),P(xin),P(xc),P(a),P(e),I(n),I(nctrl),I(nfeat)); outs+=[out,outd]
        return outs
    return f
for n in [1,5,200]: check(f"se_kernel n={n}",t_kern(n),reps=1)

def t_recip(nk):
    def f(rng):
        nspin=2; nlm=4; nq=5
        inp=rng.normal(size=(nspin,nk,nlm,nq)); out=np.full_like(inp,np.nan)
        k=np.abs(rng.normal(size=nk)); al=np.abs(rng.normal(size=nq))+.1; an=rng.normal(size=nq)
        lib.atc_reciprocal_convolution(P(inp),P(out),P(k),P(al),P(an),I(nspin),I(nk),I(nlm),I(nq)); return [out]
    return f
for n in [1,3,50]: check(f"atc_reciprocal_convolution nk={n}",t_recip(n),reps=1)

def t_angc(nrad):
    def f(rng):
        nalpha=4; nlm=9; stride=6; offset=1
        nw=rng.integers(0,8,size=nrad); rad_loc=np.concatenate([[0],np.cumsum(nw)]).astype(np.int32)
        ngrids=int(rad_loc[-1])
        ylm_loc=rad_loc[:-1].copy()
        y=rng.normal(size=(max(ngrids,1),nlm)); th_g=rng.normal(size=(max(ngrids,1),stride))
        th_r=np.full((nrad,nlm,nalpha),np.nan)
        lib.reduce_angc_to_ylm(P(th_r),P(y),P(th_g),P(rad_loc),P(ylm_loc),I(nalpha),I(nrad),I(ngrids),I(nlm),I(stride),I(offset))
        th_g2=np.zeros((max(ngrids,1),stride))
        lib.reduce_ylm_to_angc(P(th_r),P(y),P(th_g2),P(rad_loc),P(ylm_loc),I(nalpha),I(nrad),I(ngrids),I(nlm),I(stride),I(offset))
        return [th_r,th_g2]
    return f
for n in [1,3,5,50]: check(f"reduce_angc nrad={n}",t_angc(n),reps=2)
print("BAD",bad)
