#!/usr/bin/env python3
"""C18 -- bookkeeping is consistent, bad input is rejected, C calls stay within buffers.
Static rules (DESIGN.md §C18):

 ffi            every ctypes call site in ciderpress/{dft,pyscf,lib} agrees with the C prototype
                (x86-64 SysV landing slots, pointer/integer/double kinds, restype of non-int returns,
                function-pointer arguments vs the FPtr_* typedef)
 len-agree      per settings class: len(get_feat_usps()) == len(ueg_vector()) ==
                len(get_reasonable_normalizer()) == nfeat as linear forms, under the facts the
                constructor asserts; FeatureSettings concatenates the same components in one order
 reject-mode    every string-valued constructor parameter that the constructor compares with
                literals is rejected for any other string
 validate       dot-index / spec / parameter lists consumed by the accessors reach a raising
                validator in the constructor (sibling rule)
 param-guards   frozen table of constructor / validator parameters (alpha0, lambd, nalpha, nspin, modes,
                params[k], counts) that must still occur in the test of an assert / raise
 dispatch       string ladders end in a raise or dispatch on a validated closed set
 expnt-guard    every normal exit of eval_feat_exp passes the large-exponent test
 guards         frozen table of shape/contiguity guards dominating native calls, and of the
                pure-Python shape validators named by the property
 count-prov     a count passed next to a locally allocated buffer is one of its shape symbols
"""
import ast
import os
import sys

sys.path.insert(0, os.path.dirname(os.path.dirname(os.path.abspath(__file__))))
from sa import core, pyfacts as pf, cfg as cfgm, ffi, symlen, guards  # noqa: E402
from sa.selftest import Mutant  # noqa: E402

PROP = "C18"
ST = "ciderpress/dft/settings.py"
PL = "ciderpress/dft/plans.py"
FN = "ciderpress/dft/feat_normalizer.py"
XE = "ciderpress/dft/xc_evaluator.py"
NC = "ciderpress/pyscf/nldf_convolutions.py"
LC = "ciderpress/dft/lcao_convolutions.py"
SD = "ciderpress/pyscf/sdmx.py"
PW = "ciderpress/dft/pwutil.py"


def ffi_modules(tree):
    rels = []
    for pat in ("ciderpress/dft/**/*.py", "ciderpress/pyscf/**/*.py", "ciderpress/lib/**/*.py"):
        for r in tree.glob(pat):
            if "/tests/" not in r and r not in rels:
                rels.append(r)
    return sorted(rels)


# ----------------------------------------------------------------------------
# rule 4: ctypes conformance
# ----------------------------------------------------------------------------
def rule_ffi(chk, eng):
    cnt = ffi.report(chk, eng, "ffi", eng.sites)
    for k, v in cnt.items():
        chk.count("ffi " + k, v)
    # repo C functions handed to PySCF's own drivers as callbacks
    n_ext = 0
    for mf, qual, call, drv, passed in ffi.external_fnptr_sites(eng):
        for idx, ref in passed:
            td = ffi.EXTERNAL_DRIVERS[drv].get(idx)
            if td is None or td not in eng.c.typedefs:
                continue
            v = ffi.Verdict()
            ffi.judge_fnptr(eng, mf, ref, td, v, "argument %d of PySCF driver %s" % (idx + 1, drv))
            n_ext += 1
            inst = "%s:%s %s(%s as %s)" % (mf.rel, qual, drv, ref[1], td)
            if v.violations:
                for name, txt in v.violations:
                    chk.violation("ffi", mf.rel, qual, "%s(... %s ...)" % (drv, ref[1]), call.lineno, txt, instance=inst)
            else:
                chk.ok("ffi-callback", inst)
    chk.count("ffi callbacks to external drivers", n_ext)
    if cnt["unresolved"] > max(3, cnt["sites"] // 20):
        raise core.AnalysisError("%d of %d ctypes call sites have a callee / argument list the data-flow cannot resolve "
                                 "(0 on the pinned tree; up to 5%% are tolerated as notes)" % (cnt["unresolved"], cnt["sites"]))


# ----------------------------------------------------------------------------
# rule 1: length agreement
# ----------------------------------------------------------------------------
NOT_MODELLED = {}  # class -> why the length interpreter does not model it (recorded, not silently passed)


def _is_stub(fn):
    body = [s for s in fn.body if not (isinstance(s, ast.Expr) and isinstance(s.value, ast.Constant))]
    return not body or all(isinstance(s, ast.Pass) for s in body)


def _abstract(fn):
    return any(pf.src(d).endswith("abstractmethod") for d in fn.decorator_list) or _is_stub(fn)


def rule_len(chk, prog):
    mod = prog.module(ST)
    classes = prog.subclasses("BaseSettings")
    if len(classes) < 10:
        raise core.AnalysisError("fewer than 10 settings classes derive from BaseSettings")
    n_cfg = 0
    for m, c in classes:
        if m.rel != ST:
            continue
        probe = symlen.Interp(prog, m, c)
        members = {nm: probe.find_member(nm) for nm in ("nfeat",) + symlen.SETTINGS_LEN_METHODS}
        if any(r is None or _abstract(r[2]) for r in members.values()):
            chk.note("len-agree", "%s:%s" % (ST, c.name), "abstract (some accessor is a stub); not an instantiable class")
            continue
        if c.name in NOT_MODELLED:
            chk.note("len-agree", "%s:%s" % (ST, c.name), "not modelled: " + NOT_MODELLED[c.name])
            chk.not_decided.append("length agreement of %s (%s)" % (c.name, NOT_MODELLED[c.name]))
            continue
        try:
            cfgs = symlen.analyse_class(prog, m, c)
        except symlen.NotComparable as e:
            raise core.AnalysisError("settings class %s: %s" % (c.name, e))
        accepted = [g for g in cfgs if g.rejected is None]
        if not accepted:
            raise core.AnalysisError("constructor of %s rejects every configuration the interpreter tried" % c.name)
        # rejection of unknown mode strings
        for g in cfgs:
            if symlen.OTHER in g.fixed.values():
                inst = "%s(%s)" % (c.name, g.label())
                if g.rejected is None:
                    bad = sorted(k for k, v in g.fixed.items() if v == symlen.OTHER)
                    chk.violation("reject-mode", ST, c.name + ".__init__", "unknown %s accepted" % ",".join(bad),
                                  c.lineno, "the constructor compares %s with string literals but completes for a "
                                  "string that equals none of them (configuration %s)" % (", ".join(bad), g.label()),
                                  instance=inst)
                else:
                    chk.ok("reject-mode", inst)
        # counts used by range() / slicing / list repetition must be provably non-negative
        seen_req = set()
        for g in accepted:
            for lin, text in g.interp.requirements:
                sl = symlen.simplify(lin, g.facts)
                if repr(sl) in seen_req:
                    continue
                seen_req.add(repr(sl))
                inst = "%s: %r >= 0 (used as a count in `%s`)" % (c.name, sl, text[:50])
                if symlen.prove_le(symlen.Lin.c(0), sl, g.facts):
                    chk.ok("len-agree", inst)
                else:
                    chk.violation("len-agree", ST, c.name + ".__init__", "count %r >= 0" % sl, c.lineno,
                                  "`%s` uses %r as a count: range(), slicing and list repetition treat a negative value as "
                                  "0 while nfeat adds it as it is, so the accessors disagree for a negative value; the "
                                  "constructor accepts it (facts: %s)" % (text[:60], sl, "; ".join(g.facts.text) or "none"),
                                  instance=inst)
        for meth in symlen.SETTINGS_LEN_METHODS:
            owner = members[meth][1].name
            bad = []
            pathdep = []
            unimpl = 0
            for g in accepted:
                n_cfg += 1
                nf, ln = g.nfeat, g.lengths[meth]
                if isinstance(nf, tuple):
                    raise core.AnalysisError("%s.nfeat (%s): %s" % (c.name, g.label(), nf[1]))
                if isinstance(ln, tuple):
                    if ln[0] == "raises":
                        unimpl += 1
                        continue
                    if ln[0] == "conflict":
                        pathdep.append((g, ln[1], nf))
                        continue
                    raise core.AnalysisError("%s.%s (%s): %s" % (c.name, meth, g.label(), ln[1]))
                d = symlen.simplify(ln - nf, g.facts)
                if d == symlen.Lin.c(0):
                    continue
                cf = [g.interp.conflicts[a] for a in d.atoms() if a in g.interp.conflicts]
                if cf:
                    pathdep.append((g, cf[0], nf))
                    continue
                if d.uncertain():
                    raise core.AnalysisError("%s.%s (%s): length %r is not comparable with nfeat %r"
                                             % (c.name, meth, g.label(), ln, nf))
                bad.append((g, ln, nf))
            inst = "%s.%s == nfeat" % (c.name, meth)
            if unimpl == len(accepted):
                chk.ok("len-agree", inst + " (raises: unimplemented)", nontrivial=False)
                chk.note("len-agree", "%s:%s.%s" % (ST, c.name, meth), "always raises (%s); nothing to compare" % owner)
                continue
            if pathdep:
                g, cfd, nf = pathdep[0]
                chk.violation(
                    "len-agree", ST, "%s.%s" % (c.name, meth), "len(%s()) == nfeat" % meth, members[meth][2].lineno,
                    "the list returned by %s() gets a path-dependent number of entries: %s %s item(s) depending on %s, "
                    "while nfeat = %r counts one per feature (configuration %s); on the path that adds fewer the list is "
                    "shorter than nfeat"
                    % (meth, ("each iteration of the loop at line %s appends" % cfd["loop_line"]) if cfd["loop_line"]
                       else "the function appends", " or ".join(cfd["per_iteration"]),
                       "; ".join(cfd["decided_by"]) or "a branch", nf, g.label()), instance=inst)
                continue
            if bad:
                g, ln, nf = bad[0]
                chk.violation(
                    "len-agree", ST, "%s.%s" % (c.name, meth), "len(%s()) == nfeat" % meth,
                    members[meth][2].lineno,
                    "len(%s()) = %r but nfeat = %r (configuration %s); they are equal only under a bound the "
                    "constructor does not establish (facts: %s)"
                    % (meth, ln, nf, g.label(), "; ".join(g.facts.text) or "none"), instance=inst)
            else:
                chk.ok("len-agree", inst)
    chk.count("settings configurations interpreted", n_cfg)
    # FeatureSettings: one component order in every accessor
    fs = mod.cls("FeatureSettings")
    orders = {}
    for name in ("nfeat", "get_feat_loc") + symlen.SETTINGS_LEN_METHODS:
        fn = pf.methods(fs).get(name)
        if fn is None:
            raise core.AnalysisError("FeatureSettings.%s vanished" % name)
        seq = []
        for n in ast.walk(fn):
            if isinstance(n, ast.Attribute) and pf.is_self_attr(n.value) and n.value.attr.endswith("_settings") \
                    and n.attr in ("nfeat",) + symlen.SETTINGS_LEN_METHODS:
                seq.append((n.lineno, n.col_offset, n.value.attr))
        orders[name] = [a for _, _, a in sorted(seq)]
    ref = orders["get_feat_loc"]
    if len(ref) < 4:
        raise core.AnalysisError("FeatureSettings.get_feat_loc no longer lists the component feature counts")
    for name, seq in orders.items():
        inst = "FeatureSettings.%s component order" % name
        if seq == ref:
            chk.ok("len-agree", inst)
        else:
            chk.violation("len-agree", ST, "FeatureSettings.%s" % name, "component order", fs.lineno,
                          "components are combined in the order %s but get_feat_loc computes offsets in the "
                          "order %s" % (seq, ref), instance=inst)


# ----------------------------------------------------------------------------
# rule 2: validation coverage (sibling rule)
# ----------------------------------------------------------------------------
def _has_raise(fn):
    return any(isinstance(n, (ast.Raise, ast.Assert)) for n in ast.walk(fn))


def _resolve_self_attr(prog, m, c, e):
    """self.A, or self.P with P a property returning self._A  ->  underlying attribute name"""
    if not pf.is_self_attr(e):
        return None
    r = prog.find_method(m, c, e.attr)
    if r is not None and any(pf.src(d) == "property" for d in r[2].decorator_list):
        rets = [n for n in pf.walk_no_nested(r[2]) if isinstance(n, ast.Return)]
        if len(rets) == 1 and pf.is_self_attr(rets[0].value):
            return rets[0].value.attr
        return None
    return e.attr


def _iter_attrs(prog, m, c, it):
    """iterable expression -> list of underlying attribute names by tuple position (None = other)"""
    if isinstance(it, ast.Call) and pf.call_name(it) == "enumerate" and it.args:
        return ("enumerate", _iter_attrs(prog, m, c, it.args[0]))
    if isinstance(it, ast.Call) and pf.call_name(it) == "zip":
        return ("zip", [_resolve_self_attr(prog, m, c, a) for a in it.args])
    return ("plain", _resolve_self_attr(prog, m, c, it))


def _roles(prog, m, c):
    """attribute -> {role: witness text} from the way the accessor methods consume it"""
    roles = {}
    seen = set()
    for mm, cc in prog.mro(m, c):
        for name, fn in pf.methods(cc).items():
            if name == "__init__" or name.startswith("_check") or name in seen:
                continue
            seen.add(name)
            for n in pf.walk_no_nested(fn):
                if isinstance(n, ast.Subscript) and pf.is_self_attr(n.value) and isinstance(n.slice, ast.Constant) \
                        and isinstance(n.slice.value, int):
                    a = _resolve_self_attr(prog, mm, cc, n.value)
                    if a:
                        roles.setdefault(a, {}).setdefault("params", "%s.%s: %s" % (cc.name, name, pf.src(n)))
                if not isinstance(n, ast.For):
                    continue
                kind, spec = _iter_attrs(prog, m, c, n.iter)
                tgt = n.target
                if kind == "enumerate":
                    if not (isinstance(tgt, ast.Tuple) and len(tgt.elts) == 2):
                        continue
                    tgt = tgt.elts[1]
                    kind, spec = spec
                pairs = []  # (attr, target node)
                if kind == "plain" and spec:
                    pairs.append((spec, tgt))
                elif kind == "zip" and isinstance(tgt, ast.Tuple) and len(tgt.elts) == len(spec):
                    pairs += [(a, t) for a, t in zip(spec, tgt.elts) if a]
                for attr, t in pairs:
                    where = "%s.%s: for %s in %s" % (cc.name, name, pf.src(n.target), pf.src(n.iter))
                    if isinstance(t, ast.Tuple) and len(t.elts) == 2 and all(isinstance(x, ast.Name) for x in t.elts):
                        ids = {x.id for x in t.elts}
                        used = any(isinstance(b, ast.Subscript) and isinstance(b.slice, ast.Name) and b.slice.id in ids
                                   for st in n.body for b in ast.walk(st))
                        if used:
                            roles.setdefault(attr, {}).setdefault("dots", where)
                    elif isinstance(t, ast.Name):
                        for st in n.body:
                            for b in ast.walk(st):
                                if isinstance(b, ast.Compare) and isinstance(b.left, ast.Name) and b.left.id == t.id \
                                        and isinstance(b.comparators[0], ast.Constant) \
                                        and isinstance(b.comparators[0].value, str):
                                    roles.setdefault(attr, {}).setdefault("specs", where)
                                if isinstance(b, ast.Subscript) and isinstance(b.slice, ast.Name) and b.slice.id == t.id \
                                        and isinstance(b.value, ast.Name) and b.value.id.isupper():
                                    roles.setdefault(attr, {}).setdefault("specs", where)
                                if isinstance(b, ast.Subscript) and isinstance(b.value, ast.Name) and b.value.id == t.id \
                                        and isinstance(b.slice, ast.Constant) and isinstance(b.slice.value, int):
                                    roles.setdefault(attr, {}).setdefault("params", where)
    return roles


def _raising_callee(prog, m, c, call):
    f = call.func
    if isinstance(f, ast.Name) and f.id in m.functions:
        return _has_raise(m.functions[f.id])
    if isinstance(f, ast.Attribute) and isinstance(f.value, ast.Name):
        if f.value.id == "self":
            r = prog.find_method(m, c, f.attr)
            return r is not None and _has_raise(r[2])
        rc = prog.resolve_class(m, f.value.id)
        if rc is not None and f.attr in pf.methods(rc[1]):
            return _has_raise(pf.methods(rc[1])[f.attr])
    return False


def _validated(prog, m, c, attr):
    """the constructor chain hands `self.attr` (or the parameter stored into it) to a raising
    validator, or loops over it with a raise in the body -> witness text or None"""
    for mm, cc in prog.mro(m, c):
        init = pf.methods(cc).get("__init__")
        if init is None:
            continue
        names = set()
        for n in pf.walk_no_nested(init):
            if isinstance(n, ast.Assign) and any(pf.is_self_attr(t, attr) for t in n.targets) \
                    and isinstance(n.value, ast.Name):
                names.add(n.value.id)

        def is_x(e):
            return pf.is_self_attr(e, attr) or (isinstance(e, ast.Name) and e.id in names) or (
                pf.is_self_attr(e) and _resolve_self_attr(prog, mm, cc, e) == attr)

        def mentions(e):
            return any(is_x(x) for x in ast.walk(e))

        for n in pf.walk_no_nested(init):
            if isinstance(n, ast.Call) and any(is_x(a) for a in n.args) and _raising_callee(prog, mm, cc, n):
                return "%s.__init__: %s" % (cc.name, pf.src(n))
            if isinstance(n, ast.For) and mentions(n.iter):
                for st in n.body:
                    for b in ast.walk(st):
                        if isinstance(b, (ast.Raise, ast.Assert)) or (
                                isinstance(b, ast.Call) and _raising_callee(prog, mm, cc, b)):
                            return "%s.__init__: for %s in %s: ... %s" % (
                                cc.name, pf.src(n.target), pf.src(n.iter), pf.src(b)[:50])
    return None


ROLE_TEXT = {"dots": "list of index pairs used to subscript another list",
             "specs": "list of spec strings dispatched on / used as table keys",
             "params": "parameter vector indexed by constant positions"}


def rule_validate(chk, prog):
    n = 0
    for m, c in prog.subclasses("BaseSettings"):
        if m.rel != ST or pf.methods(c).get("__init__") is None and not any(
                pf.methods(cc).get("__init__") for _, cc in prog.mro(m, c)):
            continue
        roles = _roles(prog, m, c)
        for attr, rs in sorted(roles.items()):
            for role, where in sorted(rs.items()):
                n += 1
                inst = "%s.%s as %s" % (c.name, attr, role)
                w = _validated(prog, m, c, attr)
                if w:
                    chk.ok("validate", inst, detail=w)
                else:
                    chk.violation(
                        "validate", ST, c.name + ".__init__", "self.%s validated (%s)" % (attr, role), c.lineno,
                        "self.%s is consumed as a %s (%s) but no constructor of %s passes it to a raising validator "
                        "or checks its items; sibling attributes of the same role are validated"
                        % (attr, ROLE_TEXT[role], where, c.name), instance=inst)
    if n == 0:
        raise core.AnalysisError("no validated-list roles recognised in the settings classes")


# ----------------------------------------------------------------------------
# rule 2b: constructor parameters that are rejected when invalid (frozen table of API names)
# ----------------------------------------------------------------------------
PARAM_GUARDS = {
    # (module, function): names that must occur in the test of a raising guard of that function
    (PL, "NLDFAuxiliaryPlan.__init__"): ["nldf_settings", "alpha0", "lambd", "nalpha", "alpha_formula", "coef_order",
                                         "nspin", "rhocut", "expcut",
                                         # a&b: one rejecting test (with its enclosing ifs) mentions both names --
                                         # expcut must be positive when the zexp grid starts at it (b1c72ba)
                                         "alpha_formula&expcut"],
    (ST, "NLDFSettings.__init__"): ["sl_level", "rho_mult"],
    (ST, "NLDFSettingsVK.__init__"): ["rho_damp"],
    (ST, "NLDFSettingsVJ.__init__"): ["feat_params"],
    (ST, "NLDFSettingsVIJ.__init__"): ["feat_params", "l1_feat_specs"],
    (ST, "SADMSettings.__init__"): ["mode"],
    (ST, "SemilocalSettings.__init__"): ["mode"],
    (ST, "SDMXGSettings.__init__"): ["ndt"],
    (ST, "SDMX1Settings.__init__"): ["_n1"],
    (ST, "FracLaplSettings.__init__"): ["nk0", "nk1", "nd1", "ndd"],
    (ST, "NLDFSettings._check_params"): ["params[0]", "params[1]", "params[2]", "len(params)", "params[n]"],
    (ST, "FeatureSettings.__init__"): ["normalizers.nfeat"],
    (ST, "NLDFSettings._check_specs"): ["spec"],
    (ST, "_check_l1_dots"): ["dot", "nl1"],
}


def _guard_tests(fn):
    """tests of statements that reject: assert T | if T: ...raise (no else) | elif T: raise | ladder else raise"""
    out = []
    for n in ast.walk(fn):
        if isinstance(n, ast.Assert):
            out.append(n.test)
        elif isinstance(n, ast.If):
            if cfgm._raises(n.body):
                out.append(n.test)
            elif n.orelse and cfgm._raises(n.orelse) and not (len(n.orelse) == 1 and isinstance(n.orelse[0], ast.If)):
                out.append(n.test)
    return out


def find_func(prog, rel, qual):
    """module function or Class.method, the method also searched through the class's bases (MRO) -> (module rel,
    FunctionDef) or None"""
    mod = prog.modules.get(rel)
    if mod is None:
        return None
    if "." not in qual:
        f = mod.functions.get(qual)
        return (rel, f) if f is not None else None
    cname, mname = qual.split(".", 1)
    cls = mod.classes.get(cname)
    if cls is None:
        return None
    r = prog.find_method(mod, cls, mname)
    return (r[0].rel, r[2]) if r is not None else None


def rule_param_guards(chk, prog):
    for (rel, qual), names in sorted(PARAM_GUARDS.items()):
        found = find_func(prog, rel, qual)
        if found is None:
            chk.note("param-guards", "%s:%s" % (rel, qual), "table entry not locatable: function no longer defined "
                     "here nor in a base class (%s)" % ", ".join(names))
            continue
        rel, fn = found
        tests = _guard_tests(fn)
        # guards of helpers the function calls, with the helper's parameters replaced by the arguments
        fg = guards.FunctionGuards(fn, guards.Resolver(chk.tree.py(rel)))
        for ats in fg.atoms.values():
            tests += [e for e, _ in ats]
        # a ladder `if p in [...] ... else: raise` rejects through every test of the ladder
        for name in names:
            inst = "%s:%s rejects invalid %s" % (rel, qual, name)
            hit = False
            if "&" in name:
                want = set(name.split("&"))
                for st in ast.walk(fn):
                    rejecting = isinstance(st, ast.Assert) or (isinstance(st, ast.If) and cfgm._raises(st.body))
                    if not rejecting:
                        continue
                    exprs = [st.test] + [t_ for t_, _, kind in cfgm.conditions_at(st) if kind == "enclosing"]
                    seen_ = {x.id for e_ in exprs for x in ast.walk(e_) if isinstance(x, ast.Name)} | \
                        {x.attr for e_ in exprs for x in ast.walk(e_) if isinstance(x, ast.Attribute)}
                    if want <= seen_:
                        hit = True
                if hit:
                    chk.ok("param-guards", inst)
                else:
                    chk.violation("param-guards", rel, qual, "guard on %s" % name, fn.lineno,
                                  "on the pinned tree %s had a rejecting test that involves %s together (e.g. expcut must be "
                                  "positive when alpha_formula is 'zexp': the first interpolation exponent is expcut); no "
                                  "such guard remains" % (qual, " and ".join(sorted(want))), instance=inst)
                continue
            for t in tests:
                if not name.isidentifier():
                    hit = hit or name.replace(" ", "") in pf.src(t).replace(" ", "")
                    continue
                for x in ast.walk(t):
                    if (isinstance(x, ast.Name) and x.id == name) or (isinstance(x, ast.Attribute) and x.attr == name):
                        hit = True
            if hit:
                chk.ok("param-guards", inst)
            else:
                chk.violation("param-guards", rel, qual, "guard on %s" % name, fn.lineno,
                              "on the pinned tree %s rejected invalid `%s` with an assert / raise whose test mentions "
                              "it; no such guard remains" % (qual, name), instance=inst)


# ----------------------------------------------------------------------------
# rule 3: dispatch totality
# ----------------------------------------------------------------------------
def _test_literals(t, env):
    """test -> (subject text, [literals], negated) for  X == 'a' | X in [...] | X == 'a' or X == 'b'"""
    if isinstance(t, ast.BoolOp) and isinstance(t.op, ast.Or):
        subj, lits = None, []
        for v in t.values:
            r = _test_literals(v, env)
            if r is None or r[2] or (subj is not None and r[0] != subj):
                return None
            subj = r[0]
            lits += r[1]
        return subj, lits, False
    if isinstance(t, ast.Compare) and len(t.ops) == 1:
        op, rhs = t.ops[0], t.comparators[0]
        def _str(e):
            if isinstance(e, ast.Constant) and isinstance(e.value, str):
                return e.value
            if isinstance(e, ast.Name) and isinstance(env.get(e.id), ast.Constant) and isinstance(env[e.id].value, str):
                return env[e.id].value  # module-level named constant
            return None
        if isinstance(op, (ast.Eq, ast.NotEq)):
            if _str(rhs) is not None:
                return pf.src(t.left), [_str(rhs)], isinstance(op, ast.NotEq)
            if _str(t.left) is not None and not isinstance(rhs, ast.Constant):
                return pf.src(rhs), [_str(t.left)], isinstance(op, ast.NotEq)  # "lit" == x
        if isinstance(op, (ast.In, ast.NotIn)):
            vals = None
            if isinstance(rhs, (ast.List, ast.Tuple, ast.Set)) and rhs.elts and all(_str(e) is not None for e in rhs.elts):
                vals = [_str(e) for e in rhs.elts]
            elif isinstance(rhs, ast.Name) and rhs.id in env:
                try:
                    v = pf.literal(env[rhs.id], env)
                    if isinstance(v, (list, tuple, set, frozenset)) and v and all(isinstance(x, str) for x in v):
                        vals = sorted(v)
                except pf.NotLiteral:
                    pass
            if vals is not None:
                return pf.src(t.left), vals, isinstance(op, ast.NotIn)
    return None


def _term(subject):
    return subject.split(".")[-1].lstrip("_")


def _if_chain(ifnode, env):
    """if/elif chain on one subject -> (subject, arms, else_kind, every_arm_leaves) or None;
    else_kind in none/raise/other; every_arm_leaves: each arm body ends in return/raise/continue/break"""
    subj, arms = None, []
    cur = ifnode
    leaves = True
    while True:
        r = _test_literals(cur.test, env)
        if r is None:
            return None
        s, lits, neg = r
        if subj is not None and s != subj:
            return None
        subj = s
        if neg:
            # `elif X != 'etb': raise`  /  `if X not in [...]: raise`: closes the ladder
            if cfgm._raises(cur.body) and not cur.orelse:
                return subj, arms + lits, "raise", leaves
            return None
        arms += lits
        leaves = leaves and cfgm._terminates(cur.body)
        if len(cur.orelse) == 1 and isinstance(cur.orelse[0], ast.If):
            cur = cur.orelse[0]
            continue
        if not cur.orelse:
            return subj, arms, "none", leaves
        return subj, arms, ("raise" if cfgm._raises(cur.orelse) else "other"), leaves


def _ladder(ifnode, env, consumed=None):
    """-> (subject, arm literals, else_kind) or None.  Besides if/elif/else, the early-return spelling is read as
    the same ladder:  if X == A: return ..   if X in (B, C): return ..   raise ..   (each arm leaves the block, the
    statements after the last `if` play the role of the else branch)"""
    r = _if_chain(ifnode, env)
    if r is None:
        return None
    subj, arms, els, leaves = r
    par = getattr(ifnode, "_parent", None)
    block = None
    for fld in ("body", "orelse", "finalbody"):
        b = getattr(par, fld, None)
        if isinstance(b, list) and any(x is ifnode for x in b):
            block = b
    cur = ifnode
    while els == "none" and leaves and block is not None:
        k = next(i for i, x in enumerate(block) if x is cur)
        if k + 1 >= len(block):
            break
        nxt = block[k + 1]
        if isinstance(nxt, ast.If):
            r2 = _if_chain(nxt, env)
            if r2 is not None and r2[0] == subj:
                arms = arms + r2[1]
                els, leaves = r2[2], r2[3]
                if consumed is not None:
                    consumed.add(id(nxt))
                cur = nxt
                continue
        els = "raise" if isinstance(nxt, ast.Raise) else "other"
        break
    return subj, arms, els


def _all_ladders(mod_ast, env):
    """every string ladder of the module, each statement counted once -> [(first if node, subject, arms, else_kind)]"""
    consumed = set()
    out = []
    ifs = [n for n in ast.walk(mod_ast) if isinstance(n, ast.If)
           and not (isinstance(n._parent, ast.If) and n._parent.orelse == [n])]
    ifs.sort(key=lambda n: (n.lineno, n.col_offset))
    for n in ifs:
        if id(n) in consumed:
            continue
        lad = _ladder(n, env, consumed)
        if lad is not None:
            out.append((n,) + lad)
    return out


def rule_dispatch(chk, prog):
    # validated closed sets: term -> list of (frozenset(literals), where)
    closed = {}
    for rel, mod in prog.modules.items():
        for fn in ast.walk(mod.ast):
            if not (isinstance(fn, ast.FunctionDef) and fn.name == "__init__"):
                continue
            for n in pf.walk_no_nested(fn):
                if isinstance(n, ast.If) and not (isinstance(n._parent, ast.If) and n._parent.orelse == [n]):
                    lad = _ladder(n, mod.assigns)
                    if lad and lad[2] == "raise":
                        closed.setdefault(_term(lad[0]), []).append(
                            (frozenset(lad[1]), "%s:%s" % (rel, pf.qualname(fn))))
                if isinstance(n, ast.Assert):
                    # assert X in (...)  validates like  if X not in (...): raise
                    r_ = _test_literals(n.test, mod.assigns)
                    if r_ is not None and not r_[2] and len(r_[1]) >= 1 and isinstance(n.test, ast.Compare) \
                            and isinstance(n.test.ops[0], ast.In):
                        closed.setdefault(_term(r_[0]), []).append((frozenset(r_[1]), "%s:%s" % (rel, pf.qualname(fn))))
    chk.extra["validated_closed_sets"] = {k: [sorted(s) for s, _ in v] for k, v in closed.items()}
    # the allowed sets must be collections: `x in NAME` with NAME = ("only") -- a plain str -- is a substring test
    for rel, mod in prog.modules.items():
        seen_names = set()
        for node in ast.walk(mod.ast):
            if isinstance(node, ast.Compare) and len(node.ops) == 1 and isinstance(node.ops[0], (ast.In, ast.NotIn)) \
                    and isinstance(node.comparators[0], ast.Name):
                nm = node.comparators[0].id
                val = mod.assigns.get(nm)
                hops = 0
                while isinstance(val, ast.Name) and hops < 4:
                    val = mod.assigns.get(val.id)
                    hops += 1
                if val is None or nm in seen_names:
                    continue
                if isinstance(node.left, ast.Constant):
                    continue  # "lit" in NAME: a deliberate substring / element test on a known left side
                seen_names.add(nm)
                inst = "%s: `%s` used in a membership test is a collection" % (rel, nm)
                if isinstance(val, ast.Constant) and isinstance(val.value, str):
                    fn = pf.enclosing_func(node)
                    chk.violation("dispatch", rel, pf.qualname(fn) if fn else "<module>", "%s is a str" % nm, node.lineno,
                                  "`%s` tests membership in the module-level constant %s = %r, which is a plain string "
                                  "(parentheses without a comma do not make a tuple): the test is a SUBSTRING test and "
                                  "accepts %r, %r, ..." % (pf.src(node), nm, val.value, "", val.value[:1]), instance=inst)
                elif isinstance(val, (ast.List, ast.Tuple, ast.Set, ast.Dict)):
                    chk.ok("dispatch", inst)
    n = 0
    unval = {}
    for rel, mod in prog.modules.items():
        for node, subj, arms, els in _all_ladders(mod.ast, mod.assigns):
            if len(set(arms)) < 2:
                continue  # a binary flag test, not a dispatch
            fn = pf.enclosing_func(node)
            qual = pf.qualname(fn) if fn else "<module>"
            n += 1
            inst = "%s:%s ladder on %s %s" % (rel, qual, subj, sorted(set(arms)))
            if els == "raise":
                chk.ok("dispatch", inst + " else raise")
                continue
            doms = [d for d, _ in closed.get(_term(subj), []) if set(arms) <= d]
            if doms and els == "other":
                chk.ok("dispatch", inst + " else handles the rest of validated set", detail=sorted(doms[0]))
                continue
            if doms and els == "none":
                miss = [sorted(d - set(arms)) for d in doms]
                if any(not x for x in miss):
                    chk.ok("dispatch", inst + " covers validated set")
                    continue
                chk.violation("dispatch", rel, qual, "ladder on %s" % subj, node.lineno,
                              "the ladder dispatches on %s for %s and has no else; the validated set also allows %s, "
                              "which falls through silently" % (subj, sorted(set(arms)), miss[0]), instance=inst)
                continue
            cls = pf.enclosing_class(node)
            owner = cls.name if cls is not None and subj.startswith("self.") else qual
            unval.setdefault((rel, owner, subj), []).append((qual, sorted(set(arms)), els, node.lineno, inst))
    for (rel, owner, subj), lads in sorted(unval.items()):
        quals = sorted({q for q, _, _, _, _ in lads})
        lits = sorted({a for _, arms, _, _, _ in lads for a in arms})
        els = {e for _, _, e, _, _ in lads}
        chk.violation("dispatch", rel, owner, "%s dispatched without validation" % subj, lads[0][3],
                      "%d ladder(s) (%s) dispatch on %s for %s; %s, and no constructor validates `%s` against a closed "
                      "set of literals containing them: an unknown string is %s"
                      % (len(lads), ", ".join(quals), subj, lits,
                         "the else branch does not raise" if els == {"other"} else "there is no raising else",
                         _term(subj), "silently handled as the else case" if els == {"other"} else "silently ignored"),
                      instance=lads[0][4])
        for _, _, _, _, inst in lads[1:]:
            chk.obligations.append(("dispatch", core.norm_text(inst), False, True, "same root cause"))
    if n == 0:
        raise core.AnalysisError("no string dispatch ladders found in the anchored modules")


# ----------------------------------------------------------------------------
# rule 7: large-exponent guard
# ----------------------------------------------------------------------------
def rule_expnt(chk, prog):
    mod = prog.module(PL)
    fn = mod.func("NLDFAuxiliaryPlan.eval_feat_exp")
    g = cfgm.CFG(fn)

    cls = mod.cls("NLDFAuxiliaryPlan")
    FLAG = "_raise_large_expnt_error"

    def is_cmp_raise(a):
        """if <... compared with self.alphas ...>: ... raise"""
        return isinstance(a, ast.If) and any(isinstance(x, ast.Raise) for st in a.body for x in ast.walk(st)) \
            and any(isinstance(x, ast.Compare) and "self.alphas" in pf.src(x) for x in ast.walk(a.test))

    def _is_empty_atom(e, pos):
        """atom that says `some array has no elements` (x.size == 0, not x.size > 0, len(x) < 1, ...)"""
        if not (isinstance(e, ast.Compare) and len(e.ops) == 1):
            return False
        l, r, op = e.left, e.comparators[0], type(e.ops[0]).__name__
        def is_sz(x):
            return (isinstance(x, ast.Attribute) and x.attr == "size") or (
                isinstance(x, ast.Call) and pf.call_name(x) == "len")
        def is_c(x, v):
            return isinstance(x, ast.Constant) and x.value == v
        if is_sz(r) and not is_sz(l):
            l, r = r, l
            op = {"Lt": "Gt", "LtE": "GtE", "Gt": "Lt", "GtE": "LtE"}.get(op, op)
        if not is_sz(l):
            return False
        if not pos:
            op = {"Lt": "GtE", "LtE": "Gt", "Gt": "LtE", "GtE": "Lt", "Eq": "NotEq", "NotEq": "Eq"}.get(op)
        return (op == "Eq" and is_c(r, 0)) or (op == "LtE" and is_c(r, 0)) or (op == "Lt" and is_c(r, 1))

    def exempt_edges(a):
        """edge labels of a test node on which nothing has to be checked: the flag is false, or the array is empty"""
        out = set()
        if not isinstance(a, (ast.If, ast.While)):
            return out
        def implies(e, positive):
            if isinstance(e, ast.UnaryOp) and isinstance(e.op, ast.Not):
                return implies(e.operand, not positive)
            if isinstance(e, ast.BoolOp):
                conj = isinstance(e.op, ast.And) == positive
                rs = [implies(v, positive) for v in e.values]
                return any(rs) if conj else all(rs)
            return (pf.is_self_attr(e, FLAG) and not positive) or _is_empty_atom(e, positive)

        for lab, positive in (("T", True), ("F", False)):
            if implies(a.test, positive):
                out.add(lab)
        return out

    def unguarded_path(func, depth=0):
        """a path entry -> normal exit on which the flag may be true and no comparison-with-raise is passed;
        -> list of nodes or None.  Calls of self-methods that themselves have no such path count as the check."""
        g = cfgm.CFG(func)

        def checks(nd):
            a = nd.ast
            if a is None:
                return False
            if nd.kind == "test" and is_cmp_raise(a):
                return True
            if nd.kind == "stmt" and isinstance(a, (ast.Expr, ast.Assign)) and isinstance(a.value, ast.Call) and depth < 2:
                f = a.value.func
                if isinstance(f, ast.Attribute) and isinstance(f.value, ast.Name) and f.value.id == "self":
                    r = prog.find_method(mod, cls, f.attr)
                    if r is not None and r[2] is not func and has_check(r[2]) \
                            and unguarded_path(r[2], depth + 1) is None:
                        return True
            return False

        par = {g.entry.id: None}
        todo = [g.entry.id]
        while todo:
            u = todo.pop(0)
            if u == g.exit.id:
                path = []
                while u is not None:
                    path.append(g.nodes[u])
                    u = par[u]
                return list(reversed(path))
            nd = g.nodes[u]
            if checks(nd):
                continue
            exempt = exempt_edges(nd.ast) if nd.kind == "test" else ()
            for v in g.succ[u]:
                if g.edge_label.get((u, v)) in exempt:
                    continue  # flag false / no exponents on this edge: nothing has to be checked
                if v not in par:
                    par[v] = u
                    todo.append(v)
        return None

    def has_check(func):
        return any(is_cmp_raise(n) for n in ast.walk(func)) and any(pf.is_self_attr(n, FLAG) for n in ast.walk(func))

    inst = "NLDFAuxiliaryPlan.eval_feat_exp: every normal exit passes the _raise_large_expnt_error test"
    reach = [fn] + [r[2] for n in pf.walk_no_nested(fn) if isinstance(n, ast.Call) and isinstance(n.func, ast.Attribute)
                    and isinstance(n.func.value, ast.Name) and n.func.value.id == "self"
                    for r in [prog.find_method(mod, cls, n.func.attr)] if r is not None]
    if not any(has_check(f) for f in reach):
        chk.violation("expnt-guard", PL, "NLDFAuxiliaryPlan.eval_feat_exp", "large-exponent guard", fn.lineno,
                      "neither eval_feat_exp nor a method it calls tests self._raise_large_expnt_error and raises after "
                      "comparing the exponent with the largest interpolation exponent (self.alphas)", instance=inst)
    else:
        path = unguarded_path(fn)
        if path is None:
            chk.ok("expnt-guard", inst)
        else:
            last = [n for n in path if n.ast is not None]
            chk.violation("expnt-guard", PL, "NLDFAuxiliaryPlan.eval_feat_exp", "large-exponent guard", fn.lineno,
                          "a path reaches a normal exit without passing the large-exponent test (via line %s)"
                          % (getattr(last[-1].ast, "lineno", "?") if last else "?"), instance=inst)
    # the flag must be settable to True by the constructor and default to raising
    init = mod.func("NLDFAuxiliaryPlan.__init__")
    stores = [n for n in pf.walk_no_nested(init) if isinstance(n, ast.Assign)
              and any(pf.is_self_attr(t, "_raise_large_expnt_error") for t in n.targets)]
    params = {a.arg: d for a, d in zip(reversed(init.args.args), reversed(init.args.defaults))}
    flows = [s for s in stores if isinstance(s.value, ast.Name) and s.value.id in params]
    inst2 = "NLDFAuxiliaryPlan.__init__: raise_large_expnt_error parameter reaches the flag, default True"
    if flows and isinstance(params[flows[0].value.id], ast.Constant) and params[flows[0].value.id].value is True:
        chk.ok("expnt-guard", inst2)
    else:
        chk.violation("expnt-guard", PL, "NLDFAuxiliaryPlan.__init__", "self._raise_large_expnt_error = <param>",
                      init.lineno, "the constructor no longer stores its raise_large_expnt_error parameter "
                      "(default True) into the flag tested by eval_feat_exp", instance=inst2)


def rule_key_order(chk, prog):
    """sibling rule: inside one settings class, the loops that build per-feature lists by enumerating the keys of one
    dict attribute all enumerate them in the same order -- all through sorted(...), or all in raw (insertion) order.
    The key SET is the same on both sides by construction; only the order can differ, and the lists are matched
    element by element (usps[i] / ueg[i] / normalizer[i] / plan feature i)."""
    n_cls = 0
    for m, c in prog.subclasses("BaseSettings"):
        if m.rel != ST:
            continue

        def keys_of(e, depth=0):
            """-> (dict attribute, 'sorted'|'raw') if e enumerates the keys of self.<attr>, else None"""
            if isinstance(e, ast.Call) and pf.call_name(e) in ("sorted", "list", "tuple", "iter") and len(e.args) == 1:
                r = keys_of(e.args[0], depth)
                if r is None:
                    return None
                return (r[0], "sorted") if pf.call_name(e) == "sorted" and not any(
                    k.arg in ("key", "reverse") for k in e.keywords) else (
                    None if pf.call_name(e) == "sorted" else r)
            if isinstance(e, ast.Call) and isinstance(e.func, ast.Attribute) and e.func.attr == "keys" and not e.args:
                return keys_of(e.func.value, depth)
            if pf.is_self_attr(e):
                r = prog.find_method(m, c, e.attr)
                if r is not None and depth < 2:
                    fn2 = r[2]
                    if any(isinstance(d, ast.Name) and d.id == "property" for d in fn2.decorator_list):
                        rets = [x for x in pf.walk_no_nested(fn2) if isinstance(x, ast.Return) and x.value is not None]
                        body = [x for x in fn2.body if not (isinstance(x, ast.Expr) and isinstance(x.value, ast.Constant))]
                        if len(rets) == 1 and len(body) == 1:
                            return keys_of(rets[0].value, depth + 1)
                    return None
                return (e.attr, "raw")
            return None

        def is_dict_attr(attr):
            for f2 in [x for x in c.body if isinstance(x, ast.FunctionDef)]:
                for n in pf.walk_no_nested(f2):
                    if isinstance(n, ast.Subscript) and pf.is_self_attr(n.value, attr):
                        return True
                    if isinstance(n, ast.Call) and isinstance(n.func, ast.Attribute) \
                            and n.func.attr in ("keys", "items", "values") and pf.is_self_attr(n.func.value, attr):
                        return True
            return False

        seen = {}
        for f2 in [x for x in c.body if isinstance(x, ast.FunctionDef)]:
            for n in pf.walk_no_nested(f2):
                if not isinstance(n, ast.For):
                    continue
                grows = any((isinstance(x, ast.Call) and isinstance(x.func, ast.Attribute)
                             and x.func.attr in ("append", "extend")) or isinstance(x, (ast.Yield, ast.YieldFrom))
                            for b in n.body for x in ast.walk(b))
                if not grows:
                    continue
                r = keys_of(n.iter)
                if r is None or r[0] is None or not is_dict_attr(r[0]):
                    continue
                seen.setdefault(r[0], []).append((r[1], f2.name, n))
        for attr, uses in sorted(seen.items()):
            meths = sorted({u[1] for u in uses})
            if len(meths) < 2:
                continue
            n_cls += 1
            kinds = {}
            for k, fnm, n in uses:
                kinds.setdefault(k, []).append((fnm, n))
            inst = "%s: list-building loops over the keys of self.%s use one key order" % (c.name, attr)
            if len(kinds) == 1:
                chk.ok("key-order", inst + " (%s; %s)" % (next(iter(kinds)), ", ".join(meths)))
                continue
            minority = min(kinds, key=lambda k: len(kinds[k]))
            majority = [k for k in kinds if k != minority][0]
            fnm, n = kinds[minority][0]
            chk.violation("key-order", ST, "%s.%s" % (c.name, fnm), "order of the keys of self.%s" % attr, n.lineno,
                          "`for ... in %s` enumerates the keys of self.%s in %s order, but %s build(s) the lists it is "
                          "matched against element by element in %s order: for a dict not written in ascending key order "
                          "entry i of the two lists belongs to different keys (lengths still agree)"
                          % (pf.src(n.iter), attr, "insertion" if minority == "raw" else "sorted",
                             ", ".join(sorted({a for a, _ in kinds[majority]})),
                             "sorted" if majority == "sorted" else "insertion"), instance=inst)
    if n_cls == 0:
        raise core.AnalysisError("key-order: no settings class builds feature lists in two methods from the keys of one dict")


def rule_expnt_cutoff(chk, prog):
    """twin rule: the density threshold with which the large-exponent guard masks its points must be the value
    that was handed to the exponent function as its clamp (`*cut=` keyword) for the same density array -- points the
    clamp leaves live must be seen by the guard"""
    mod = prog.module(PL)
    cls = mod.cls("NLDFAuxiliaryPlan")
    fn = mod.func("NLDFAuxiliaryPlan.eval_feat_exp")

    def aliases(func):
        cnt = {}
        for n in pf.walk_no_nested(func):
            if isinstance(n, ast.Assign) and len(n.targets) == 1 and isinstance(n.targets[0], ast.Name):
                cnt.setdefault(n.targets[0].id, []).append(n.value)
        return {k: v[0] for k, v in cnt.items() if len(v) == 1}

    def resolve(e, al):
        for _ in range(4):
            if isinstance(e, ast.Name) and e.id in al and isinstance(al[e.id], (ast.Name, ast.Attribute)):
                e = al[e.id]
            else:
                break
        return e

    # clamp side: calls f(X, ..., <name>cut=V) in eval_feat_exp (and self-helpers one level down)
    funcs = [(fn, None)]
    for n in pf.walk_no_nested(fn):
        if isinstance(n, ast.Call) and isinstance(n.func, ast.Attribute) and isinstance(n.func.value, ast.Name) \
                and n.func.value.id == "self":
            r = prog.find_method(mod, cls, n.func.attr)
            if r is not None and r[2] is not fn:
                funcs.append((r[2], n))
    clamps = []      # (array name in eval_feat_exp terms, V expr, text of call)
    for func, site in funcs:
        al = aliases(func)
        for n in pf.walk_no_nested(func):
            if not isinstance(n, ast.Call):
                continue
            for k in n.keywords:
                if k.arg and k.arg.endswith("cut") and k.arg.startswith("rho"):
                    for a in n.args:
                        if isinstance(a, ast.Name):
                            clamps.append((func, a.id, resolve(k.value, al), pf.call_name(n) or pf.src(n.func)))
    if not clamps:
        raise core.AnalysisError("expnt-cutoff: eval_feat_exp no longer passes a density cutoff (rho*cut=) to the "
                                 "exponent function together with the density array")
    # guard side: comparisons <density array> (>|>=|<|<=) T in the same functions; in a helper the array is the
    # parameter bound to the density array at the call site
    n_cmp = 0
    for func, site in funcs:
        al = aliases(func)
        dens = {x for f2, x, _, _ in clamps if f2 is func}
        if site is not None:
            params = [a.arg for a in func.args.args][1:]
            for p_, a in zip(params, site.args):
                if isinstance(a, ast.Name) and any(f2 is fn and x == a.id for f2, x, _, _ in clamps):
                    dens.add(p_)
            for k in site.keywords:
                if isinstance(k.value, ast.Name) and any(f2 is fn and x == k.value.id for f2, x, _, _ in clamps):
                    dens.add(k.arg)
        vals = {}
        for f2, x, v, cn in clamps:
            vals.setdefault(pf.src(v), (v, cn))
        for n in pf.walk_no_nested(func):
            if not (isinstance(n, ast.Compare) and len(n.ops) == 1
                    and isinstance(n.ops[0], (ast.Gt, ast.GtE, ast.Lt, ast.LtE))):
                continue
            l, r = n.left, n.comparators[0]
            if isinstance(r, ast.Name) and r.id in dens and not (isinstance(l, ast.Name) and l.id in dens):
                l, r = r, l
            if not (isinstance(l, ast.Name) and l.id in dens) or isinstance(r, ast.Constant):
                continue
            t = resolve(r, al)
            n_cmp += 1
            inst = "NLDFAuxiliaryPlan.%s: mask `%s` uses the cutoff the exponent function clamps with" % (
                func.name, pf.src(l) + " <cmp> cutoff")
            bad = [(vs, cn) for vs, (v, cn) in sorted(vals.items()) if vs != pf.src(t)]
            if not bad:
                chk.ok("expnt-cutoff", inst)
                continue
            if not (isinstance(t, ast.Attribute) and isinstance(t.value, ast.Name) and t.value.id == "self"
                    and all(isinstance(v, ast.Attribute) and isinstance(v.value, ast.Name) and v.value.id == "self"
                            for v, _ in vals.values())):
                raise core.AnalysisError("expnt-cutoff: cannot decide whether `%s` equals the clamp cutoff `%s` (%s)"
                                         % (pf.src(t), bad[0][0], func.name))
            chk.violation("expnt-cutoff", PL, "NLDFAuxiliaryPlan." + func.name, "large-exponent guard mask cutoff",
                          n.lineno,
                          "the guard masks the exponents with `%s`, but the exponent was clamped by %s(..., rho*cut=%s): "
                          "expected the same cutoff attribute on both sides. Points whose density lies between the two "
                          "values are not clamped and not tested, so an exponent beyond max(self.alphas) is returned "
                          "without the RuntimeError (the two differ by the factor nspin for spin-polarised plans)"
                          % (pf.src(n), bad[0][1], bad[0][0]), instance=inst)
    if n_cmp == 0:
        chk.note("expnt-cutoff", "NLDFAuxiliaryPlan.eval_feat_exp",
                 "no density-threshold mask found in the guard (every point is tested)")


# ----------------------------------------------------------------------------
# rule 6: shape / contiguity guards.  FROZEN_CALL_GUARDS / FROZEN_FUNC_GUARDS were produced from the pinned tree by
#         collect_guards() (`C18_DUMP_GUARDS=1 python3 checks/c18.py` prints the current table) and is
#         compared as a multiset lower bound: a guard may be added, none may disappear.
# ----------------------------------------------------------------------------
_CINT = __import__("re").compile(r"(?:ctypes\.)?c_(?:int|long|size_t|int32|int64|uint)\((\w+)\)$")


def collect_guards(tree, eng, prog):
    """-> (call_guards, func_guards)

    call_guards: {module: {callee: [set(signatures) per call site of that C function in the module]}}
        c:<callee>#<k>:<kind>    the array passed as k-th argument is guaranteed contig/shape/ndim/size/dtype on
                                 every path to the call -- by the function that makes the call, by a helper it
                                 calls, or by every caller of the (helper) function that makes the call
        rel:<linear form> <= 0   relation between the integer arguments (callee#position)
    func_guards: {"module::qualname": set(signatures)}   p:<parameter>:<kind> / self.<attr>:<kind> guaranteed on
        every path to the normal exit, for parameters that are not handed to C (pure-Python validators)."""
    by_fn = {}
    for s in eng.sites:
        by_fn.setdefault((s.rel, s.func), []).append(s)
    targets = dict(by_fn)
    for rel in (FN, XE):
        for n in ast.walk(prog.module(rel).ast):
            if isinstance(n, ast.FunctionDef):
                targets.setdefault((rel, pf.qualname(n)), [])
    call_guards, func_guards = {}, {}
    resolvers, caches = {}, {}
    for (rel, qual), sites in sorted(targets.items()):
        if qual == "<module>":
            continue
        mod_ast = tree.py(rel)
        fn = None
        for n in ast.walk(mod_ast):
            if isinstance(n, ast.FunctionDef) and pf.qualname(n) == qual:
                fn = n
                break
        if fn is None:
            continue
        if rel not in resolvers:
            resolvers[rel] = guards.Resolver(mod_ast)
            caches[rel] = {}
        e_atoms, e_direct = ([], {})
        if sites:
            e_atoms, e_direct = guards.caller_context(mod_ast, fn, resolvers[rel], caches[rel])
        fg = guards.FunctionGuards(fn, resolvers[rel], entry_atoms=e_atoms, entry_direct=e_direct)
        g = fg.cfg
        params = [a.arg for a in fn.args.args + fn.args.kwonlyargs]
        nk = fg.node_kinds()
        pairs = {}
        for nid, d in nk.items():
            for subj, kinds in d.items():
                for k in kinds:
                    pairs.setdefault((subj, k), set()).add(nid)
        passed_any = set()
        for s in sites:
            cn = g.stmt_of_expr(s.node)
            if cn is None:
                continue
            # `fn = lib.A if c else lib.B ... fn(args)`: the statements that bind each callee to the local; a guard on
            # every path to the binding of a callee is a guard of that callee's call
            bind_nodes = {}
            if s.how == "variable":
                for nd in g.nodes:
                    a_ = nd.ast
                    if nd.kind == "stmt" and isinstance(a_, ast.Assign) and len(a_.targets) == 1 \
                            and isinstance(a_.targets[0], ast.Name) and pf.src(a_.targets[0]) == pf.src(s.node.func):
                        for x in ast.walk(a_.value):
                            nm_ = None
                            if isinstance(x, ast.Attribute):
                                nm_ = x.attr
                            elif isinstance(x, ast.Call) and pf.call_name(x) == "getattr" and len(x.args) >= 2 \
                                    and isinstance(x.args[1], ast.Constant):
                                nm_ = x.args[1].value
                            if nm_ in s.callees:
                                bind_nodes.setdefault(nm_, set()).add(nd.id)

            def sure(ids, callee):
                if fg.guaranteed(ids, [cn.id]):
                    return True
                bn = bind_nodes.get(callee)
                return bool(bn) and fg.guaranteed(ids, sorted(bn))
            per_callee = {}
            for c, al in s.pairs:
                if c is None or al is None:
                    continue
                callee = c[1][1]
                sigs = per_callee.setdefault(callee, set())
                names = {}
                for i, it in enumerate(al):
                    src = it[1]
                    if ".ctypes" in src:
                        subj = src.split(".ctypes")[0]
                        passed_any.add(subj)
                        for (sj, kind), ids in pairs.items():
                            if sj == subj and sure(ids, callee):
                                sigs.add("c:%s#%d:%s" % (callee, i, kind))
                    m_ = _CINT.match(src)
                    if m_:
                        names.setdefault(m_.group(1), []).append("%s#%d" % (callee, i))
                if names:
                    for ids, canon in _relation_sets(fg, names):
                        if sure(ids, callee):
                            sigs.add("rel:" + canon)
            for callee, sigs in per_callee.items():
                call_guards.setdefault(rel, {}).setdefault(callee, []).append(sigs)
        fs = set()
        for (subj, kind), ids in sorted(pairs.items() if rel in (FN, XE) else ()):
            if subj in passed_any or subj in ("self", "cls"):
                continue
            if not fg.guaranteed(ids, [g.exit.id]):
                continue
            if subj in params or (subj.endswith("__each") and subj[:-6] in params):
                fs.add("p:%s:%s" % (subj, kind))
            elif subj.startswith("self."):
                fs.add("%s:%s" % (subj, kind))
        if fs:
            func_guards["%s::%s" % (rel, qual)] = fs
    return call_guards, func_guards


def guard_tables(tree, eng, prog):
    """the two tables in the form they are frozen in this file"""
    cg, fgd = collect_guards(tree, eng, prog)
    calls = {}
    for rel, d in cg.items():
        cnt = {}
        for callee, per_site in d.items():
            for sigs in per_site:
                for sg in sigs:
                    cnt[sg] = cnt.get(sg, 0) + 1
        if cnt:
            calls[rel] = dict(sorted(cnt.items()))
    return calls, {k: sorted(v) for k, v in fgd.items()}


def _relation_sets(fg, names):
    by = {}
    for nid, rels in fg.node_relations(names).items():
        for r in rels:
            by.setdefault(r, set()).add(nid)
    return [(ids, r) for r, ids in sorted(by.items())]


def _sig_callee(sig):
    if sig.startswith("c:"):
        return sig[2:].split("#")[0]
    import re
    m = re.search(r"([A-Za-z_]\w*)#\d+", sig)
    return m.group(1) if m else None


def rule_guards(chk, eng, prog):
    """A frozen guard is *violated* only when the native call (or the validator function) is still found and
    some path to it provably lacks the check; an entry whose call / function / parameter can no longer be located
    (moved to another module, renamed) degrades to a NOTE and is counted."""
    cg, fgd = collect_guards(chk.tree, eng, prog)
    chk.count("modules with guarded native calls", len(cg))
    if not FROZEN_CALL_GUARDS or not FROZEN_FUNC_GUARDS:
        raise core.AnalysisError("frozen guard tables are empty")
    unloc = 0
    total = 0
    for rel, want in sorted(FROZEN_CALL_GUARDS.items()):
        for sig, n_frozen in sorted(want.items()):
            total += 1
            callee = _sig_callee(sig)
            inst = "%s %s" % (rel, sig)
            per_site = cg.get(rel, {}).get(callee) if chk.tree.exists(rel) else None
            if not per_site:
                unloc += 1
                chk.note("guards", rel, "guard table entry not locatable: no call of %s in this module any more (%s)"
                         % (callee, sig))
                continue
            missing = [k for k, sigs in enumerate(per_site) if sig not in sigs]
            # as many call sites as on the pinned tree (or all that are left, when sites were merged) must still
            # guarantee it; a new, additional call site is not held to the table
            if len(per_site) - len(missing) >= min(n_frozen, len(per_site)):
                chk.ok("guards", inst)
                continue
            sites = [s for s in eng.sites if s.rel == rel and callee in s.callees]
            s0 = sites[min(missing[0], len(sites) - 1)] if sites else None
            if sig.startswith("rel:"):
                msg = ("on the pinned tree every path to the call of %s guaranteed the relation `%s` between the "
                       "integer arguments it passes (callee#position); %d of %d call site(s) in this module no longer "
                       "do (neither the calling function, nor a helper it calls, nor all its callers)"
                       % (callee, sig[4:], len(missing), len(per_site)))
            else:
                k, kind = sig[2:].split("#")[1].split(":")
                msg = ("on the pinned tree every path to the call of %s guaranteed a %s check on the array passed as "
                       "argument %s (assert, raising test, normalising re-binding, in the calling function, a helper it "
                       "calls, or all its callers); %d of %d call site(s) in this module no longer do"
                       % (callee, kind, k, len(missing), len(per_site)))
            chk.violation("guards", rel, s0.func if s0 else "", "guard %s" % sig, s0.line if s0 else 0, msg, instance=inst)
    for key, want in sorted(FROZEN_FUNC_GUARDS.items()):
        rel, qual = key.split("::")
        fdef = []
        if chk.tree.exists(rel):
            fdef = [n for n in ast.walk(chk.tree.py(rel)) if isinstance(n, ast.FunctionDef) and pf.qualname(n) == qual]
        have = fgd.get(key, set())
        for sig in want:
            total += 1
            inst = "%s %s" % (key, sig)
            if not fdef:
                unloc += 1
                chk.note("guards", key, "guard table entry not locatable: function no longer in this module (%s)" % sig)
                continue
            if sig in have:
                chk.ok("guards", inst)
                continue
            if sig.startswith("p:"):
                pname = sig[2:].split(":")[0].replace("__each", "")
                if pname not in [a.arg for a in fdef[0].args.args + fdef[0].args.kwonlyargs]:
                    unloc += 1
                    chk.note("guards", key, "guard table entry not locatable: parameter `%s` no longer exists (%s)"
                             % (pname, sig))
                    continue
            ident, kind = sig.rsplit(":", 1)
            chk.violation("guards", rel, qual, "guard %s" % sig, fdef[0].lineno,
                          "on the pinned tree every path to the normal exit of %s guaranteed a %s check on %s (assert, "
                          "raising test, or a helper doing so); that is no longer the case"
                          % (qual, kind, "parameter `%s`" % ident[2:] if ident.startswith("p:") else ident), instance=inst)
    chk.count("guard table entries not locatable", unloc)
    if unloc * 2 > total:
        raise core.AnalysisError("more than half of the frozen guard table (%d of %d entries) cannot be located: the "
                                 "table no longer describes this tree" % (unloc, total))


FROZEN_CALL_GUARDS = {
    'ciderpress/dft/baselines.py': {
        'c:get_gga_baseline#3:contig': 1,
        'c:get_gga_baseline#4:contig': 1,
        'c:get_gga_baseline#4:ndim': 1,
        'c:get_gga_baseline#4:shape': 1,
        'c:get_gga_baseline#4:shape[0]': 1,
        'c:get_gga_baseline#4:shape[1]': 1,
        'c:get_gga_baseline#5:contig': 1,
        'c:get_gga_baseline#5:dtype': 1,
        'c:get_gga_baseline#5:shape': 1,
        'c:get_gga_baseline#6:contig': 1,
        'c:get_gga_baseline#6:dtype': 1,
        'c:get_gga_baseline#6:shape': 1,
        'c:get_gga_baseline#7:contig': 1,
        'c:get_gga_baseline#7:dtype': 1,
        'c:get_gga_baseline#7:shape': 1,
        'c:get_lda_baseline#3:contig': 1,
        'c:get_lda_baseline#4:contig': 1,
        'c:get_lda_baseline#4:dtype': 1,
        'c:get_lda_baseline#4:shape': 1,
        'c:get_lda_baseline#5:contig': 1,
        'c:get_lda_baseline#5:dtype': 1,
        'c:get_lda_baseline#5:shape': 1,
        'c:get_mgga_baseline#3:contig': 1,
        'c:get_mgga_baseline#4:contig': 1,
        'c:get_mgga_baseline#4:ndim': 1,
        'c:get_mgga_baseline#4:shape': 1,
        'c:get_mgga_baseline#4:shape[0]': 1,
        'c:get_mgga_baseline#4:shape[1]': 1,
        'c:get_mgga_baseline#5:contig': 1,
        'c:get_mgga_baseline#6:contig': 1,
        'c:get_mgga_baseline#6:dtype': 1,
        'c:get_mgga_baseline#6:shape': 1,
        'c:get_mgga_baseline#7:contig': 1,
        'c:get_mgga_baseline#7:dtype': 1,
        'c:get_mgga_baseline#7:shape': 1,
        'c:get_mgga_baseline#8:contig': 1,
        'c:get_mgga_baseline#8:dtype': 1,
        'c:get_mgga_baseline#8:shape': 1,
        'c:get_mgga_baseline#9:contig': 1,
        'c:get_mgga_baseline#9:dtype': 1,
        'c:get_mgga_baseline#9:shape': 1,
    },
    'ciderpress/dft/debug_numint.py': {
        'c:debug_numint_vi#0:contig': 1,
        'c:debug_numint_vi#0:dtype': 1,
        'c:debug_numint_vi#0:shape': 1,
        'c:debug_numint_vi#3:contig': 1,
        'c:debug_numint_vi#4:contig': 1,
        'c:debug_numint_vj#0:contig': 1,
        'c:debug_numint_vj#0:dtype': 1,
        'c:debug_numint_vj#0:shape': 1,
        'c:debug_numint_vj#4:contig': 1,
        'c:debug_numint_vj#5:contig': 1,
        'c:debug_numint_vk#0:contig': 1,
        'c:debug_numint_vk#0:dtype': 1,
        'c:debug_numint_vk#0:shape': 1,
        'c:debug_numint_vk#4:contig': 1,
        'c:debug_numint_vk#5:contig': 1,
    },
    'ciderpress/dft/grids_indexer.py': {
        'c:reduce_angc_to_ylm#0:contig': 1,
        'c:reduce_angc_to_ylm#0:dtype': 1,
        'c:reduce_angc_to_ylm#0:ndim': 1,
        'c:reduce_angc_to_ylm#0:shape': 1,
        'c:reduce_angc_to_ylm#0:shape[0]': 1,
        'c:reduce_angc_to_ylm#0:shape[1]': 1,
        'c:reduce_angc_to_ylm#0:shape[2]': 1,
        'c:reduce_angc_to_ylm#2:contig': 1,
        'c:reduce_angc_to_ylm#2:dtype': 1,
        'c:reduce_angc_to_ylm#2:ndim': 1,
        'c:reduce_angc_to_ylm#2:shape': 1,
        'c:reduce_angc_to_ylm#2:shape[0]': 1,
        'c:reduce_angc_to_ylm#2:shape[1]': 1,
        'c:reduce_ylm_to_angc#0:contig': 1,
        'c:reduce_ylm_to_angc#0:dtype': 1,
        'c:reduce_ylm_to_angc#0:ndim': 1,
        'c:reduce_ylm_to_angc#0:shape': 1,
        'c:reduce_ylm_to_angc#0:shape[0]': 1,
        'c:reduce_ylm_to_angc#0:shape[1]': 1,
        'c:reduce_ylm_to_angc#0:shape[2]': 1,
        'c:reduce_ylm_to_angc#2:contig': 1,
        'c:reduce_ylm_to_angc#2:dtype': 1,
        'c:reduce_ylm_to_angc#2:ndim': 1,
        'c:reduce_ylm_to_angc#2:shape': 1,
        'c:reduce_ylm_to_angc#2:shape[0]': 1,
        'c:reduce_ylm_to_angc#2:shape[1]': 1,
        'rel:reduce_angc_to_ylm#10 + reduce_angc_to_ylm#5 - reduce_angc_to_ylm#9 <= 0': 1,
        'rel:reduce_ylm_to_angc#10 + reduce_ylm_to_angc#5 - reduce_ylm_to_angc#9 <= 0': 1,
    },
    'ciderpress/dft/lcao_convolutions.py': {
        'c:contract_orb_to_rad#0:contig': 1,
        'c:contract_orb_to_rad#0:dtype': 1,
        'c:contract_orb_to_rad#0:ndim': 1,
        'c:contract_orb_to_rad#0:shape': 1,
        'c:contract_orb_to_rad#0:shape[0]': 1,
        'c:contract_orb_to_rad#0:shape[1]': 1,
        'c:contract_orb_to_rad#1:contig': 1,
        'c:contract_orb_to_rad#1:dtype': 1,
        'c:contract_orb_to_rad#1:ndim': 1,
        'c:contract_orb_to_rad#1:shape': 1,
        'c:contract_orb_to_rad#1:shape[0]': 1,
        'c:contract_orb_to_rad#2:contig': 1,
        'c:contract_orb_to_rad#2:dtype': 1,
        'c:contract_orb_to_rad#2:ndim': 1,
        'c:contract_orb_to_rad#2:size': 1,
        'c:contract_orb_to_rad#3:contig': 1,
        'c:contract_orb_to_rad#3:dtype': 1,
        'c:contract_rad_to_orb#0:contig': 1,
        'c:contract_rad_to_orb#0:dtype': 1,
        'c:contract_rad_to_orb#0:ndim': 1,
        'c:contract_rad_to_orb#0:shape': 1,
        'c:contract_rad_to_orb#0:shape[0]': 1,
        'c:contract_rad_to_orb#0:shape[1]': 1,
        'c:contract_rad_to_orb#1:contig': 1,
        'c:contract_rad_to_orb#1:dtype': 1,
        'c:contract_rad_to_orb#1:ndim': 1,
        'c:contract_rad_to_orb#1:shape': 1,
        'c:contract_rad_to_orb#1:shape[0]': 1,
        'c:contract_rad_to_orb#2:contig': 1,
        'c:contract_rad_to_orb#2:dtype': 1,
        'c:contract_rad_to_orb#2:ndim': 1,
        'c:contract_rad_to_orb#2:size': 1,
        'c:contract_rad_to_orb#2:values': 1,
        'c:contract_rad_to_orb#3:contig': 1,
        'c:contract_rad_to_orb#3:dtype': 1,
        'c:generate_atc_basis_set#1:contig': 1,
        'c:generate_atc_basis_set#1:dtype': 1,
        'c:generate_atc_basis_set#2:contig': 1,
        'c:generate_atc_basis_set#2:dtype': 1,
        'c:generate_atc_basis_set#3:contig': 1,
        'c:generate_atc_basis_set#3:dtype': 1,
        'c:generate_atc_basis_set#4:contig': 1,
        'c:generate_atc_basis_set#4:dtype': 1,
        'c:generate_atc_basis_set#5:contig': 1,
        'c:generate_atc_basis_set#5:dtype': 1,
        'c:generate_convolution_collection#3:contig': 1,
        'c:generate_convolution_collection#3:dtype': 1,
        'c:generate_convolution_collection#4:contig': 1,
        'c:generate_convolution_collection#4:dtype': 1,
        'c:generate_convolution_collection#4:size': 1,
        'c:generate_convolution_collection#5:contig': 1,
        'c:generate_convolution_collection#5:dtype': 1,
        'c:get_atco_bas#0:contig': 1,
        'c:get_atco_bas#0:dtype': 1,
        'c:get_atco_bas#0:shape': 1,
        'c:get_atco_env#0:contig': 1,
        'c:get_atco_env#0:dtype': 1,
        'c:get_atco_env#0:shape': 1,
        'c:multiply_atc_integrals#0:contig': 1,
        'c:multiply_atc_integrals#0:dtype': 1,
        'c:multiply_atc_integrals#0:ndim': 1,
        'c:multiply_atc_integrals#0:shape': 1,
        'c:multiply_atc_integrals#0:shape[0]': 1,
        'c:multiply_atc_integrals#0:shape[1]': 1,
        'c:multiply_atc_integrals#1:contig': 1,
        'c:multiply_atc_integrals#1:dtype': 1,
        'c:multiply_atc_integrals#1:ndim': 1,
        'c:multiply_atc_integrals#1:shape': 1,
        'c:multiply_atc_integrals#1:shape[0]': 1,
        'c:multiply_atc_integrals#1:shape[1]': 1,
        'c:multiply_atc_integrals_vk#0:contig': 1,
        'c:multiply_atc_integrals_vk#0:dtype': 1,
        'c:multiply_atc_integrals_vk#0:ndim': 1,
        'c:multiply_atc_integrals_vk#0:shape': 1,
        'c:multiply_atc_integrals_vk#0:shape[0]': 1,
        'c:multiply_atc_integrals_vk#0:shape[1]': 1,
        'c:multiply_atc_integrals_vk#1:contig': 1,
        'c:multiply_atc_integrals_vk#1:dtype': 1,
        'c:multiply_atc_integrals_vk#1:ndim': 1,
        'c:multiply_atc_integrals_vk#1:shape': 1,
        'c:multiply_atc_integrals_vk#1:shape[0]': 1,
        'c:multiply_atc_integrals_vk#1:shape[1]': 1,
        'rel:contract_orb_to_rad#7 - contract_orb_to_rad#8 + contract_orb_to_rad#9 <= 0': 1,
        'rel:contract_rad_to_orb#7 - contract_rad_to_orb#8 + contract_rad_to_orb#9 <= 0': 1,
    },
    'ciderpress/dft/lcao_interpolation.py': {
        'c:add_lp1_onsite_new_bwd#0:contig': 1,
        'c:add_lp1_onsite_new_bwd#0:dtype': 1,
        'c:add_lp1_onsite_new_bwd#0:shape': 1,
        'c:add_lp1_onsite_new_fwd#0:contig': 1,
        'c:add_lp1_onsite_new_fwd#0:dtype': 1,
        'c:add_lp1_onsite_new_fwd#0:shape': 1,
        'c:add_lp1_term_grad#0:contig': 1,
        'c:add_lp1_term_grad#0:dtype': 1,
        'c:add_lp1_term_grad#0:shape': 1,
        'c:add_lp1_term_grad#1:contig': 1,
        'c:add_lp1_term_grad#1:dtype': 1,
        'c:add_lp1_term_grad#1:shape': 1,
        'c:compute_mol_convs_single_new#0:contig': 3,
        'c:compute_mol_convs_single_new#0:dtype': 3,
        'c:compute_mol_convs_single_new#0:shape': 4,
        'c:compute_mol_convs_single_new#0:shape[-1]': 1,
        'c:compute_num_spline_contribs_new#0:contig': 1,
        'c:compute_num_spline_contribs_new#0:dtype': 1,
        'c:compute_num_spline_contribs_new#0:shape': 1,
        'c:compute_num_spline_contribs_new#1:contig': 1,
        'c:compute_num_spline_contribs_new#1:shape': 1,
        'c:compute_num_spline_contribs_new#1:shape[1]': 1,
        'c:compute_pot_convs_single_new#0:shape': 1,
        'c:compute_pot_convs_single_new#0:shape[-1]': 1,
        'c:compute_spline_ind_order_new#1:contig': 1,
        'c:compute_spline_ind_order_new#1:shape': 1,
        'c:compute_spline_ind_order_new#1:shape[1]': 1,
        'c:contract_grad_terms_parallel#0:contig': 1,
        'c:contract_grad_terms_parallel#0:dtype': 1,
        'c:contract_grad_terms_parallel#0:shape': 1,
        'c:contract_grad_terms_parallel#6:contig': 1,
        'c:fill_l1_coeff_bwd#0:ndim': 1,
        'c:fill_l1_coeff_bwd#0:shape': 1,
        'c:fill_l1_coeff_bwd#0:shape[0]': 1,
        'c:fill_l1_coeff_bwd#0:shape[1]': 1,
        'c:fill_l1_coeff_fwd#0:ndim': 1,
        'c:fill_l1_coeff_fwd#0:shape': 1,
        'c:fill_l1_coeff_fwd#0:shape[0]': 1,
        'c:fill_l1_coeff_fwd#0:shape[1]': 1,
        'c:project_conv_to_spline#0:contig': 1,
        'c:project_conv_to_spline#0:ndim': 1,
        'c:project_conv_to_spline#0:shape': 1,
        'c:project_conv_to_spline#0:shape[0]': 1,
        'c:project_conv_to_spline#0:shape[1]': 1,
        'c:project_conv_to_spline#0:shape[2]': 1,
        'c:project_conv_to_spline#0:shape[3]': 1,
        'c:project_conv_to_spline#0:shape[4]': 1,
        'c:project_conv_to_spline#1:contig': 1,
        'c:project_conv_to_spline#1:shape': 1,
        'c:project_conv_to_spline#1:shape[0]': 1,
        'c:project_conv_to_spline#2:contig': 1,
        'c:project_spline_to_conv#0:contig': 1,
        'c:project_spline_to_conv#0:ndim': 1,
        'c:project_spline_to_conv#0:shape': 1,
        'c:project_spline_to_conv#0:shape[0]': 1,
        'c:project_spline_to_conv#0:shape[1]': 1,
        'c:project_spline_to_conv#0:shape[2]': 1,
        'c:project_spline_to_conv#0:shape[3]': 1,
        'c:project_spline_to_conv#0:shape[4]': 1,
        'c:project_spline_to_conv#1:contig': 1,
        'c:project_spline_to_conv#1:shape': 1,
        'c:project_spline_to_conv#1:shape[0]': 1,
        'c:project_spline_to_conv#2:contig': 1,
        'rel:project_conv_to_spline#10 + project_conv_to_spline#4 - project_conv_to_spline#7 <= 0': 1,
        'rel:project_conv_to_spline#4 - project_conv_to_spline#8 + project_conv_to_spline#9 <= 0': 1,
        'rel:project_spline_to_conv#10 + project_spline_to_conv#4 - project_spline_to_conv#7 <= 0': 1,
        'rel:project_spline_to_conv#4 - project_spline_to_conv#8 + project_spline_to_conv#9 <= 0': 1,
    },
    'ciderpress/dft/plans.py': {
        'c:cider_coefs_gto_gq#0:contig': 1,
        'c:cider_coefs_gto_gq#0:shape': 1,
        'c:cider_coefs_gto_gq#1:contig': 1,
        'c:cider_coefs_gto_gq#1:shape': 1,
        'c:cider_coefs_gto_gq#2:contig': 1,
        'c:cider_coefs_gto_gq#3:contig': 1,
        'c:cider_coefs_gto_qg#0:contig': 1,
        'c:cider_coefs_gto_qg#0:shape': 1,
        'c:cider_coefs_gto_qg#1:contig': 1,
        'c:cider_coefs_gto_qg#1:shape': 1,
        'c:cider_coefs_gto_qg#2:contig': 1,
        'c:cider_coefs_gto_qg#3:contig': 1,
        'c:cider_ind_clip#0:contig': 1,
        'c:cider_ind_clip#0:dtype': 1,
        'c:cider_ind_clip#0:shape': 1,
        'c:cider_ind_clip#1:contig': 1,
        'c:cider_ind_clip#1:dtype': 1,
        'c:cider_ind_clip#1:shape': 1,
        'c:cider_ind_etb#0:contig': 1,
        'c:cider_ind_etb#0:dtype': 1,
        'c:cider_ind_etb#0:shape': 1,
        'c:cider_ind_etb#1:contig': 1,
        'c:cider_ind_etb#1:dtype': 1,
        'c:cider_ind_etb#1:shape': 1,
        'c:cider_ind_zexp#0:contig': 1,
        'c:cider_ind_zexp#0:dtype': 1,
        'c:cider_ind_zexp#0:shape': 1,
        'c:cider_ind_zexp#1:contig': 1,
        'c:cider_ind_zexp#1:dtype': 1,
        'c:cider_ind_zexp#1:shape': 1,
    },
    'ciderpress/dft/pwutil.py': {
        'c:eval_cubic_interp#0:contig': 1,
        'c:eval_cubic_interp#0:dtype': 1,
        'c:eval_cubic_interp#1:contig': 1,
        'c:eval_cubic_interp#1:dtype': 1,
        'c:eval_cubic_interp#2:contig': 1,
        'c:eval_cubic_interp#2:dtype': 1,
        'c:eval_cubic_interp#2:shape': 1,
        'c:eval_cubic_interp#2:shape[1]': 1,
        'c:eval_cubic_interp#3:contig': 1,
        'c:eval_cubic_interp#3:dtype': 1,
        'c:eval_cubic_interp#3:shape': 1,
        'c:eval_cubic_interp#4:contig': 1,
        'c:eval_cubic_interp#4:dtype': 1,
        'c:eval_cubic_interp#4:shape': 1,
        'c:eval_cubic_interp_noderiv#0:contig': 1,
        'c:eval_cubic_interp_noderiv#0:dtype': 1,
        'c:eval_cubic_interp_noderiv#1:contig': 1,
        'c:eval_cubic_interp_noderiv#1:dtype': 1,
        'c:eval_cubic_interp_noderiv#2:contig': 1,
        'c:eval_cubic_interp_noderiv#2:dtype': 1,
        'c:eval_cubic_interp_noderiv#2:shape': 1,
        'c:eval_cubic_interp_noderiv#2:shape[1]': 1,
        'c:eval_cubic_interp_noderiv#3:contig': 1,
        'c:eval_cubic_interp_noderiv#3:dtype': 1,
        'c:eval_cubic_interp_noderiv#3:shape': 1,
        'c:eval_cubic_spline#0:contig': 1,
        'c:eval_cubic_spline#1:contig': 1,
        'c:eval_cubic_spline#1:dtype': 1,
        'c:eval_cubic_spline#1:shape': 1,
        'c:eval_cubic_spline#2:contig': 1,
        'c:eval_cubic_spline#3:contig': 1,
        'c:eval_cubic_spline#3:size': 1,
        'c:eval_cubic_spline_deriv#0:contig': 1,
        'c:eval_cubic_spline_deriv#1:contig': 1,
        'c:eval_cubic_spline_deriv#1:dtype': 1,
        'c:eval_cubic_spline_deriv#1:shape': 1,
        'c:eval_cubic_spline_deriv#2:contig': 1,
        'c:eval_cubic_spline_deriv#3:contig': 1,
        'c:eval_cubic_spline_deriv#3:size': 1,
        'c:eval_pasdw_funcs#0:contig': 1,
        'c:eval_pasdw_funcs#0:shape': 1,
        'c:eval_pasdw_funcs#0:shape[1]': 1,
        'c:eval_pasdw_funcs#1:contig': 1,
        'c:eval_pasdw_funcs#2:contig': 1,
        'c:eval_pasdw_funcs#2:dtype': 1,
        'c:eval_pasdw_funcs#2:shape': 1,
        'c:eval_pasdw_funcs#3:contig': 1,
        'c:eval_pasdw_funcs#3:shape': 1,
        'c:eval_pasdw_funcs#4:contig': 1,
        'c:eval_pasdw_funcs#4:shape': 1,
        'c:mulexp#0:size': 1,
        'c:mulexp#1:size': 1,
        'c:mulexp#2:size': 1,
        'c:pasdw_reduce_g#0:contig': 1,
        'c:pasdw_reduce_g#0:dtype': 1,
        'c:pasdw_reduce_g#0:size': 1,
        'c:pasdw_reduce_g#1:contig': 1,
        'c:pasdw_reduce_g#1:dtype': 1,
        'c:pasdw_reduce_g#2:contig': 1,
        'c:pasdw_reduce_g#2:dtype': 1,
        'c:pasdw_reduce_g#3:contig': 1,
        'c:pasdw_reduce_g#3:dtype': 1,
        'c:pasdw_reduce_g#3:ndim': 1,
        'c:pasdw_reduce_g#3:shape': 1,
        'c:pasdw_reduce_g#3:shape[0]': 1,
        'c:pasdw_reduce_g#3:shape[1]': 1,
        'c:pasdw_reduce_i#0:contig': 1,
        'c:pasdw_reduce_i#0:dtype': 1,
        'c:pasdw_reduce_i#0:size': 1,
        'c:pasdw_reduce_i#1:contig': 1,
        'c:pasdw_reduce_i#1:dtype': 1,
        'c:pasdw_reduce_i#2:contig': 1,
        'c:pasdw_reduce_i#2:dtype': 1,
        'c:pasdw_reduce_i#3:contig': 1,
        'c:pasdw_reduce_i#3:dtype': 1,
        'c:pasdw_reduce_i#3:ndim': 1,
        'c:pasdw_reduce_i#3:shape': 1,
        'c:pasdw_reduce_i#3:shape[0]': 1,
        'c:pasdw_reduce_i#3:shape[1]': 1,
        'c:recursive_sph_harm_deriv_vec#2:contig': 1,
        'c:recursive_sph_harm_deriv_vec#3:contig': 1,
        'c:recursive_sph_harm_deriv_vec#3:dtype': 1,
        'c:recursive_sph_harm_deriv_vec#3:shape': 1,
        'c:recursive_sph_harm_deriv_vec#4:contig': 1,
        'c:recursive_sph_harm_deriv_vec#4:dtype': 1,
        'c:recursive_sph_harm_deriv_vec#4:shape': 1,
        'c:recursive_sph_harm_vec#2:contig': 1,
        'c:recursive_sph_harm_vec#3:contig': 1,
        'c:recursive_sph_harm_vec#3:dtype': 1,
        'c:recursive_sph_harm_vec#3:shape': 1,
    },
    'ciderpress/dft/xc_evaluator.py': {
        'c:evaluate_se_kernel#0:contig': 1,
        'c:evaluate_se_kernel#0:shape': 1,
        'c:evaluate_se_kernel#1:contig': 1,
        'c:evaluate_se_kernel#1:dtype': 1,
        'c:evaluate_se_kernel#1:shape': 1,
        'c:evaluate_se_kernel#2:contig': 1,
        'c:evaluate_se_kernel#2:shape[-1]': 1,
        'c:evaluate_se_kernel_antisym#0:contig': 1,
        'c:evaluate_se_kernel_antisym#0:shape': 1,
        'c:evaluate_se_kernel_antisym#1:contig': 1,
        'c:evaluate_se_kernel_antisym#1:dtype': 1,
        'c:evaluate_se_kernel_antisym#1:shape': 1,
        'c:evaluate_se_kernel_antisym#2:contig': 1,
        'c:evaluate_se_kernel_antisym#2:shape[-1]': 1,
        'c:evaluate_se_kernel_spin#0:contig': 1,
        'c:evaluate_se_kernel_spin#0:shape': 1,
        'c:evaluate_se_kernel_spin#1:contig': 1,
        'c:evaluate_se_kernel_spin#1:dtype': 1,
        'c:evaluate_se_kernel_spin#1:shape': 1,
        'c:evaluate_se_kernel_spin#2:contig': 1,
        'c:evaluate_se_kernel_spin#2:shape[-1]': 1,
    },
    'ciderpress/lib/fft_plan.py': {
        'c:allocate_fftnd_plan#1:contig': 1,
        'c:allocate_fftnd_plan#1:dtype': 1,
        'c:read_fft_output#1:contig': 1,
        'c:read_fft_output#1:dtype': 1,
        'c:read_fft_output#1:shape': 1,
        'c:write_fft_input#1:contig': 1,
        'c:write_fft_input#1:dtype': 1,
        'c:write_fft_input#1:shape': 1,
    },
    'ciderpress/lib/mpi_fft_plan.py': {
        'c:allocate_mpi_fft3d_plan_world#0:contig': 1,
        'c:allocate_mpi_fft3d_plan_world#0:dtype': 1,
        'c:read_mpi_fft3d_output#1:contig': 1,
        'c:read_mpi_fft3d_output#1:dtype': 1,
        'c:read_mpi_fft3d_output#1:shape': 1,
        'c:write_mpi_fft3d_input#1:dtype': 1,
        'c:write_mpi_fft3d_input#1:shape': 1,
    },
    'ciderpress/pyscf/frac_lapl.py': {
        'c:initialize_spline_1f1#0:contig': 2,
        'c:initialize_spline_1f1#0:dtype': 2,
        'c:initialize_spline_1f1#0:shape': 2,
        'c:initialize_spline_1f1#1:contig': 2,
        'c:initialize_spline_1f1#1:dtype': 2,
        'c:initialize_spline_1f1#1:shape': 2,
    },
    'ciderpress/pyscf/gen_cider_grid.py': {
        'c:recursive_sph_harm_vec#2:contig': 1,
        'c:recursive_sph_harm_vec#3:contig': 1,
        'c:recursive_sph_harm_vec#3:dtype': 1,
        'c:recursive_sph_harm_vec#3:shape': 1,
    },
    'ciderpress/pyscf/pbc/sdmx_fft.py': {
        'c:apply_orb_phases#1:contig': 1,
        'c:apply_orb_phases#1:dtype': 1,
        'c:apply_orb_phases#1:shape': 1,
        'c:apply_orb_phases#2:contig': 1,
        'c:apply_orb_phases#2:dtype': 1,
        'c:apply_orb_phases#2:shape': 1,
        'c:apply_orb_phases#3:contig': 1,
        'c:apply_orb_phases#4:contig': 1,
        'c:contract_convolution_d#1:dtype': 1,
        'c:contract_convolution_d#2:dtype': 1,
        'c:contract_convolution_z#1:dtype': 1,
        'c:contract_convolution_z#2:dtype': 1,
        'c:fast_conj#0:contig': 1,
        'c:fast_conj#0:dtype': 1,
        'c:parallel_mul_add_d#0:contig': 1,
        'c:parallel_mul_add_d#0:dtype': 1,
        'c:parallel_mul_add_d#0:ndim': 1,
        'c:parallel_mul_add_d#0:shape': 1,
        'c:parallel_mul_add_d#0:shape[1]': 1,
        'c:parallel_mul_add_d#1:contig': 1,
        'c:parallel_mul_add_d#1:dtype': 1,
        'c:parallel_mul_add_d#1:ndim': 1,
        'c:parallel_mul_add_d#1:shape': 1,
        'c:parallel_mul_add_d#1:shape[0]': 1,
        'c:parallel_mul_add_d#2:contig': 1,
        'c:parallel_mul_add_d#2:dtype': 1,
        'c:parallel_mul_add_d#2:shape': 1,
        'c:parallel_mul_add_z#0:contig': 1,
        'c:parallel_mul_add_z#0:dtype': 1,
        'c:parallel_mul_add_z#0:ndim': 1,
        'c:parallel_mul_add_z#0:shape': 1,
        'c:parallel_mul_add_z#0:shape[1]': 1,
        'c:parallel_mul_add_z#1:contig': 1,
        'c:parallel_mul_add_z#1:dtype': 1,
        'c:parallel_mul_add_z#1:ndim': 1,
        'c:parallel_mul_add_z#1:shape': 1,
        'c:parallel_mul_add_z#1:shape[0]': 1,
        'c:parallel_mul_add_z#2:contig': 1,
        'c:parallel_mul_add_z#2:dtype': 1,
        'c:parallel_mul_add_z#2:shape': 1,
        'c:parallel_mul_dz#0:contig': 1,
        'c:parallel_mul_dz#0:dtype': 1,
        'c:parallel_mul_dz#0:ndim': 1,
        'c:parallel_mul_dz#0:shape': 1,
        'c:parallel_mul_dz#0:shape[1]': 1,
        'c:parallel_mul_dz#1:contig': 1,
        'c:parallel_mul_dz#1:dtype': 1,
        'c:parallel_mul_dz#1:ndim': 1,
        'c:parallel_mul_dz#1:shape': 1,
        'c:parallel_mul_dz#1:shape[0]': 1,
        'c:parallel_mul_dz#2:contig': 1,
        'c:parallel_mul_dz#2:dtype': 1,
        'c:parallel_mul_dz#2:shape': 1,
        'c:parallel_mul_z#0:contig': 1,
        'c:parallel_mul_z#0:dtype': 1,
        'c:parallel_mul_z#0:ndim': 1,
        'c:parallel_mul_z#0:shape': 1,
        'c:parallel_mul_z#0:shape[1]': 1,
        'c:parallel_mul_z#1:contig': 1,
        'c:parallel_mul_z#1:dtype': 1,
        'c:parallel_mul_z#1:ndim': 1,
        'c:parallel_mul_z#1:shape': 1,
        'c:parallel_mul_z#1:shape[0]': 1,
        'c:parallel_mul_z#2:contig': 1,
        'c:parallel_mul_z#2:dtype': 1,
        'c:parallel_mul_z#2:shape': 1,
        'c:recip_conv_kernel_gaussdiff#0:contig': 1,
        'c:recip_conv_kernel_gaussdiff#1:contig': 1,
        'c:recip_conv_kernel_ws#0:contig': 1,
        'c:recip_conv_kernel_ws#1:contig': 1,
        'c:recip_conv_kernel_ws#2:dtype': 1,
        'c:recip_conv_kernel_ws#2:ndim': 1,
        'c:recip_conv_kernel_ws#2:shape': 1,
        'c:recip_conv_kernel_ws#2:shape[1]': 1,
        'c:recip_conv_kernel_ws#3:contig': 1,
        'c:recip_conv_kernel_ws#3:dtype': 1,
        'c:recip_conv_kernel_ws#4:contig': 1,
        'c:recip_conv_kernel_ws#5:contig': 1,
        'c:recip_conv_kernel_ws#5:dtype': 1,
        'c:run_ffts#0:contig': 3,
        'c:run_ffts#0:dtype': 3,
        'c:run_ffts#0:ndim': 1,
        'c:run_ffts#0:shape': 2,
        'c:run_ffts#0:shape[1]': 1,
        'c:weight_symm_gpts#0:contig': 1,
        'c:weight_symm_gpts#0:dtype': 1,
        'c:weight_symm_gpts#0:ndim': 1,
        'c:weight_symm_gpts#0:shape': 1,
        'c:weight_symm_gpts#0:shape[1]': 1,
        'c:zero_even_edges_fft#0:contig': 1,
        'c:zero_even_edges_fft#0:dtype': 1,
        'c:zero_even_edges_fft#0:size': 1,
    },
    'ciderpress/pyscf/sdmx.py': {
        'c:SDMXcontract_ao_to_bas_grid#14:contig': 1,
        'c:SDMXcontract_ao_to_bas_grid#14:ndim': 1,
        'c:SDMXcontract_ao_to_bas_grid#15:contig': 1,
        'c:SDMXcontract_ao_to_bas_grid#15:ndim': 1,
        'c:SDMXcontract_ao_to_bas_grid_bwd#14:contig': 1,
        'c:SDMXcontract_ao_to_bas_grid_bwd#14:ndim': 1,
        'c:SDMXcontract_ao_to_bas_grid_bwd#15:contig': 1,
        'c:SDMXcontract_ao_to_bas_grid_bwd#15:ndim': 1,
        'c:SDMXcontract_ao_to_bas_l1#12:contig': 1,
        'c:SDMXcontract_ao_to_bas_l1#13:contig': 1,
        'c:SDMXcontract_ao_to_bas_l1_bwd#12:contig': 1,
        'c:SDMXcontract_ao_to_bas_l1_bwd#13:contig': 1,
        'c:SDMXeval_rad_loop#10:contig': 1,
        'c:SDMXeval_rad_loop#10:dtype': 1,
        'c:SDMXeval_rad_loop#12:contig': 1,
        'c:SDMXeval_rad_loop#12:dtype': 1,
        'c:SDMXeval_rad_loop#14:contig': 1,
        'c:SDMXeval_rad_loop#14:dtype': 1,
        'c:SDMXeval_rad_loop#8:contig': 1,
        'c:SDMXeval_rad_loop#8:dtype': 1,
        'c:SDMXylm_loop#2:contig': 1,
        'c:SDMXylm_loop#4:contig': 1,
        'c:contract_shl_to_alpha_l1#3:contig': 1,
        'c:contract_shl_to_alpha_l1#3:dtype': 1,
        'c:contract_shl_to_alpha_l1#3:shape': 1,
        'c:contract_shl_to_alpha_l1#4:contig': 1,
    },
    'ciderpress/pyscf/sdmx_slow.py': {
        'c:SDMXeval_loop#11:contig': 1,
        'c:SDMXeval_loop#11:dtype': 1,
        'c:SDMXeval_loop#13:contig': 1,
        'c:SDMXeval_loop#13:dtype': 1,
        'c:SDMXeval_loop#15:contig': 1,
        'c:SDMXeval_loop#15:dtype': 1,
        'c:SDMXeval_loop#9:contig': 1,
        'c:SDMXeval_loop#9:dtype': 1,
        'c:SDMXylm_loop#2:contig': 1,
        'c:SDMXylm_loop#2:dtype': 1,
        'c:SDMXylm_loop#4:contig': 1,
    },
}
FROZEN_FUNC_GUARDS = {
    'ciderpress/dft/feat_normalizer.py::FeatNormalizerList._check_shape': [
        'p:x:ndim',
        'p:x:shape',
        'p:x:shape[-2]',
    ],
    'ciderpress/dft/feat_normalizer.py::FeatNormalizerList.get_derivative_of_normed_features': [
        'p:DX0T:ndim',
        'p:DX0T:shape',
        'p:DX0T:shape[-2]',
        'p:X0T:ndim',
        'p:X0T:shape',
        'p:X0T:shape[-2]',
    ],
    'ciderpress/dft/feat_normalizer.py::FeatNormalizerList.get_derivative_wrt_unnormed_features': [
        'p:X0T:ndim',
        'p:X0T:shape',
        'p:X0T:shape[-2]',
        'p:df_dX0TN:ndim',
        'p:df_dX0TN:shape',
        'p:df_dX0TN:shape[-2]',
    ],
    'ciderpress/dft/feat_normalizer.py::FeatNormalizerList.get_normalized_feature_vector': [
        'p:X0T:ndim',
        'p:X0T:shape',
        'p:X0T:shape[-2]',
    ],
    'ciderpress/dft/xc_evaluator.py::GlobalLinearEvaluator.__call__': [
        'p:dres:shape',
        'p:res:shape',
    ],
    'ciderpress/dft/xc_evaluator.py::GlobalLinearEvaluator.__init__': [
        'self.consts:contig',
        'self.consts:dtype',
    ],
    'ciderpress/dft/xc_evaluator.py::KernelEvaluator.__call__': [
        'p:dres:shape',
        'p:res:shape',
    ],
    'ciderpress/dft/xc_evaluator.py::ModelWithNormalizer.__call__': [
        'p:X0T:ndim',
    ],
    'ciderpress/dft/xc_evaluator.py::ModelWithNormalizer.__init__': [
        'p:model:nfeat',
        'p:normalizer:nfeat',
    ],
    'ciderpress/dft/xc_evaluator.py::NNEvaluator.__call__': [
        'p:dres:shape',
        'p:res:shape',
    ],
    'ciderpress/dft/xc_evaluator.py::RBFEvaluator.__call__': [
        'p:dres:shape',
    ],
    'ciderpress/dft/xc_evaluator.py::RBFEvaluator.__init__': [
        'self._X1ctrl:contig',
        'self._alpha:contig',
        'self._exps:contig',
        'self._indexes:contig',
    ],
    'ciderpress/dft/xc_evaluator.py::SpinRBFEvaluator.__call__': [
        'p:X1:ndim',
        'p:X1:shape',
        'p:X1:shape[0]',
    ],
    'ciderpress/dft/xc_evaluator.py::SplineSetEvaluator.__call__': [
        'p:dres:shape',
    ],
    'ciderpress/dft/xc_evaluator.py::SplineSetEvaluator.__init__': [
        'p:coeff_sets:shape',
        'p:coeff_sets__each:shape',
        'p:ind_sets:shape',
        'p:ind_sets__each:shape',
        'p:spline_grids:shape',
        'p:spline_grids__each:shape',
    ],
}


# ----------------------------------------------------------------------------
# rule 5: count provenance (stride of a locally allocated buffer)
# ----------------------------------------------------------------------------
ALLOCATORS = ("np.empty", "np.zeros", "np.ones", "np.ndarray", "numpy.empty", "numpy.zeros", "numpy.ndarray")


def rule_count_prov(chk, eng):
    import re
    n = 0
    bad = {}
    strides_cache = {}
    for s in eng.sites:
        fn = pf.enclosing_func(s.node)
        if fn is None:
            continue
        assigns = {}
        for a in pf.walk_no_nested(fn):
            if isinstance(a, ast.Assign) and len(a.targets) == 1 and isinstance(a.targets[0], ast.Name):
                assigns.setdefault(a.targets[0].id, []).append(a.value)

        def resolve(e, depth=0):
            if isinstance(e, ast.Name) and len(assigns.get(e.id, ())) == 1 and depth < 4:
                return resolve(assigns[e.id][0], depth + 1)
            return pf.src(e)

        def shape_syms(name):
            """dimension expressions of every allocation bound to `name`, or None when some binding of the
            name is not an allocation with a literal shape tuple of >= 2 dimensions"""
            syms = set()
            vals = assigns.get(name)
            if not vals:
                return None
            for v in vals:
                if not (isinstance(v, ast.Call) and pf.call_name(v) in ALLOCATORS and v.args):
                    return None
                sh = v.args[0]
                cands = assigns.get(sh.id, []) if isinstance(sh, ast.Name) else [sh]
                if not cands:
                    return None
                for cnd in cands:
                    if not isinstance(cnd, (ast.Tuple, ast.List)) or len(cnd.elts) < 2:
                        return None
                    for d in cnd.elts:
                        syms.add(pf.src(d))
                        syms.add(resolve(d))
            return syms

        for c, al in s.pairs:
            if c is None or al is None:
                continue
            mf, (h, name) = c
            proto = eng.c.lookup(name, mf.handles.get(h))
            if proto is None:
                continue
            key = (proto.rel, name)
            if key not in strides_cache:
                strides_cache[key] = ffi.stride_params(eng.c.tus[proto.rel], name)
            rel = strides_cache[key]
            pnames = [pn for pn, _ in proto.params]
            for i, it in enumerate(al):
                if i >= len(pnames) or ".ctypes" not in it[1] or pnames[i] not in rel:
                    continue
                subj = it[1].split(".ctypes")[0]
                syms = shape_syms(subj) if subj.isidentifier() else None
                if syms is None:
                    continue
                for cn in rel[pnames[i]]:
                    j = pnames.index(cn)
                    if j >= len(al):
                        continue
                    m = re.match(r"(?:ctypes\.)?c_\w+\((.*)\)$", al[j][1])
                    if not m:
                        continue
                    e = m.group(1)
                    try:
                        ev = resolve(ast.parse(e, mode="eval").body)
                    except SyntaxError:
                        ev = e
                    n += 1
                    inst = "%s:%s %s: stride %s of buffer %s" % (s.rel, s.func, name, cn, subj)
                    if e in syms or ev in syms:
                        chk.ok("count-prov", inst)
                    else:
                        bad.setdefault((s.rel, s.func, name, cn, e, s.line), []).append((subj, pnames[i], sorted(syms), inst))
    for (rel_, func, name, cn, e, line), bufs in sorted(bad.items()):
        chk.violation(
            "count-prov", rel_, func, "%s(%s=%s)" % (name, cn, e), line,
            "%s indexes %s with stride `%s`; the call passes %s = %s, but the buffer(s) %s are allocated in this "
            "function with dimensions %s, none of which is that expression: the callee uses another row stride "
            "(and loop bound) than the allocation"
            % (name, ", ".join("`%s`" % b[1] for b in bufs), cn, cn, e, ", ".join("`%s`" % b[0] for b in bufs),
               bufs[0][2]), instance=bufs[0][3])
        for b in bufs[1:]:
            chk.obligations.append(("count-prov", core.norm_text(b[3]), False, True, "same call"))
    if n == 0:
        raise core.AnalysisError("count provenance: no (locally allocated buffer, stride parameter) pair found")


# ----------------------------------------------------------------------------
# ----------------------------------------------------------------------------
# rule 5b: bound provenance -- the count C loops over vs the extent the array was validated / allocated with
# ----------------------------------------------------------------------------
def _shape_roots(text):
    """arrays whose shape/size/len the expression text is a function of"""
    import re
    roots = set(m.group(1) for m in re.finditer(r"([A-Za-z_][\w\.]*?)\.(?:shape|size)\b", text))
    roots |= set(m.group(1) for m in re.finditer(r"\blen\(([A-Za-z_][\w\.]*)\)", text))
    return roots


def _norm_count(text):
    import re
    t = text.replace(" ", "")
    t = re.sub(r"\blen\(([A-Za-z_][\w\.]*)\)", r"\1.shape[0]", t)
    return t


def rule_bound_prov(chk, eng):
    import re
    n = 0
    merged = {}
    ext_cache = {}
    resolvers = {}
    for s in eng.sites:
        fn = pf.enclosing_func(s.node)
        if fn is None:
            continue
        assigns = {}
        for a in pf.walk_no_nested(fn):
            if isinstance(a, ast.Assign) and len(a.targets) == 1 and isinstance(a.targets[0], ast.Name):
                assigns.setdefault(a.targets[0].id, []).append(a.value)

        def resolve(e, depth=0):
            """replace single-assignment integer locals (n = X.shape[-2], ni = len(x)) by their definition"""
            if isinstance(e, ast.Name) and len(assigns.get(e.id, ())) == 1 and depth < 4:
                v = assigns[e.id][0]
                if not isinstance(v, ast.Call) or pf.call_name(v) == "len":
                    return resolve(v, depth + 1)
            return pf.src(e)

        fg = None
        for c, al in s.pairs:
            if c is None or al is None:
                continue
            mf, (h, name) = c
            proto = eng.c.lookup(name, mf.handles.get(h))
            if proto is None:
                continue
            key = (proto.rel, name)
            if key not in ext_cache:
                ext_cache[key] = ffi.extent_params(eng.c.tus[proto.rel], name)
            ext = ext_cache[key]
            if not ext:
                continue
            pnames = [pn for pn, _ in proto.params]
            for pptr, pcnt in sorted(ext.items()):
                i, j = pnames.index(pptr), pnames.index(pcnt)
                if i >= len(al) or j >= len(al) or ".ctypes" not in al[i][1]:
                    continue
                subj = al[i][1].split(".ctypes")[0]
                m_ = re.match(r"(?:ctypes\.)?c_\w+\((.*)\)$", al[j][1])
                if not m_ or not re.match(r"^[A-Za-z_][\w\.]*$", subj):
                    continue
                try:
                    cnt_txt = _norm_count(resolve(ast.parse(m_.group(1), mode="eval").body))
                except SyntaxError:
                    continue
                if fg is None:
                    if s.rel not in resolvers:
                        resolvers[s.rel] = guards.Resolver(chk.tree.py(s.rel))
                    fg = guards.FunctionGuards(fn, resolvers[s.rel])
                cn = fg.cfg.stmt_of_expr(s.node)
                if cn is None:
                    continue
                # extent facts of `subj`: node id -> extent text (None = allocated / re-bound in a form not modelled)
                facts = {}
                for nd in fg.cfg.nodes:
                    a = nd.ast
                    if nd.kind == "stmt" and isinstance(a, ast.Assign) and len(a.targets) == 1 \
                            and pf.src(a.targets[0]) == subj:
                        v = a.value
                        if isinstance(v, ast.Call) and pf.call_name(v) in ("np.zeros", "np.empty", "np.ones") and v.args:
                            sh = v.args[0]
                            if isinstance(sh, (ast.Tuple, ast.List)):
                                facts[nd.id] = _norm_count(resolve(sh.elts[0])) if len(sh.elts) == 1 else None
                            elif isinstance(sh, ast.Name) and any(isinstance(x, (ast.Tuple, ast.List))
                                                                  for x in assigns.get(sh.id, ())):
                                facts[nd.id] = None
                            elif isinstance(sh, ast.Attribute) and sh.attr == "shape":
                                facts[nd.id] = None
                            else:
                                facts[nd.id] = _norm_count(resolve(sh))
                        else:
                            facts[nd.id] = None
                for nid, ats in fg.atoms.items():
                    for e, pos in ats:
                        if not (isinstance(e, ast.Compare) and len(e.ops) == 1):
                            continue
                        op = type(e.ops[0]).__name__
                        if not ((op == "Eq" and pos) or (op == "NotEq" and not pos)):
                            continue
                        for l, r in ((e.left, e.comparators[0]), (e.comparators[0], e.left)):
                            lt = pf.src(l).replace(" ", "")
                            if lt == subj + ".shape" and isinstance(r, (ast.Tuple, ast.List)) and len(r.elts) == 1:
                                facts[nid] = _norm_count(resolve(r.elts[0]))
                            elif lt in (subj + ".size", "len(%s)" % subj):
                                facts[nid] = _norm_count(resolve(r))
                if not facts or not fg.guaranteed(set(facts), [cn.id]):
                    continue  # some path reaches the call without any extent fact: not this rule's business
                n += 1
                inst = "%s:%s %s: %s bounds %s" % (s.rel, s.func, name, pcnt, pptr)
                own = {subj + ".size", subj + ".shape[0]"}
                bad = []
                for nid, etxt in sorted(facts.items()):
                    if etxt is None or etxt == cnt_txt or cnt_txt in own:
                        continue
                    if cn.id not in fg.cfg.reachable(nid):
                        continue
                    # decidable only when both are functions of the shape of one and the same array
                    if _shape_roots(etxt) and _shape_roots(etxt) == _shape_roots(cnt_txt):
                        bad.append((fg.cfg.nodes[nid], etxt))
                if not bad:
                    chk.ok("bound-prov", inst)
                    continue
                nd0, etxt = bad[0]
                merged.setdefault((s.rel, s.func, s.line, subj, pptr, pcnt, cnt_txt, etxt,
                                   isinstance(nd0.ast, ast.Assign), getattr(nd0.ast, "lineno", "?")), []).append((name, inst))
    for (rel_, func, line, subj, pptr, pcnt, cnt_txt, etxt, is_alloc, eline), items in sorted(merged.items()):
        names = sorted({nm for nm, _ in items})
        chk.violation(
            "bound-prov", rel_, func, "count %s vs extent %s of %s" % (cnt_txt, etxt, subj), line,
            "%s loop%s `for (i < %s)` over `%s[i]`; the call passes %s = %s, but on a path to the call `%s` was %s with "
            "extent %s (line %s). Both are functions of the shape of %s and differ, so for an admissible rank the callee "
            "runs past the array"
            % (", ".join(names), "s" if len(names) == 1 else "", pcnt, pptr, pcnt, cnt_txt, subj,
               "allocated" if is_alloc else "validated", etxt, eline, ", ".join(sorted(_shape_roots(etxt)))),
            instance=items[0][1])
        for _, inst in items[1:]:
            chk.obligations.append(("bound-prov", core.norm_text(inst), False, True, "same call site"))
    if n == 0:
        raise core.AnalysisError("bound provenance: no (validated array, loop bound) pair found")


# ----------------------------------------------------------------------------
# rule 6b: definite non-contiguity reaching a native call
# ----------------------------------------------------------------------------
def rule_noncontig(chk, eng):
    """A pointer argument whose value is provably a strided view (inner-axis / stepped slice of an array with several
    axes; see sa.layout) -- directly, through locals, self attributes, module globals or the return value of a
    repository function -- and that is not re-made contiguous or asserted contiguous before the call."""
    from sa import layout
    le = layout.Engine(chk.tree, eng.rels)
    n = 0
    resolvers, fgs = {}, {}
    for s in eng.sites:
        fn = pf.enclosing_func(s.node)
        if fn is None:
            continue
        g, _ = le.reaching(fn)
        cn = g.stmt_of_expr(s.node)
        seen = set()
        for c, al in s.pairs:
            if c is None or al is None:
                continue
            for i, it in enumerate(al):
                src = it[1]
                if it[0] != "ptr" or ".ctypes" not in src:
                    continue
                subj = src.split(".ctypes")[0]
                if (subj, i) in seen:
                    continue
                seen.add((subj, i))
                try:
                    e = ast.parse(subj, mode="eval").body
                except SyntaxError:
                    continue
                n += 1
                inst = "%s:%s %s argument %d `%s`" % (s.rel, s.func, "|".join(s.callees), i + 1, subj)
                r = le.view_reason(s.rel, fn, e, cn.id if cn is not None else None)
                if r is None:
                    chk.ok("noncontig", inst, nontrivial=False)
                    continue
                # a dominating contiguity assert turns the silent corruption into a rejection
                key = (s.rel, id(fn))
                if key not in fgs:
                    if s.rel not in resolvers:
                        resolvers[s.rel] = guards.Resolver(chk.tree.py(s.rel))
                    fgs[key] = guards.FunctionGuards(fn, resolvers[s.rel])
                fg = fgs[key]
                ids = {nid for nid, d in fg.node_kinds().items() if "contig" in d.get(subj, ())}
                fcn = fg.cfg.stmt_of_expr(s.node)
                if ids and fcn is not None and fg.guaranteed(ids, [fcn.id]):
                    chk.ok("noncontig", inst + " (view, but contiguity is asserted before the call)")
                    continue
                chk.violation("noncontig", s.rel, s.func, "%s(... %s ...)" % ("|".join(s.callees), subj), s.line,
                              "argument %d of %s is `%s.ctypes.data_as(...)`, and `%s` is %s: a strided view whose data "
                              "pointer is handed to C, which addresses it as a dense block (no np.ascontiguousarray / "
                              ".copy() / contiguity assert on the way)" % (i + 1, "|".join(s.callees), subj, subj, r),
                              instance=inst)
    chk.count("pointer arguments traced for strided views", n)
    if n == 0:
        raise core.AnalysisError("noncontig: no array pointer argument found at the ctypes call sites")


# ----------------------------------------------------------------------------
# rule 5c: Python mirror of a size the C constructor derives
# ----------------------------------------------------------------------------
def _lin_to_poly(lin):
    from sa import cpoly
    out = cpoly.Poly.const(0)
    if lin.const.denominator != 1:
        return None
    out = cpoly.Poly.const(int(lin.const))
    for a, c in lin.terms:
        if c.denominator != 1:
            return None
        out = out + cpoly.Poly.atom(symlen.atom_str(a)) * int(c)
    return out


def rule_mirror(chk, eng):
    """A constructor that creates a C object (`lib.generate_x(byref(self._h), ..., c_int(n), ...)`) and keeps Python
    attributes with the names of integer fields of that C struct (`self._nbeta` <-> `ccl->nbeta`): the Python value,
    evaluated symbolically from the constructor (sa.symlen, boolean flags enumerated), must equal the value the C
    function stores in the field when given the integers the call actually passes (sa.cpoly.FieldEval)."""
    from sa import cpoly
    n = 0
    progs = {}
    for s in eng.sites:
        if not s.func.endswith(".__init__") or s.how != "direct":
            continue
        fn = pf.enclosing_func(s.node)
        cls = pf.enclosing_class(fn) if fn is not None else None
        if cls is None or not any("byref(self." in it[1].replace("ctypes.", "") for c, al in s.pairs if al for it in al):
            continue
        c0, al = s.pairs[0]
        if c0 is None or al is None:
            continue
        mf, (h, name) = c0
        proto = eng.c.lookup(name, mf.handles.get(h))
        if proto is None:
            continue
        tu = eng.c.tus[proto.rel]
        if s.rel not in progs:
            progs[s.rel] = pf.Program(chk.tree, [s.rel])
        prog = progs[s.rel]
        mod = prog.module(s.rel)
        init = pf.methods(cls).get("__init__")
        flags = [a.arg for a, d in zip(reversed(init.args.args), reversed(init.args.defaults))
                 if isinstance(d, ast.Constant) and isinstance(d.value, bool)]
        if len(flags) > 3:
            continue
        import itertools
        for combo in itertools.product([True, False], repeat=len(flags)):
            fixed = dict(zip(flags, combo))
            try:
                it, rej = symlen.construct(prog, mod, cls, fixed)
            except (symlen.NotComparable, RecursionError):
                continue
            if rej is not None:
                continue
            cargs = {}
            ok_args = True
            for j, (pn, pt) in enumerate(proto.params):
                if j >= len(al) or eng.c.kind(pt) not in ("int", "long"):
                    continue
                m_ = _CINT.match(al[j][1]) or __import__("re").match(r"(?:ctypes\.)?c_\w+\((.*)\)$", al[j][1])
                if not m_:
                    continue
                try:
                    v = it.eval(ast.parse(m_.group(1), mode="eval").body, {}, cls, mod)
                except (SyntaxError, symlen.NotComparable, symlen.Raised):
                    continue
                lin = it.as_int(v)
                if lin is None:
                    continue
                pol = _lin_to_poly(symlen.simplify(lin, it.facts))
                if pol is not None:
                    cargs[pn] = pol
            if not cargs:
                continue
            try:
                ev = cpoly.FieldEval(tu, name, cargs)
                try:
                    ev.run()
                except cpoly.Return:
                    pass
            except core.AnalysisError:
                continue
            for st_ in ev._all_structs():
                for fname, fval in sorted(st_.fields.items()):
                    if not isinstance(fval, cpoly.Poly):
                        continue
                    for attr in (fname, "_" + fname):
                        if attr not in it.attrs:
                            continue
                        lin = it.as_int(it.attrs[attr])
                        if lin is None or isinstance(it.attrs[attr], symlen.SeqV):
                            continue
                        pv = _lin_to_poly(symlen.simplify(lin, it.facts))
                        if pv is None:
                            continue
                        n += 1
                        cfg = ",".join("%s=%s" % kv for kv in sorted(fixed.items())) or "any"
                        inst = "%s:%s self.%s mirrors %s->%s of %s [%s]" % (s.rel, cls.name, attr, st_.name, fname, name, cfg)
                        if pv == fval:
                            chk.ok("mirror", inst)
                        else:
                            chk.violation(
                                "mirror", s.rel, s.func, "self.%s vs %s->%s" % (attr, st_.name, fname), s.line,
                                "the constructor sets self.%s = %r, but %s, given the integers this call passes (%s), "
                                "stores %s->%s = %r (configuration %s): arrays sized or checked with the Python value "
                                "do not have the extent the C object uses"
                                % (attr, pv, name, ", ".join("%s=%r" % kv for kv in sorted(cargs.items())), st_.name, fname,
                                   fval, cfg), instance=inst)
    chk.count("python attributes mirrored against C struct fields", n)
    if n == 0:
        raise core.AnalysisError("mirror: no constructor with a Python attribute named like a field of the C object it creates")


# ----------------------------------------------------------------------------
# rule 8: default allocation agrees with the function's own shape assert
# ----------------------------------------------------------------------------
def _cond_sets(node):
    pos, neg = set(), set()
    for t, pol, kind in cfgm.conditions_at(node):
        if kind == "enclosing":
            (pos if pol else neg).add(pf.src(t))
    return pos, neg


def rule_alloc_assert(chk, eng):
    """`if out is None: out = np.zeros((a, b))` followed (on a compatible path) by `assert out.shape == (c, d)`: the
    default buffer must satisfy the assert the function imposes on a caller-supplied one."""
    n = 0
    done = set()
    for s in eng.sites:
        fn = pf.enclosing_func(s.node)
        if fn is None or id(fn) in done:
            continue
        done.add(id(fn))
        assigns = {}
        for a in pf.walk_no_nested(fn):
            if isinstance(a, ast.Assign) and len(a.targets) == 1 and isinstance(a.targets[0], ast.Name):
                assigns.setdefault(a.targets[0].id, []).append(a.value)

        def resolve(e, depth=0):
            if isinstance(e, ast.Name) and len(assigns.get(e.id, ())) == 1 and depth < 4 \
                    and isinstance(assigns[e.id][0], (ast.Name, ast.Attribute)):
                return resolve(assigns[e.id][0], depth + 1)
            return pf.src(e)

        allocs, asserts = [], []
        for st in pf.walk_no_nested(fn):
            if isinstance(st, ast.Assign) and len(st.targets) == 1 and isinstance(st.targets[0], ast.Name) \
                    and isinstance(st.value, ast.Call) and pf.call_name(st.value) in ("np.zeros", "np.empty", "np.ones") \
                    and st.value.args and isinstance(st.value.args[0], (ast.Tuple, ast.List)):
                allocs.append((st.targets[0].id, st, st.value.args[0].elts))
            atoms_ = []
            if isinstance(st, ast.Assert):
                atoms_ = guards.conjuncts(st.test, True)
            elif isinstance(st, ast.If) and cfgm._raises(st.body) and not st.orelse:
                atoms_ = guards.conjuncts(st.test, False)  # if not cond: raise  ==  assert cond
            if atoms_:
                for e, pos in atoms_:
                    if isinstance(e, ast.Compare) and len(e.ops) == 1 and (
                            isinstance(e.ops[0], ast.Eq) and pos or isinstance(e.ops[0], ast.NotEq) and not pos):
                        for l, r in ((e.left, e.comparators[0]), (e.comparators[0], e.left)):
                            if isinstance(l, ast.Attribute) and l.attr == "shape" and isinstance(l.value, ast.Name) \
                                    and isinstance(r, (ast.Tuple, ast.List)):
                                asserts.append((l.value.id, st, r.elts))
        for name, ast_alloc, adims in allocs:
            rebinds = sum(1 for v in assigns.get(name, ()))
            apos, aneg = _cond_sets(ast_alloc)
            # the default-allocation idiom only: `if name is None: name = np.zeros(...)`
            if not any(c.replace(" ", "") == "%sisNone" % name for c in apos):
                continue
            for nm2, ast_as, sdims in asserts:
                if nm2 != name or ast_as.lineno < ast_alloc.lineno:
                    continue
                spos, sneg = _cond_sets(ast_as)
                extra_pos = {c for c in apos if c.replace(" ", "") != "%sisNone" % name}
                if (extra_pos & sneg) or (aneg & spos):
                    continue  # the two lie on incompatible branches
                # both must be qualified by the same remaining conditions, else not comparable
                if extra_pos != {c for c in spos} or aneg != sneg:
                    continue
                n += 1
                inst = "%s:%s default `%s` vs its shape assert" % (s.rel, s.func, name)
                if len(adims) != len(sdims):
                    chk.violation("alloc-assert", s.rel, s.func, "default %s vs assert %s.shape" % (name, name),
                                  ast_alloc.lineno, "the default buffer has %d axes, the assert requires %d"
                                  % (len(adims), len(sdims)), instance=inst)
                    continue
                bad = []
                for k, (a, b) in enumerate(zip(adims, sdims)):
                    ta, tb = resolve(a), resolve(b)
                    if ta != tb and isinstance(a, (ast.Name, ast.Attribute)) and isinstance(b, (ast.Name, ast.Attribute)):
                        bad.append((k, ta, tb))
                if bad:
                    k, ta, tb = bad[0]
                    chk.violation("alloc-assert", s.rel, s.func, "default %s vs assert %s.shape" % (name, name),
                                  ast_alloc.lineno,
                                  "when `%s` is None it is allocated with axis %d = %s, but the function then asserts "
                                  "%s.shape[%d] == %s (line %d): the default call fails its own check (or, where the two "
                                  "happen to be equal, hides that the buffer belongs to the other basis)"
                                  % (name, k, ta, name, k, tb, ast_as.lineno), instance=inst)
                else:
                    chk.ok("alloc-assert", inst)
    chk.count("default allocations compared with a shape assert", n)
    if n == 0:
        raise core.AnalysisError("alloc-assert: no default allocation followed by a shape assert found")


# ----------------------------------------------------------------------------
# rule 9: independent optional buffers defaulted in one if/elif chain
# ----------------------------------------------------------------------------
def rule_default_chain(chk, eng):
    """if a is None: a = ...  elif b is None: b = ...   -- when both are None only the first gets its default"""
    n = 0
    for rel in eng.rels:
        mod_ast = chk.tree.py(rel)
        for node in ast.walk(mod_ast):
            if not isinstance(node, ast.If) or (isinstance(node._parent, ast.If) and node._parent.orelse == [node]):
                continue
            arms = []
            cur = node
            while True:
                t = cur.test
                nm = None
                if isinstance(t, ast.Compare) and len(t.ops) == 1 and isinstance(t.ops[0], ast.Is) \
                        and isinstance(t.left, ast.Name) and isinstance(t.comparators[0], ast.Constant) \
                        and t.comparators[0].value is None:
                    nm = t.left.id
                if nm is None:
                    arms = None
                    break
                stores = {x.id for st in cur.body for x in ast.walk(st) if isinstance(x, ast.Name) and isinstance(x.ctx, ast.Store)}
                arms.append((nm, stores, cur))
                if len(cur.orelse) == 1 and isinstance(cur.orelse[0], ast.If):
                    cur = cur.orelse[0]
                    continue
                break
            if not arms or len(arms) < 2:
                continue
            names = [a[0] for a in arms]
            if len(set(names)) != len(names):
                continue
            fn = pf.enclosing_func(node)
            qual = pf.qualname(fn) if fn else "<module>"
            n += 1
            inst = "%s:%s defaults of %s" % (rel, qual, ", ".join(names))
            # every arm gives a default to its own name only, and leaves the block normally
            indep = all(nm in st and not (st & (set(names) - {nm})) and not cfgm._terminates(c.body) for nm, st, c in arms)
            if indep:
                chk.violation("default-chain", rel, qual, "if %s is None ... elif %s is None" % (names[0], names[1]),
                              node.lineno, "the optional arguments %s each get their default in a separate arm of ONE "
                              "if/elif chain: when `%s` is None the later arms are skipped and `%s` stays None"
                              % (", ".join(names), names[0], names[1]), instance=inst)
            else:
                chk.ok("default-chain", inst)
    chk.count("if/elif chains over `is None` tests", n)


# ----------------------------------------------------------------------------
# rule 10: attribute created under one condition, consumed under another
# ----------------------------------------------------------------------------
def rule_cond_attr(chk, eng):
    """__init__ sets `self.A = None` and creates the real value only `if C1 [or C2 ...]`; another method hands self.A to
    a consumer that needs it (asserts `is not None` / dereferences it) inside `if G:` -- G must be one of the disjuncts
    under which the attribute was created."""
    n = 0
    for rel in eng.rels:
        mod_ast = chk.tree.py(rel)
        for cls in [c for c in ast.walk(mod_ast) if isinstance(c, ast.ClassDef)]:
            ms = pf.methods(cls)
            init = ms.get("__init__")
            if init is None:
                continue
            none_attrs = {t.attr for st in pf.walk_no_nested(init) if isinstance(st, ast.Assign)
                          and isinstance(st.value, ast.Constant) and st.value.value is None
                          for t in st.targets if pf.is_self_attr(t)}
            for attr in sorted(none_attrs):
                defs = [st for st in pf.walk_no_nested(init) if isinstance(st, ast.Assign)
                        and any(pf.is_self_attr(t, attr) for t in st.targets)
                        and not (isinstance(st.value, ast.Constant) and st.value.value is None)]
                if len(defs) != 1:
                    continue
                conds = [(t, pol) for t, pol, kind in cfgm.conditions_at(defs[0]) if kind == "enclosing"]
                if len(conds) != 1 or not conds[0][1]:
                    continue
                tdef = conds[0][0]
                disj = [pf.src(v) for v in tdef.values] if isinstance(tdef, ast.BoolOp) and isinstance(tdef.op, ast.Or) \
                    else [pf.src(tdef)]
                # consumers that need the value: same-class methods asserting the parameter is not None
                for mname, meth in ms.items():
                    if mname == "__init__":
                        continue
                    for call in [c_ for c_ in pf.walk_no_nested(meth) if isinstance(c_, ast.Call)]:
                        f = call.func
                        if not (isinstance(f, ast.Attribute) and isinstance(f.value, ast.Name) and f.value.id == "self"
                                and f.attr in ms):
                            continue
                        callee = ms[f.attr]
                        cparams = [a.arg for a in callee.args.args][1:]
                        for k, a in enumerate(call.args):
                            if not pf.is_self_attr(a, attr) or k >= len(cparams):
                                continue
                            p_ = cparams[k]
                            needs = any(isinstance(st, ast.Assert) and pf.src(st.test).replace(" ", "") == "%sisnotNone" % p_
                                        for st in pf.walk_no_nested(callee))
                            if not needs:
                                continue
                            guards_here = [pf.src(t) for t, pol, kind in cfgm.conditions_at(call)
                                           if kind == "enclosing" and pol]
                            if not guards_here:
                                continue
                            n += 1
                            inst = "%s:%s.%s uses self.%s under `%s`" % (rel, cls.name, mname, attr, " and ".join(guards_here))
                            if any(g_ in disj for g_ in guards_here):
                                chk.ok("cond-attr", inst)
                            else:
                                chk.violation(
                                    "cond-attr", rel, "%s.%s" % (cls.name, mname), "self.%s needed under %s" % (attr, guards_here[-1]),
                                    call.lineno,
                                    "__init__ creates self.%s only `if %s` (it stays None otherwise), but %s passes it to "
                                    "%s -- which asserts it is not None -- under `if %s`: that condition is not one under "
                                    "which the attribute exists" % (attr, pf.src(tdef), mname, f.attr, guards_here[-1]),
                                    instance=inst)
    chk.count("conditionally created attributes with a guarded consumer", n)


# ----------------------------------------------------------------------------
# rule 6c: sibling dtype guards at one native call (public wrappers)
# ----------------------------------------------------------------------------
def rule_sibling_dtype(chk, eng):
    """A public wrapper (no leading underscore) that guarantees the dtype of SOME array parameters it hands to one native
    call but not of the others: the unchecked sibling is read / written as float64 (int32) all the same."""
    res = guards.buffer_layout(chk.tree, eng.sites)
    by_site = {}
    for r in res:
        by_site.setdefault(id(r["site"]), []).append(r)
    n = 0
    for rs in by_site.values():
        s = rs[0]["site"]
        last = s.func.split(".")[-1]
        if last.startswith("_") and not (last.startswith("__") and last.endswith("__")):
            continue
        checked = [r for r in rs if "dtype" in r["checked"]]  # an explicit assert / raising test
        unchecked = [r for r in rs if "dtype" not in r["have"]]  # neither checked nor converted
        if not checked:
            continue
        n += 1
        inst = "%s:%s %s: dtype of every array parameter" % (s.rel, s.func, "|".join(s.callees))
        if unchecked:
            chk.violation("sibling-dtype", s.rel, s.func, "%s(...) dtype guards" % "|".join(s.callees), s.line,
                          "the dtype of %s is guaranteed before the call but that of %s is not, although all of them are "
                          "handed to %s as raw pointers" % (", ".join("`%s`" % r["subject"] for r in checked),
                                                          ", ".join("`%s`" % r["subject"] for r in unchecked),
                                                          "|".join(s.callees)), instance=inst)
        else:
            chk.ok("sibling-dtype", inst)
    chk.count("public wrappers with some dtype guard", n)


# ----------------------------------------------------------------------------
# rule 7b: a clamp is the last thing that happens to the clamped array
# ----------------------------------------------------------------------------
def rule_clamp_last(chk, eng):
    """A C function that bounds an array in place by an integer parameter (sa.ffi.clamp_params, e.g. cider_ind_clip
    with the table extent) establishes `0 <= x <= N`; the table readers rely on it without their own bounds check.
    Any in-place arithmetic on that array between the clamp call and the function's exit breaks the bound."""
    n = 0
    cache = {}
    for s in eng.sites:
        fn = pf.enclosing_func(s.node)
        if fn is None:
            continue
        for c, al in s.pairs:
            if c is None or al is None:
                continue
            mf, (h, name) = c
            proto = eng.c.lookup(name, mf.handles.get(h))
            if proto is None:
                continue
            key = (proto.rel, name)
            if key not in cache:
                cache[key] = ffi.clamp_params(eng.c.tus[proto.rel], name)
            cl = cache[key]
            if not cl:
                continue
            ptrs, bound = cl
            pnames = [pn for pn, _ in proto.params]
            g = cfgm.CFG(fn)
            cn = g.stmt_of_expr(s.node)
            if cn is None:
                continue
            after = g.reachable(cn.id) - {cn.id}
            for pp in ptrs:
                i = pnames.index(pp)
                if i >= len(al) or ".ctypes" not in al[i][1]:
                    continue
                subj = al[i][1].split(".ctypes")[0]
                n += 1
                inst = "%s:%s %s clamps `%s` by %s last" % (s.rel, s.func, name, subj, bound)
                bad = None
                for nid in sorted(after):
                    a = g.nodes[nid].ast
                    if g.nodes[nid].kind != "stmt" or a is None:
                        continue
                    tgt = None
                    if isinstance(a, ast.AugAssign):
                        tgt = a.target
                    elif isinstance(a, ast.Assign) and len(a.targets) == 1 and isinstance(a.targets[0], ast.Subscript):
                        tgt = a.targets[0]
                    if tgt is None:
                        continue
                    root = tgt
                    while isinstance(root, ast.Subscript):
                        root = root.value
                    if pf.src(root) == subj:
                        bad = a
                        break
                if bad is None:
                    chk.ok("clamp-last", inst)
                else:
                    chk.violation("clamp-last", s.rel, s.func, "%s(%s) then `%s`" % (name, subj, pf.src(bad)[:60]), bad.lineno,
                                  "%s bounds `%s` in place by its argument %s (the extent of the table the values index), "
                                  "but `%s` (line %d) modifies the array afterwards: the values handed on can lie outside "
                                  "the bound that the table readers rely on" % (name, subj, bound, pf.src(bad)[:80], bad.lineno),
                                  instance=inst)
    chk.count("arrays clamped in place by a native call", n)


def _analyse_own(chk):
    tree = chk.tree
    chk.rule("ffi", "ctypes call sites conform to the C prototypes (SysV landing slots, kinds, restype, callbacks)")
    chk.rule("len-agree", "symbolic lengths of usps / ueg vector / normalizer list equal nfeat; one component order")
    chk.rule("reject-mode", "unknown mode strings are rejected by the constructors")
    rels = ffi_modules(tree)
    chk.count("python modules scanned for ctypes calls", len(rels))

    box = {}

    def _ffi(c):
        eng = ffi.Engine(tree, rels)
        box["eng"] = eng
        c.count("C functions with a parsed prototype", len(eng.c.funcs))
        c.extra["ffi_attr_kinds"] = eng.attr_kinds
        rule_ffi(c, eng)

    chk.guard(_ffi)
    prog = pf.Program(tree, [ST, PL, FN, XE, NC, LC])
    chk.guard(rule_len, prog)
    chk.rule("key-order", "list-building loops of one settings class enumerate the keys of a dict attribute in one order")
    chk.guard(rule_key_order, prog)
    chk.rule("validate", "lists consumed as index pairs / specs / parameter vectors reach a raising validator")
    chk.rule("dispatch", "multi-arm string ladders end in a raise or dispatch on a validated closed set")
    chk.rule("expnt-guard", "eval_feat_exp cannot return normally without the large-exponent test")
    chk.guard(rule_validate, prog)
    chk.guard(rule_dispatch, prog)
    chk.rule("param-guards", "frozen table: constructor / validator parameters are still rejected when invalid")
    chk.guard(rule_param_guards, prog)
    chk.guard(rule_expnt, prog)
    chk.rule("expnt-cutoff", "the density cutoff masking the large-exponent guard is the one the exponent function clamps with")
    chk.guard(rule_expnt_cutoff, prog)
    chk.rule("guards", "frozen table: shape / contiguity / dtype guards on every path to the native call or exit")
    if "eng" in box:
        chk.guard(rule_guards, box["eng"], prog)
        chk.rule("count-prov", "stride passed for a buffer allocated in the same function is one of its dimensions")
        chk.guard(rule_count_prov, box["eng"])
        chk.rule("bound-prov", "the count C loops over equals the extent the array was validated / allocated with "
                               "(decided when both are functions of one array's shape)")
        chk.guard(rule_bound_prov, box["eng"])
        chk.rule("noncontig", "no provably strided view (inner-axis / stepped slice) reaches a ctypes pointer argument")
        chk.guard(rule_noncontig, box["eng"])
        chk.rule("clamp-last", "no in-place arithmetic on an array after the native call that clamps it to a table extent")
        chk.guard(rule_clamp_last, box["eng"])
        chk.rule("mirror", "python attributes named like integer fields of the C object a constructor creates hold the "
                           "value C derives from the integers that constructor passes")
        chk.guard(rule_mirror, box["eng"])
        chk.rule("alloc-assert", "a default buffer allocation satisfies the shape assert the function applies afterwards")
        chk.guard(rule_alloc_assert, box["eng"])
        chk.rule("default-chain", "independent optional buffers are not defaulted in the arms of one if/elif chain")
        chk.guard(rule_default_chain, box["eng"])
        chk.rule("cond-attr", "an attribute created under a condition is consumed only under one of those conditions")
        chk.guard(rule_cond_attr, box["eng"])
        chk.rule("sibling-dtype", "a public wrapper that guards the dtype of one array argument guards all of them")
        chk.guard(rule_sibling_dtype, box["eng"])
    else:
        chk.errors.append("rule_guards: not run because the ctypes engine failed")
    chk.floor("ffi", 50, "half of the 103 ctypes call sites")
    chk.floor("ffi-callback", 3, "half of the callbacks handed to PySCF drivers")
    chk.floor("len-agree", 25, "half of (14 instantiable settings classes x 3 accessors + component order)")
    chk.floor("validate", 8, "half of the dots/specs/params roles")
    chk.floor("param-guards", 15, "half of the guarded-parameter table")
    chk.floor("dispatch", 12, "half of the multi-arm string ladders")
    chk.floor("expnt-guard", 1, "eval_feat_exp")
    chk.floor("key-order", 1, "SDMXFullSettings._settings: ueg_vector / get_feat_usps / get_reasonable_normalizer")
    chk.floor("expnt-cutoff", 1, "the guard mask of eval_feat_exp vs the rhocut= of get_cider_exponent[_gga]")
    chk.floor("guards", 287, "half of the 574 frozen guard signatures")
    chk.floor("mirror", 2, "ConvolutionCollection: nalpha, nbeta, has_vj (x flag configurations)")
    chk.floor("noncontig", 150, "half of the array pointer arguments at the ctypes call sites")
    chk.floor("bound-prov", 5, "(validated array, loop bound) pairs")
    chk.floor("reject-mode", 10, "half of the mode x class combinations")
    chk.assumptions += [
        "x86-64 System V calling convention; ctypes without argtypes passes c_int/c_double/pointers as built",
        "count and length atoms are non-negative",
        "a component settings object obeys len-agree itself (checked per class)",
    ]
    chk.not_decided += ["out-of-bounds freedom of the C loops themselves (needs value ranges)",
                        "ctypes calls in ciderpress/gpaw; C sources that need Python.h (pwutil/gpaw_interface.c, nldf_fft_mpi.c)"]


def analyse(chk):
    _analyse_own(chk)
    chk.guard(lambda c_: core.include_findings(c_, 'C09', files=['ciderpress/dft/plans.py'], rules=['ctor-roundtrip'],
                                               why='plan.new() must hand the original guard/cutoff arguments to the constructor, otherwise the large-exponent guard of the copy differs'))


def _usps_insertion_order(text):
    i = text.find("    def get_feat_usps(self):\n        usps = []\n        for ratio in self.ratios:")
    if i < 0:
        return None
    j = text.find("        return usps", i)
    seg = text[i:j].replace("for ratio in self.ratios:", "for ratio in self._settings.keys():")
    return text[:i] + seg + text[j:]


def mutants(tree):
    GI = "ciderpress/dft/grids_indexer.py"
    FP = "ciderpress/lib/fft_plan.py"
    BL = "ciderpress/dft/baselines.py"
    return [
        # ---- ffi
        Mutant("ffi: drop an argument (pwutil.eval_pasdw_funcs)", PW,
               "        ctypes.c_int(ng),\n        ctypes.c_int(nlm),\n    )\n    return funcs_ig",
               "        ctypes.c_int(ng),\n    )\n    return funcs_ig", expect="ffi"),
        Mutant("ffi: c_int -> c_double (recursive_sph_harm_vec)", PW,
               "pw_cutil.recursive_sph_harm_vec(\n        ctypes.c_int(nlm),",
               "pw_cutil.recursive_sph_harm_vec(\n        ctypes.c_double(nlm),", expect="ffi"),
        Mutant("ffi: swap int and pointer argument (SDMXylm_loop)", SD,
               "            ctypes.c_int(coords.shape[0]),\n            ylm.ctypes.data_as(ctypes.c_void_p),\n"
               "            coords.ctypes.data_as(ctypes.c_void_p),\n            ylm_atom_loc",
               "            ylm.ctypes.data_as(ctypes.c_void_p),\n            ctypes.c_int(coords.shape[0]),\n"
               "            coords.ctypes.data_as(ctypes.c_void_p),\n            ylm_atom_loc", expect="ffi"),
        Mutant("ffi: extra appended argument in one branch only (pwutil._eval_cubic_interp)", PW,
               "        fn = pw_cutil.eval_cubic_interp_noderiv\n",
               "        fn = pw_cutil.eval_cubic_interp_noderiv\n        args.insert(0, ctypes.c_int(ng))\n",
               expect="ffi"),
        Mutant("ffi: branch selects a function with another signature (grids_indexer)", GI,
               "fn = libcider.reduce_ylm_to_angc", "fn = libcider.SDMXylm_loop", expect="ffi"),
        Mutant("ffi: c_double -> c_float (mulexp)", PW,
               "        ctypes.c_double(a),\n        ctypes.c_double(b),\n        ctypes.c_int(nk),",
               "        ctypes.c_double(a),\n        ctypes.c_float(b),\n        ctypes.c_int(nk),", expect="ffi"),
        Mutant("ffi: extra argument appended in one branch only", PW,
               "        fn = pw_cutil.eval_cubic_interp_noderiv\n",
               "        fn = pw_cutil.eval_cubic_interp_noderiv\n        args.append(ctypes.c_int(ng))\n"
               "        args.append(y_g.ctypes.data_as(ctypes.c_void_p))\n", expect="ffi"),
        Mutant("ffi: wrong callback handed to SDMXeval_rad_loop", SD,
               'eval_fn = getattr(libcider, "SDMXrad_eval_grid")', 'eval_fn = getattr(libcider, "SDMXcontract_smooth0")',
               expect="ffi"),
        Mutant("ffi: restype deleted for a pointer-returning function", FP,
               "libfft.malloc_fft_plan_in_array.restype = ctypes.c_void_p\n", "", expect="ffi"),
        Mutant("ffi: C prototype gains a parameter (C side edit)", "ciderpress/lib/pwutil/grid_util.c",
               "void mulexp(double complex *F_k,", "void mulexp(int extra, double complex *F_k,", expect="ffi"),
        Mutant("ffi: class attribute override bound to another kernel signature", XE,
               "_fn = libcider.evaluate_se_kernel_spin", "_fn = libcider.SDMXylm_loop", expect="ffi"),
        # ---- len-agree / reject-mode
        Mutant("len: remove upper bound ndt <= len(pows)", ST, "        assert 0 <= ndt <= len(pows)\n", "        assert 0 <= ndt\n", expect="len-agree"),
        Mutant("len: remove upper bound n1 <= len(pows) (SDMX1)", ST, "        assert 0 <= self._n1 <= len(self.pows)\n", "        assert 0 <= self._n1\n",
               expect="len-agree"),
        Mutant("len: FracLapl nfeat forgets ndd", ST,
               "return self.nk0 + len(self.l1_dots) + len(self.ld_dots) + self.ndd",
               "return self.nk0 + len(self.l1_dots) + len(self.ld_dots)", expect="len-agree"),
        Mutant("len: VJ drops the specs/params length check", ST,
               "        if len(self.feat_params) != len(self.feat_specs):\n"
               "            raise ValueError(\"specs and params must have same length\")\n"
               "        for s, p in zip(self.feat_specs, self.feat_params):\n            self._check_params(p, spec=s)\n\n"
               "    @property\n    def num_vi_feats(self):\n        return 0",
               "        for s, p in zip(self.feat_specs, self.feat_params):\n            self._check_params(p, spec=s)\n\n"
               "    @property\n    def num_vi_feats(self):\n        return 0", expect="len-agree"),
        Mutant("len: Semilocal 'ns' returns three usps", ST, "            return [3, 8]\n", "            return [3, 8, 5]\n",
               expect="len-agree"),
        Mutant("len: FeatureSettings.get_feat_usps swaps two components", ST,
               "                self.nldf_settings.get_feat_usps(),\n                self.nlof_settings.get_feat_usps(),",
               "                self.nlof_settings.get_feat_usps(),\n                self.nldf_settings.get_feat_usps(),",
               expect="len-agree"),
        Mutant("len: FeatureSettings.nfeat forgets a component", ST,
               "            + self.nlof_settings.nfeat\n            + self.sdmx_settings.nfeat\n            + self.hyb",
               "            + self.sdmx_settings.nfeat\n            + self.hyb", expect="len-agree"),
        Mutant("reject: SemilocalSettings accepts unknown modes", ST,
               '        else:\n            raise ValueError("Mode must be nst, npa, ns, or np.")\n', "",
               expect="reject-mode"),
        Mutant("reject: rho_mult no longer validated", ST,
               '        if self.rho_mult not in ALLOWED_RHO_MULTS:\n            raise ValueError("Unsupported rho_mult")\n',
               "", expect="param-guards"),
        Mutant("len: SDMXFull normalizer walks the l0 terms twice", ST,
               "            for n, rdr in self.iterate_l1_terms(ratio):\n                try:\n                    u = known_dict",
               "            for n, rdr in self.iterate_l0_terms(ratio):\n                try:\n                    u = known_dict",
               expect="len-agree"),
        Mutant("len: SDMXFull n1dterms counts the wrong column", ST, "return self._get_num_feat(3)", "return self._get_num_feat(2)",
               expect="len-agree"),
        Mutant("len: SDMXFull generator yields the d-terms twice", ST,
               "        for i in range(v1[1]):\n            yield v0[i], True\n\n    def iterate_l1_terms",
               "        for i in range(v1[1]):\n            yield v0[i], True\n            yield v0[i], True\n\n    def iterate_l1_terms",
               expect="len-agree"),
        Mutant("len: one branch of the normalizer ladder appends nothing", ST,
               "            elif usp == 0:\n                norms.append(None)\n", "            elif usp == 0:\n                pass\n",
               expect="len-agree"),
        # ---- validate
        Mutant("validate: drop a _check_specs call (VI l1 specs -> l0 only)", ST,
               "        self._check_specs(self.l0_feat_specs, ALLOWED_I_SPECS_L0)\n"
               "        self._check_specs(self.l1_feat_specs, ALLOWED_I_SPECS_L1)\n        _check_l1_dots(",
               "        self._check_specs(self.l1_feat_specs, ALLOWED_I_SPECS_L1)\n        _check_l1_dots(",
               expect="validate"),
        Mutant("validate: drop _check_l1_dots in FracLaplSettings", ST,
               "        _check_l1_dots(l1_dots, self.nk1)\n", "", expect="validate"),
        Mutant("validate: VK feat_params not checked", ST,
               "        for s, p in zip(self.feat_specs, self.feat_params):\n            self._check_params(p, spec=s)\n"
               "        self.rho_damp = rho_damp", "        self.rho_damp = rho_damp", expect="validate"),
        # ---- dispatch
        Mutant("dispatch: spec ladder loses its raising else (VJ.ueg_vector)", ST,
               "                integral *= np.sqrt(expnt / (expnt + expnt3))\n            else:\n"
               "                raise ValueError\n            ueg_feats.append(rho * rho_mult * integral)\n"
               "        return np.asarray(ueg_feats, dtype=np.float64)\n\n    def get_reasonable_normalizer(self):\n"
               "        nvj",
               "                integral *= np.sqrt(expnt / (expnt + expnt3))\n"
               "            ueg_feats.append(rho * rho_mult * integral)\n"
               "        return np.asarray(ueg_feats, dtype=np.float64)\n\n    def get_reasonable_normalizer(self):\n"
               "        nvj", expect="dispatch"),
        Mutant("dispatch: get_occd ladder drops the 'ns' arm", PL,
               '        elif self.settings.mode in ["nst", "ns"]:\n            self._fill_occd_nst_(feat, occd',
               '        elif self.settings.mode in ["nst"]:\n            self._fill_occd_nst_(feat, occd', expect="dispatch"),
        Mutant("param: coef_order no longer validated", PL,
               '        if coef_order not in ["gq", "qg"]:\n            raise ValueError\n', "", expect="param-guards"),
        Mutant("param: lambd <= 1 accepted", PL,
               '        if lambd <= 1:\n            raise ValueError("lambd must be > 1")\n        self.lambd = np.float64(lambd)',
               "        self.lambd = np.float64(lambd)", expect="param-guards"),
        Mutant("param: non-positive exponent accepted by _check_params", ST,
               "            assert params[0] > 0\n            assert params[1] >= 0\n", "            assert params[1] >= 0\n",
               expect="param-guards"),
        # ---- expnt-guard
        Mutant("expnt: early return before the large-exponent test", PL,
               "        if self._raise_large_expnt_error and a.size > 0:",
               "        if self._use_smooth_expnt_cutoff:\n            return res\n"
               "        if self._raise_large_expnt_error and a.size > 0:", expect="expnt-guard"),
        Mutant("expnt: guard no longer raises", PL,
               '                raise RuntimeError(\n                    "NLDF exponent is too large! Please increase nalpha/alpha_max."\n                )',
               "                pass", expect="expnt-guard"),
        Mutant("expnt: flag ignores the constructor parameter", PL,
               "            self._raise_large_expnt_error = raise_large_expnt_error",
               "            self._raise_large_expnt_error = False", expect="expnt-guard"),
        Mutant("key-order: get_feat_usps enumerates the ratios in dict insertion order, its siblings sorted", ST,
               fn=_usps_insertion_order, expect="key-order"),
        Mutant("expnt: guard masks with the total-density cutoff, the clamp uses the per-spin one", PL,
               "            ap = a[rho > self.rhocut]", "            ap = a[rho > self._rhocut_input]", expect="expnt-cutoff"),
        Mutant("expnt: GGA exponent clamped with the total-density cutoff, the guard masks with the per-spin one", PL,
               "                grad_mul=grad_mul,\n                rhocut=self.rhocut,\n                nspin=self.nspin,\n            )\n            res = a, (dadn, dadsigma)\n",
               "                grad_mul=grad_mul,\n                rhocut=self._rhocut_input,\n                nspin=self.nspin,\n            )\n            res = a, (dadn, dadsigma)\n",
               expect="expnt-cutoff"),
        # ---- guards
        Mutant("guards: delete a contiguity assert before a native call (pwutil)", PW,
               "    assert ylm_lg.flags.c_contiguous\n", "", expect="guards"),
        Mutant("guards: delete shape assert in one branch (multiply_atc_integrals)", LC,
               "            assert input.shape == (self.atco_inp.nao, self.nalpha), (\n                input.shape,\n"
               "                (self.atco_inp.nao, self.nalpha),\n            )\n", "", expect="guards"),
        Mutant("guards: _check_shape no longer checks nfeat", FN,
               '        if x.shape[-2] != self.nfeat:\n            raise ValueError("Array must have size nfeat")\n', "",
               expect="guards"),
        Mutant("guards: normalizer entry point skips _check_shape", FN, "        self._check_shape(DX0T, ndim=2)\n", "",
               expect="guards"),
        Mutant("guards: ModelWithNormalizer size check removed", XE,
               "        if model.nfeat != normalizer.nfeat:\n            raise ValueError\n", "", expect="guards"),
        Mutant("guards: RBFEvaluator contiguity loop removed", XE,
               "        for arr in [res, dsub, X1]:\n            assert arr.flags.c_contiguous\n", "", expect="guards"),
        Mutant("guards: offset + nalpha <= stride weakened to nalpha <= stride", LC,
               "        assert offset + nalpha <= stride\n", "        assert nalpha <= stride\n", expect="guards"),
        # ---- noncontig
        Mutant("noncontig: Gaunt table served as a column view of a cached larger table", "ciderpress/dft/sph_harm_coeff.py",
               "    nlm = (lmax + 1) * (lmax + 1)\n    gaunt_coeff = np.zeros((5, nlm))",
               "    nlm = (lmax + 1) * (lmax + 1)\n    if lmax < 3:\n        return get_deriv_ylm_coeff(3)[:, :nlm]\n"
               "    gaunt_coeff = np.zeros((5, nlm))", expect="noncontig"),
        Mutant("noncontig: stepped slice handed to C", PW,
               "        rhat_gv.ctypes.data_as(ctypes.c_void_p),\n        res.ctypes.data_as(ctypes.c_void_p),\n    )\n    return res\n",
               "        rhat_gv[::2].ctypes.data_as(ctypes.c_void_p),\n        res.ctypes.data_as(ctypes.c_void_p),\n    )\n    return res\n",
               expect="noncontig"),
        Mutant("noncontig: attribute holds an inner-axis slice", "ciderpress/dft/lcao_interpolation.py",
               "            self._gaunt_coeff = get_deriv_ylm_coeff(self.lmax)",
               "            self._gaunt_coeff = get_deriv_ylm_coeff(self.lmax + 1)[:, : (self.lmax + 1) ** 2]", expect="noncontig"),
        Mutant("param: zexp grid accepts expcut = 0", PL,
               "        if alpha_formula == \"zexp\" and not expcut > 0:\n", "        if False:\n", expect="param-guards"),
        Mutant("clamp: index rescaled after it was clipped to the table", PL,
               "        if self._spline_size != self.nalpha:\n            di[:] *= (self._spline_size - 1) / (self.nalpha - 1)\n"
               "            derivi[:] *= (self._spline_size - 1) / (self.nalpha - 1)\n        libcider.cider_ind_clip(\n"
               "            di.ctypes.data_as(ctypes.c_void_p),\n            derivi.ctypes.data_as(ctypes.c_void_p),\n"
               "            ctypes.c_int(self._spline_size - 1),\n            ctypes.c_int(exp_g.size),\n        )\n",
               "        libcider.cider_ind_clip(\n"
               "            di.ctypes.data_as(ctypes.c_void_p),\n            derivi.ctypes.data_as(ctypes.c_void_p),\n"
               "            ctypes.c_int(self._spline_size - 1),\n            ctypes.c_int(exp_g.size),\n        )\n"
               "        if self._spline_size != self.nalpha:\n            di[:] *= (self._spline_size - 1) / (self.nalpha - 1)\n"
               "            derivi[:] *= (self._spline_size - 1) / (self.nalpha - 1)\n", expect="clamp-last"),
        # ---- rules of round 13
        Mutant("dispatch: allowed set degenerates to a plain string", ST, 'ALLOWED_RHO_DAMPS = ["exponential"]',
               'ALLOWED_RHO_DAMPS = ("exponential")', expect="dispatch"),
        Mutant("guards: the gather that fixes the width of X1 is skipped", XE,
               "        X1 = np.ascontiguousarray(X1[..., self._indexes])\n        if res is None:",
               "        X1 = np.ascontiguousarray(X1)\n        if res is None:", expect="guards"),
        Mutant("len: a continue skips the append on one path", ST,
               "        for i in range(nvk):\n            if usps[i] == 0:\n                norms.append(ConstantNormalizer(2.0 / uegs[i]))",
               "        for i in range(nvk):\n            if uegs[i] == 0:\n                continue\n            if usps[i] == 0:\n                norms.append(ConstantNormalizer(2.0 / uegs[i]))",
               expect="len-agree"),
        # ---- rules of round 11
        Mutant("nonneg: lower bound of a count dropped", ST, "        assert 0 <= ndt <= len(pows)\n", "        assert ndt <= len(pows)\n",
               expect="len-agree"),
        Mutant("alloc-assert: default output allocated in the input basis", LC,
               "            output = np.zeros((atco_out.nao, self.nalpha))\n", "            output = np.zeros((atco_inp.nao, self.nalpha))\n",
               expect="alloc-assert"),
        Mutant("default-chain: second optional buffer defaulted in an elif", PL,
               "        if l1tmp is None:\n", "        elif l1tmp is None:\n", expect="default-chain"),
        Mutant("cond-attr: l=0 spline weights built only when there are l=0 features", "ciderpress/dft/lcao_interpolation.py",
               "        if self._n0 > 0 or self._n1 > 0:\n", "        if self._n0 > 0:\n", expect="cond-attr"),
        Mutant("sibling-dtype: output dtype assert dropped while the input one stays", LC,
               "        assert input.dtype == np.float64\n        assert output.dtype == np.float64\n        assert input.shape == (atco_inp.nao, self.nalpha)",
               "        assert input.dtype == np.float64\n        assert input.shape == (atco_inp.nao, self.nalpha)",
               expect="sibling-dtype"),
        Mutant("param: explicit normalizer list no longer compared with nfeat", ST,
               "        if self.normalizers.nfeat != self.nfeat:\n            raise ValueError(\"Need exactly one normalizer (or None) per feature\")\n",
               "", expect="param-guards"),
        # ---- mirror
        Mutant("mirror: python output count forgets the l=1 upper channel", LC,
               "        self._nbeta = len(self._icontrib_ids)\n", "        self._nbeta = len(icontrib0_ids) + len(icontrib1m_ids)\n",
               expect="mirror"),
        Mutant("mirror: C is told another feature count than python keeps", LC,
               "            ctypes.c_int(len(self._icontrib_ids)),\n            ctypes.c_int(1 if self._has_vj else 0),",
               "            ctypes.c_int(len(self._icontrib0_ids)),\n            ctypes.c_int(1 if self._has_vj else 0),",
               expect="mirror"),
        # ---- bound-prov
        Mutant("bound: total row count passed for the per-spin sample count (RBFEvaluator)", XE,
               "        n = X1.shape[-2]\n        for arr in [res, dsub, X1]:", "        n = X1.size // self._nfeat\n        for arr in [res, dsub, X1]:",
               expect="bound-prov"),
        Mutant("bound: half the list length passed while the sibling list is validated against the full length", PW,
               "    ni = len(nlist_i)\n    assert len(nlist_i) == len(lmlist_i)", "    ni = nlist_i.size * 2\n    assert len(nlist_i) == len(lmlist_i)",
               expect="bound-prov"),
        # ---- count-prov
        Mutant("count: global exponent count passed for a buffer sized by the local count", PL,
               "                ctypes.c_int(arg_g.size),\n                ctypes.c_int(nalpha),\n            )\n            return p, dp",
               "                ctypes.c_int(arg_g.size),\n                ctypes.c_int(self.nalpha),\n            )\n            return p, dp",
               expect="count-prov"),
        Mutant("count: grid stride replaced by the exponent count (qg branch)", PL,
               "                ctypes.c_int(arg_g.size),\n                ctypes.c_int(nalpha),\n            )\n            return p, dp",
               "                ctypes.c_int(self.nalpha),\n                ctypes.c_int(nalpha),\n            )\n            return p, dp",
               expect="count-prov"),
        Mutant("guards: relation weakened inside a merged assert", LC,
               "        assert offset + nalpha <= stride\n", "        assert offset <= stride and nalpha <= stride\n", expect="guards"),
        Mutant("guards: contiguity test turned into a disjunction with something else", PW,
               "    assert ylm_lg.flags.c_contiguous\n", "    assert ylm_lg.flags.c_contiguous or ylm_lg.ndim == 2\n", expect="guards"),
    ]


if __name__ == "__main__":
    if os.environ.get("C18_DUMP_GUARDS"):
        import json
        _t = core.Tree()
        _eng = ffi.Engine(_t, ffi_modules(_t))
        print(json.dumps(guard_tables(_t, _eng, pf.Program(_t, [ST, PL, FN, XE, NC, LC])), indent=1))
        sys.exit(0)
    sys.exit(core.main(PROP, analyse, mutants, __doc__))
