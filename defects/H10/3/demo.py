"""C18 demo: ATCBasis.convert_rad2orb_ accepts a theta_rlmq whose number of
spherical harmonics (shape[1]) is smaller than (lmax_basis+1)^2.  The C routines
contract_orb_to_rad / contract_rad_to_orb index theta with l*l of every shell of the
basis, so they write / read past the end of the array they were given."""
import os
import sys

sys.path.insert(0, os.path.dirname(os.path.abspath(__file__)))
import cider_env  # noqa: E402

cider_env.install()

import numpy as np  # noqa: E402

from ciderpress.dft.lcao_convolutions import (  # noqa: E402
    ATCBasis,
    get_gamma_lists_from_etb_list,
)

fails = 0
# one atom, shells l = 0, 1, 2 (two exponents each) -> the basis needs nlm >= 9
etb = [[(0, 2, 0.5, 2.0), (1, 2, 0.5, 2.0), (2, 2, 0.5, 2.0)]]
atco = ATCBasis(*get_gamma_lists_from_etb_list(etb))
lmax_bas = int(atco.bas[:, 1].max())
nao = atco.nao
print("basis lmax =", lmax_bas, " nao =", nao, " -> needs nlm >=", (lmax_bas + 1) ** 2)

nrad, nalpha = 3, 2
rads = np.ascontiguousarray(np.linspace(0.2, 1.0, nrad))
rng = np.random.default_rng(0)
p_uq = np.ascontiguousarray(rng.normal(size=(nao, nalpha)))

for nlm in [9, 4]:
    print("--- theta_rlmq with nlm = %d" % nlm)
    # theta lives at the front of a larger block so that we can see what happens
    # behind it without crashing the interpreter
    guard_rows = 4
    canary = 7.0
    block = np.full((nrad + guard_rows, nlm, nalpha), canary)
    theta = block[:nrad]
    assert theta.flags.c_contiguous
    ar_loc = np.zeros(nrad, dtype=np.int32)
    try:
        atco.convert_rad2orb_(theta, p_uq, ar_loc, rads, rad2orb=False)
        dirty = int(np.sum(block[nrad:] != canary))
        print("  orb->rad accepted; guard elements behind theta modified:", dirty)
        if dirty:
            print("  expected: error or no access outside theta_rlmq (%d doubles)" % theta.size)
            print("  observed: C routine WROTE %d doubles past the end" % dirty)
            fails += 1
    except (AssertionError, ValueError) as e:
        print("  orb->rad rejected:", repr(e))

    ra_loc = np.array([0, nrad], dtype=np.int32)
    try:
        block[:] = 0.0
        block[:nrad] = rng.normal(size=(nrad, nlm, nalpha))
        out1 = np.zeros((nao, nalpha))
        atco.convert_rad2orb_(theta, out1, ra_loc, rads, rad2orb=True)
        block[nrad:] = 1e3  # change only memory BEHIND theta
        out2 = np.zeros((nao, nalpha))
        atco.convert_rad2orb_(theta, out2, ra_loc, rads, rad2orb=True)
        diff = np.abs(out1 - out2).max()
        print("  rad->orb accepted; change of result when only memory behind theta "
              "changes: %.3e" % diff)
        if diff != 0:
            print("  observed: C routine READ past the end of theta_rlmq")
            fails += 1
    except (AssertionError, ValueError) as e:
        print("  rad->orb rejected:", repr(e))

print("failures:", fails)
sys.exit(1 if fails else 0)
