"""Input-guard facts of a Python function: which array properties (contiguity, shape, ndim, size, dtype,
nfeat) and which linear relations between integer counts are *guaranteed on every path* to a program
point (a native call, or the normal exit).

Recognised guard forms (all equivalent spellings give the same fact):
  assert T            |  if not T: raise ...      |  if T': raise ...  (T' the negation)   |  if T: ok else: raise
  conjunctions are split (assert A and B == assert A; assert B); `if A or B: raise` gives not-A and not-B
  for arr in [a, b, c]: <guards on arr>          (also zip([...], [...]) with the first list)
  x = np.ascontiguousarray(x) / np.asarray(x, order='C'|'F') / np.require(..) -> contiguity of x
  x = np.zeros/empty/ones(...)                                              -> contiguity and shape of x
  helper(a, b) / self._helper(a)   where the helper guards its parameters on every path to its exit
                                    (guards are inlined with parameters replaced by the arguments)
Array property spellings: x.flags.c_contiguous | x.flags["C_CONTIGUOUS"] | x.flags.contiguous ;
  x.shape ... | len(x) -> shape ;  x.ndim | len(x.shape) -> ndim ;  x.shape == (a, b) -> shape and ndim.
"""
import ast

from sa import cfg as cfgm, pyfacts as pf, symlen

MAKE_CONTIG = {"np.ascontiguousarray", "np.asfortranarray", "np.require", "numpy.ascontiguousarray",
               "numpy.asfortranarray", "numpy.require"}
ORDERED_CTORS = {"np.asarray", "np.array", "np.zeros", "np.empty", "np.ones", "numpy.asarray", "numpy.array"}
ALLOC = {"np.zeros", "np.empty", "np.ones", "np.zeros_like", "np.empty_like", "np.ones_like",
         "numpy.zeros", "numpy.empty", "numpy.ones"}
CONTIG_ATTRS = {"c_contiguous", "f_contiguous", "contiguous", "forc", "fnc", "carray", "farray"}
CONTIG_KEYS = {"C_CONTIGUOUS", "F_CONTIGUOUS", "C", "F", "CONTIGUOUS", "FORC", "CA", "FA"}


class _Subst(ast.NodeTransformer):
    def __init__(self, mapping):
        self.mapping = mapping

    def visit_Name(self, node):
        if node.id in self.mapping and isinstance(node.ctx, ast.Load):
            return _fresh(self.mapping[node.id])
        return node


def _fresh(expr):
    """a copy of the expression without the `_parent` back-links of the framework's trees (deepcopy would
    follow them and copy the whole module)"""
    return ast.parse(ast.unparse(expr), mode="eval").body


def _subst_keep(expr, mapping):
    """like subst_names, but the replacement nodes are used as they are (synthetic names such as `xs[*]`)"""
    class _S(ast.NodeTransformer):
        def visit_Name(self, node):
            if node.id in mapping and isinstance(node.ctx, ast.Load):
                return ast.Name(mapping[node.id].id, ast.Load())
            return node
    return _S().visit(_fresh(expr))


def subst_names(expr, mapping):
    return _Subst(mapping).visit(_fresh(expr))


def conjuncts(e, positive=True):
    """-> [(expr, polarity)] facts implied by `e` holding (positive) / failing (negative)"""
    if isinstance(e, ast.UnaryOp) and isinstance(e.op, ast.Not):
        return conjuncts(e.operand, not positive)
    if isinstance(e, ast.BoolOp):
        if isinstance(e.op, ast.And) and positive or isinstance(e.op, ast.Or) and not positive:
            out = []
            for v in e.values:
                out += conjuncts(v, positive)
            return out
        if isinstance(e.op, ast.Or) and positive:
            # x.flags.c_contiguous or x.flags.f_contiguous : contiguity of x either way
            subs = {_flag_subject(v) for v in e.values}
            if len(subs) == 1 and None not in subs:
                return [(e.values[0], True)]
        return []  # any other disjunction guarantees none of its members
    return [(e, positive)]


def _flag_subject(e):
    if isinstance(e, ast.Attribute) and e.attr in CONTIG_ATTRS and isinstance(e.value, ast.Attribute) \
            and e.value.attr == "flags":
        return pf.src(e.value.value)
    if isinstance(e, ast.Subscript) and isinstance(e.value, ast.Attribute) and e.value.attr == "flags" \
            and isinstance(e.slice, ast.Constant) and str(e.slice.value).upper() in CONTIG_KEYS:
        return pf.src(e.value.value)
    return None


def _subject(e):
    """expression that denotes an array: Name / attribute chain / subscript of those -> source text"""
    n = e
    while isinstance(n, (ast.Attribute, ast.Subscript)):
        n = n.value
    if isinstance(n, ast.Name):
        return pf.src(e)
    return None


def atom_kinds(e, positive):
    """one guaranteed atom -> {subject: set(kinds)}"""
    out = {}

    def add(subj_expr, kind):
        s = _subject(subj_expr)
        if s:
            out.setdefault(s, set()).add(kind)

    # whole-shape equality implies the rank as well
    if isinstance(e, ast.Compare) and len(e.ops) == 1 and (
            isinstance(e.ops[0], ast.Eq) and positive or isinstance(e.ops[0], ast.NotEq) and not positive):
        for a, b in ((e.left, e.comparators[0]), (e.comparators[0], e.left)):
            if isinstance(a, ast.Attribute) and a.attr == "shape" and isinstance(b, (ast.Tuple, ast.List)):
                add(a.value, "ndim")
    parents = {}
    for n in ast.walk(e):
        for ch in ast.iter_child_nodes(n):
            parents[id(ch)] = n
    # whole-shape comparison with a tuple constrains every axis
    if isinstance(e, ast.Compare) and len(e.ops) == 1:
        for a, b in ((e.left, e.comparators[0]), (e.comparators[0], e.left)):
            if isinstance(a, ast.Attribute) and a.attr == "shape" and isinstance(b, (ast.Tuple, ast.List)):
                for k in range(len(b.elts)):
                    add(a.value, "shape[%d]" % k)
    # constraints on the VALUES an index array holds: loc[0] >= 0, np.all(loc[1:] >= loc[:-1]), np.max(loc) < n
    for n in ast.walk(e):
        if isinstance(n, ast.Subscript) and isinstance(n.value, ast.Name) and not isinstance(parents.get(id(n)), ast.Attribute):
            add(n.value, "values")
        elif isinstance(n, ast.Call) and pf.call_name(n) in ("np.min", "np.max", "np.all", "np.any", "np.amin", "np.amax",
                                                             "min", "max") and n.args and isinstance(n.args[0], ast.Name):
            add(n.args[0], "values")
    for n in ast.walk(e):
        if isinstance(n, ast.Attribute):
            if n.attr in CONTIG_ATTRS and isinstance(n.value, ast.Attribute) and n.value.attr == "flags":
                if positive and (n is e):
                    add(n.value.value, "contig")
            elif n.attr == "shape":
                add(n.value, "shape")
                par = parents.get(id(n))
                if isinstance(par, ast.Subscript) and par.value is n:
                    ix = par.slice
                    if isinstance(ix, ast.Constant) and isinstance(ix.value, int):
                        add(n.value, "shape[%d]" % ix.value)
                    elif isinstance(ix, ast.UnaryOp) and isinstance(ix.op, ast.USub) and isinstance(ix.operand, ast.Constant):
                        add(n.value, "shape[-%d]" % ix.operand.value)
            elif n.attr in ("ndim", "size", "dtype", "nfeat"):
                add(n.value, n.attr)
        elif isinstance(n, ast.Subscript) and isinstance(n.value, ast.Attribute) and n.value.attr == "flags" \
                and isinstance(n.slice, ast.Constant) and str(n.slice.value).upper() in CONTIG_KEYS:
            if positive and (n is e):
                add(n.value.value, "contig")
        elif isinstance(n, ast.Call) and pf.call_name(n) == "len" and len(n.args) == 1:
            a = n.args[0]
            if isinstance(a, ast.Attribute) and a.attr == "shape":
                add(a.value, "ndim")
            else:
                add(a, "shape")
        elif isinstance(n, ast.Call) and pf.call_name(n) in ("np.ndim", "numpy.ndim") and n.args:
            add(n.args[0], "ndim")
        elif isinstance(n, ast.Call) and pf.call_name(n) in ("np.shape", "numpy.shape") and n.args:
            add(n.args[0], "shape")
    # len(x.shape) must not also count as a shape test of x: remove 'shape' that only comes from inside len()
    for n in ast.walk(e):
        if isinstance(n, ast.Call) and pf.call_name(n) == "len" and len(n.args) == 1 \
                and isinstance(n.args[0], ast.Attribute) and n.args[0].attr == "shape":
            s = _subject(n.args[0].value)
            others = [m for m in ast.walk(e) if isinstance(m, ast.Attribute) and m.attr == "shape" and m is not n.args[0]
                      and _subject(m.value) == s]
            if s in out and not others:
                out[s].discard("shape")
    return {k: v for k, v in out.items() if v}


def _lin_of(e, names):
    L = symlen.Lin
    if isinstance(e, ast.Constant) and isinstance(e.value, int) and not isinstance(e.value, bool):
        return [L.c(e.value)]
    if isinstance(e, ast.Name) and e.id in names:
        return [L.atom(a) for a in names[e.id]]
    if isinstance(e, ast.UnaryOp) and isinstance(e.op, ast.USub):
        return [-x for x in _lin_of(e.operand, names)]
    if isinstance(e, ast.BinOp) and isinstance(e.op, (ast.Add, ast.Sub)):
        out = []
        for a in _lin_of(e.left, names):
            for b in _lin_of(e.right, names):
                out.append(a + b if isinstance(e.op, ast.Add) else a - b)
        return out[:8]
    if isinstance(e, ast.BinOp) and isinstance(e.op, ast.Mult):
        out = []
        for a in _lin_of(e.left, names):
            for b in _lin_of(e.right, names):
                if a.is_const():
                    out.append(b.scale(a.const))
                elif b.is_const():
                    out.append(a.scale(b.const))
        return out[:8]
    return []


def atom_relations(e, positive, names):
    """guaranteed comparison atom -> canonical strings `<lin> <= 0` / `<lin> == 0`; names: python name ->
    list of identities (one per callee alternative)"""
    out = []
    if not isinstance(e, ast.Compare):
        return out
    if not positive and len(e.ops) != 1:
        return out
    terms = [e.left] + list(e.comparators)
    for op, a, b in zip(e.ops, terms[:-1], terms[1:]):
        opn = type(op).__name__
        if not positive:
            opn = {"Lt": "GtE", "LtE": "Gt", "Gt": "LtE", "GtE": "Lt", "Eq": "NotEq", "NotEq": "Eq"}.get(opn)
        for la in _lin_of(a, names):
            for lb in _lin_of(b, names):
                if la.is_const() and lb.is_const():
                    continue
                if opn == "LtE":
                    d, rel = la - lb, "<="
                elif opn == "Lt":
                    d, rel = la - lb + 1, "<="
                elif opn == "GtE":
                    d, rel = lb - la, "<="
                elif opn == "Gt":
                    d, rel = lb - la + 1, "<="
                elif opn == "Eq":
                    d, rel = la - lb, "=="
                    if repr(-d) < repr(d):
                        d = -d
                else:
                    continue
                if len({a_ for a_ in d.atoms()}) >= 1:
                    out.append("%r %s 0" % (d, rel))
    return out


class Resolver:
    """finds the definition of a helper called as f(...) or self.m(...) / cls.m(...)"""

    def __init__(self, module_ast):
        self.mod = module_ast
        self.funcs = {n.name: n for n in module_ast.body if isinstance(n, ast.FunctionDef)}
        self.classes = {n.name: n for n in module_ast.body if isinstance(n, ast.ClassDef)}

    def _class_method(self, cls, name, _seen=()):
        if cls is None or cls.name in _seen:
            return None
        for st in cls.body:
            if isinstance(st, ast.FunctionDef) and st.name == name:
                return st
        for b in cls.bases:
            if isinstance(b, ast.Name) and b.id in self.classes:
                r = self._class_method(self.classes[b.id], name, _seen + (cls.name,))
                if r is not None:
                    return r
        return None

    def resolve(self, call, enclosing_fn):
        """-> (FunctionDef, [parameter names bound positionally, after self]) or None"""
        f = call.func
        if isinstance(f, ast.Name) and f.id in self.funcs:
            g = self.funcs[f.id]
            return g, [a.arg for a in g.args.args]
        if isinstance(f, ast.Attribute) and isinstance(f.value, ast.Name) and f.value.id in ("self", "cls"):
            cls = pf.enclosing_class(enclosing_fn)
            g = self._class_method(cls, f.attr)
            if g is not None:
                ps = [a.arg for a in g.args.args]
                static = any(pf.src(d) == "staticmethod" for d in g.decorator_list)
                return g, ps if static else ps[1:]
        return None


class FunctionGuards:
    """guard atoms per CFG node of one function (helper calls inlined, depth-limited)"""

    def __init__(self, fn, resolver, depth=0, entry_atoms=(), entry_direct=None):
        """entry_atoms / entry_direct: facts every caller guarantees at its call of this function, already
        expressed in this function's parameter names (see caller_context)"""
        self.fn = fn
        self.res = resolver
        self.depth = depth
        self.cfg = cfgm.CFG(fn)
        self.atoms = {}  # node id -> [(expr, polarity)]
        self.direct = {}  # node id -> {subject: kinds}
        if entry_atoms:
            self.atoms[self.cfg.entry.id] = list(entry_atoms)
        if entry_direct:
            self.direct[self.cfg.entry.id] = {k: set(v) for k, v in entry_direct.items()}
        for nd in self.cfg.nodes:
            if nd.ast is None:
                continue
            at, di = self._node(nd)
            if at:
                self.atoms[nd.id] = at
            if di:
                self.direct[nd.id] = di

    # -- summaries -----------------------------------------------------------
    def atoms_at(self, node_id):
        """atoms and direct facts guaranteed on every path from entry to CFG node `node_id`"""
        keys = {}
        for nid, ats in self.atoms.items():
            for e, pos in ats:
                keys.setdefault((ast.dump(e), pos), [e, set()])[1].add(nid)
        out = [(e, k[1]) for k, (e, ids) in keys.items()
               if self._mp(ids, node_id)]
        dk = {}
        for nid, d in self.direct.items():
            for subj, kinds in d.items():
                for kind in kinds:
                    dk.setdefault((subj, kind), set()).add(nid)
        direct = {}
        for (subj, kind), ids in dk.items():
            if self._mp(ids, node_id):
                direct.setdefault(subj, set()).add(kind)
        return out, direct

    def exit_atoms(self):
        """atoms guaranteed on every path to the normal exit -> [(expr, polarity)] (deduplicated by text)"""
        out, seen = [], set()
        for nid, ats in self.atoms.items():
            for e, pos in ats:
                key = (ast.dump(e), pos)
                if key in seen:
                    continue
                ids = {n for n, aa in self.atoms.items() if any((ast.dump(x), p) == key for x, p in aa)}
                if self._mp(ids):
                    seen.add(key)
                    out.append((e, pos))
        return out

    # -- per node ------------------------------------------------------------
    def _stmt_atoms(self, st):
        """atoms guaranteed once control has passed simple statement / if-header `st`"""
        if isinstance(st, ast.Assert):
            return conjuncts(st.test, True)
        if isinstance(st, ast.If):
            body_r, else_r = cfgm._raises(st.body), bool(st.orelse) and cfgm._raises(st.orelse)
            if body_r and not else_r:
                return conjuncts(st.test, False)
            if else_r and not body_r:
                return conjuncts(st.test, True)
        return []

    def _call_atoms(self, call):
        if self.depth >= 2 or self.res is None:
            return []
        r = self.res.resolve(call, self.fn)
        if r is None:
            return []
        g, params = r
        if g is self.fn:
            return []
        mapping = {}
        for i, a in enumerate(call.args):
            if isinstance(a, ast.Starred) or i >= len(params):
                break
            mapping[params[i]] = a
        for k in call.keywords:
            if k.arg:
                mapping[k.arg] = k.value
        if not mapping:
            return []
        sub = FunctionGuards(g, self.res, self.depth + 1)
        out = []
        local = {n.id for n in ast.walk(g) if isinstance(n, ast.Name) and isinstance(n.ctx, ast.Store)}
        for e, pos in sub.exit_atoms():
            names = {n.id for n in ast.walk(e) if isinstance(n, ast.Name)}
            # only atoms that speak about the parameters (and self / globals), not about helper locals
            if names & local - set(mapping):
                continue
            if not names & set(mapping):
                continue
            out.append((subst_names(e, mapping), pos))
        return out

    def _node(self, nd):
        a = nd.ast
        atoms, direct = [], {}
        if nd.kind == "stmt" and isinstance(a, ast.Assert):
            atoms += self._stmt_atoms(a)
        elif nd.kind == "test" and isinstance(a, ast.If):
            atoms += self._stmt_atoms(a)
        elif nd.kind == "iter" and isinstance(a, ast.For):
            it, var = a.iter, a.target
            if isinstance(it, ast.Call) and pf.call_name(it) == "zip" and it.args and isinstance(var, ast.Tuple) \
                    and var.elts:
                it, var = it.args[0], var.elts[0]
            if isinstance(it, ast.Call) and pf.call_name(it) == "enumerate" and it.args and isinstance(var, ast.Tuple) \
                    and len(var.elts) == 2:
                it, var = it.args[0], var.elts[1]
            # for a, b in zip(xs, ys): <guards on a, b>   -> facts about every element: xs__each, ys__each
            it0, var0 = a.iter, a.target
            pairs = []
            if isinstance(it0, ast.Call) and pf.call_name(it0) == "zip" and isinstance(var0, ast.Tuple) \
                    and len(var0.elts) == len(it0.args):
                pairs = [(x, v) for x, v in zip(it0.args, var0.elts)]
            elif isinstance(it0, ast.Name) and isinstance(var0, ast.Name):
                pairs = [(it0, var0)]
            mapping = {v.id: ast.Name("%s__each" % x.id, ast.Load()) for x, v in pairs
                       if isinstance(x, ast.Name) and isinstance(v, ast.Name)}
            if mapping:
                for st in a.body:
                    for e, pos in self._stmt_atoms(st) if isinstance(st, (ast.Assert, ast.If)) else []:
                        names = {n.id for n in ast.walk(e) if isinstance(n, ast.Name)}
                        if names & set(mapping):
                            atoms.append((_subst_keep(e, mapping), pos))
            if isinstance(it, (ast.List, ast.Tuple)) and isinstance(var, ast.Name) and it.elts \
                    and not any(isinstance(x, ast.Starred) for x in it.elts):
                for st in a.body:
                    for e, pos in self._stmt_atoms(st) if isinstance(st, (ast.Assert, ast.If)) else []:
                        if any(isinstance(n, ast.Name) and n.id == var.id for n in ast.walk(e)):
                            for el in it.elts:
                                atoms.append((subst_names(e, {var.id: el}), pos))
                    if isinstance(st, ast.Expr) and isinstance(st.value, ast.Call):
                        for e, pos in self._call_atoms(st.value):
                            if any(isinstance(n, ast.Name) and n.id == var.id for n in ast.walk(e)):
                                for el in it.elts:
                                    atoms.append((subst_names(e, {var.id: el}), pos))
        elif nd.kind == "stmt" and isinstance(a, ast.Assign) and len(a.targets) == 1 and isinstance(a.value, ast.Call):
            t = a.targets[0]
            cn = pf.call_name(a.value)
            tgt = pf.src(t) if isinstance(t, (ast.Name, ast.Attribute)) else None
            # order="A"/"K" (or a non-literal order) keeps whatever layout the source array has: no guarantee
            if tgt and (cn in MAKE_CONTIG or (cn in ORDERED_CTORS and any(
                    k.arg == "order" and isinstance(k.value, ast.Constant) and k.value.value in ("C", "F", "c", "f")
                    for k in a.value.keywords))):
                direct.setdefault(tgt, set()).add("contig")
            if tgt and cn in ALLOC:
                direct.setdefault(tgt, set()).update({"contig", "shape", "dtype"})
            # X = f(Y[..., idx]) : the last axis of X has exactly len(idx) entries (the width C is told)
            for x in [a.value] + list(a.value.args[:1]):
                if isinstance(x, ast.Subscript) and isinstance(x.slice, ast.Tuple) and len(x.slice.elts) == 2 \
                        and isinstance(x.slice.elts[0], ast.Constant) and x.slice.elts[0].value is Ellipsis \
                        and isinstance(x.slice.elts[1], (ast.Name, ast.Attribute)) and tgt:
                    direct.setdefault(tgt, set()).add("shape[-1]")
            has_dtype = any(k.arg == "dtype" for k in a.value.keywords) or (
                cn in MAKE_CONTIG | ORDERED_CTORS and len(a.value.args) >= 2)
            if tgt and cn in MAKE_CONTIG | ORDERED_CTORS and has_dtype:
                direct.setdefault(tgt, set()).add("dtype")  # converted to a definite element type
            if tgt and isinstance(a.value.func, ast.Attribute) and a.value.func.attr == "astype" and a.value.args:
                direct.setdefault(tgt, set()).add("dtype")
            if tgt and isinstance(a.value.func, ast.Attribute) and a.value.func.attr == "copy" \
                    and not any(k.arg == "order" for k in a.value.keywords) and not a.value.args:
                direct.setdefault(tgt, set()).add("contig")  # ndarray.copy() is C-ordered by default
            atoms += self._call_atoms(a.value)
        elif nd.kind == "stmt" and isinstance(a, ast.Expr) and isinstance(a.value, ast.Call):
            atoms += self._call_atoms(a.value)
        return atoms, direct

    # -- queries -------------------------------------------------------------
    def node_kinds(self):
        """node id -> {subject: kinds}"""
        out = {}
        for nid in set(self.atoms) | set(self.direct):
            d = {}
            for e, pos in self.atoms.get(nid, []):
                for s, ks in atom_kinds(e, pos).items():
                    d.setdefault(s, set()).update(ks)
            for s, ks in self.direct.get(nid, {}).items():
                d.setdefault(s, set()).update(ks)
            if d:
                out[nid] = d
        return out

    def node_relations(self, names):
        out = {}
        for nid, ats in self.atoms.items():
            rels = set()
            for e, pos in ats:
                rels.update(atom_relations(e, pos, names))
            if rels:
                out[nid] = rels
        return out

    def _mp(self, ids, dst=None):
        if self.cfg.entry.id in ids:
            return True  # established by every caller before the function is entered
        return self.cfg.must_pass(lambda nd: nd.id in ids, dst=dst)[0]

    def guaranteed(self, pred_ids, dsts):
        if self.cfg.entry.id in pred_ids:
            return True
        return all(self.cfg.must_pass(lambda nd: nd.id in pred_ids, dst=d)[0] for d in dsts)


# ----------------------------------------------------------------------------
# guards established by the callers of a helper (guard in caller, native call in helper)
# ----------------------------------------------------------------------------
class _ArgToParam(ast.NodeTransformer):
    def __init__(self, by_text):
        self.by_text = by_text

    def generic_visit(self, node):
        if isinstance(node, ast.expr):
            try:
                t = ast.unparse(node)
            except Exception:
                t = None
            if t in self.by_text:
                return ast.Name(self.by_text[t], ast.Load())
        return super().generic_visit(node)


def caller_context(module_ast, helper, resolver, cache=None):
    """Facts that *every* call of `helper` inside its module guarantees at the call, translated into the
    helper's parameter names -> (atoms, direct) ; ([], {}) when the helper is not called in the module."""
    cache = cache if cache is not None else {}
    calls = []
    cls = pf.enclosing_class(helper)
    for n in ast.walk(module_ast):
        if not isinstance(n, ast.Call):
            continue
        f = n.func
        hit = False
        if isinstance(f, ast.Name) and f.id == helper.name and cls is None:
            hit = True
        elif isinstance(f, ast.Attribute) and f.attr == helper.name and cls is not None \
                and isinstance(f.value, ast.Name) and (f.value.id in ("self", "cls") or f.value.id == cls.name):
            hit = True
        if hit:
            r = resolver.resolve(n, pf.enclosing_func(n)) if pf.enclosing_func(n) is not None else None
            if r is not None and r[0] is helper:
                calls.append((n, r[1]))
    calls = [(c, ps) for c, ps in calls if pf.enclosing_func(c) is not helper]
    if not calls:
        return [], {}
    common_atoms, common_direct = None, None
    for call, params in calls:
        caller = pf.enclosing_func(call)
        key = id(caller)
        if key not in cache:
            cache[key] = FunctionGuards(caller, resolver)
        fg = cache[key]
        nd = fg.cfg.stmt_of_expr(call)
        if nd is None:
            return [], {}
        by_text = {}
        for i, a in enumerate(call.args):
            if isinstance(a, ast.Starred) or i >= len(params):
                break
            by_text[ast.unparse(a)] = params[i]
        for k in call.keywords:
            if k.arg:
                by_text[ast.unparse(k.value)] = k.arg
        ats, direct = fg.atoms_at(nd.id)
        caller_locals = {n.id for n in ast.walk(caller) if isinstance(n, ast.Name) and isinstance(n.ctx, ast.Store)}
        caller_locals |= {a.arg for a in caller.args.args + caller.args.kwonlyargs}
        t_atoms = {}
        for e, pos in ats:
            e2 = _ArgToParam(by_text).visit(_fresh(e))
            names = {n.id for n in ast.walk(e2) if isinstance(n, ast.Name)}
            if not names & set(by_text.values()):
                continue
            if (names - set(by_text.values()) - {"self", "cls"}) & caller_locals:
                continue
            t_atoms[(ast.dump(e2), pos)] = (e2, pos)
        t_direct = {}
        for subj, kinds in direct.items():
            if subj in by_text:
                t_direct[by_text[subj]] = set(kinds)
        if common_atoms is None:
            common_atoms, common_direct = t_atoms, t_direct
        else:
            common_atoms = {k: v for k, v in common_atoms.items() if k in t_atoms}
            common_direct = {k: v & t_direct.get(k, set()) for k, v in common_direct.items() if k in t_direct}
    return list(common_atoms.values()), {k: v for k, v in (common_direct or {}).items() if v}


# ----------------------------------------------------------------------------
# buffer layout: wrapper parameters handed to C must be layout- and dtype-normalised on every path
# ----------------------------------------------------------------------------
def buffer_layout(tree, sites, c_kind_of=None):
    """For every ctypes call site (objects with .rel .func .node .pairs .callees .line as produced by sa.ffi) and
    every argument `<p>.ctypes.data_as(..)` / `<p>.ctypes.data` whose array `<p>` is a *parameter* of the Python
    function making the call: is contiguity and is the element type guaranteed on every path to the call
    (np.ascontiguousarray / require / asarray(order=) / .copy() / fresh allocation; dtype= conversion / astype /
    fresh allocation; or an assert / raising test on .flags.c_contiguous and .dtype -- in the function, a helper it
    calls, or every caller of a private helper)?  -> list of dicts (one per site argument)"""
    out = []
    resolvers, caches = {}, {}
    for s_ in sites:
        fn = pf.enclosing_func(s_.node)
        if fn is None:
            continue
        params = [a.arg for a in fn.args.posonlyargs + fn.args.args + fn.args.kwonlyargs]
        params = [p_ for p_ in params if p_ not in ("self", "cls")]
        subjects = {}
        for c, al in s_.pairs:
            if c is None or al is None:
                continue
            for i, it in enumerate(al):
                src = it[1]
                if ".ctypes.data" in src:
                    subj = src.split(".ctypes.data")[0]
                    if subj in params:
                        subjects.setdefault(subj, i)
        if not subjects:
            continue
        mod_ast = tree.py(s_.rel)
        if s_.rel not in resolvers:
            resolvers[s_.rel] = Resolver(mod_ast)
            caches[s_.rel] = {}
        e_atoms, e_direct = caller_context(mod_ast, fn, resolvers[s_.rel], caches[s_.rel])
        fg = FunctionGuards(fn, resolvers[s_.rel], entry_atoms=e_atoms, entry_direct=e_direct)
        cn = fg.cfg.stmt_of_expr(s_.node)
        if cn is None:
            continue
        nk = fg.node_kinds()
        for subj, argi in sorted(subjects.items()):
            have = set()
            for kind in ("contig", "dtype"):
                ids = {nid for nid, d in nk.items() if kind in d.get(subj, ())}
                if ids and fg.guaranteed(ids, [cn.id]):
                    have.add(kind)
            # kinds established by an explicit check (assert / raising test), as opposed to a conversion
            checked = set()
            for kind in ("contig", "dtype"):
                ids = set()
                for nid, ats in fg.atoms.items():
                    for e, pos in ats:
                        if kind in atom_kinds(e, pos).get(subj, ()):
                            ids.add(nid)
                if ids and fg.guaranteed(ids, [cn.id]):
                    checked.add(kind)
            out.append({"site": s_, "subject": subj, "arg": argi, "have": have, "missing": {"contig", "dtype"} - have,
                        "checked": checked})
    return out
