"""
Demo: NLDFAuxiliaryPlan.eval_vxc_vj_ (reverse mode of eval_rho_vj_) takes the number
of interpolation points from the wrong axis of the (nalpha, ngrids) coefficient
array:

    eval_rho_vj_ :  nalpha = p_i_qg[0].shape[0]      # correct
    eval_vxc_vj_ :  nalpha = p_i_qg[0].shape[1]      # = ngrids

so  vf_qg[:nalpha] += p * vfeat  only works by accident when ngrids >= nalpha.
For a grid batch with fewer points than interpolation exponents the forward
routine (eval_rho_full) works but the backward routine (eval_vxc_full) raises a
broadcasting ValueError, for both coefficient orders "gq" and "qg".

Expected: eval_vxc_full returns vf with  <vfeat, d feat[f]> == <vf, df>  (the
transpose of the linear map f -> feat), for every batch size.

Run:  PYTHONPATH=/tmp/hunt/H5 /venv/bin/python demo.py
"""
import sys

import cider_build  # noqa: F401
import numpy as np

from ciderpress.dft.plans import NLDFGaussianPlan, NLDFSplinePlan
from ciderpress.dft.settings import NLDFSettingsVJ

vj = NLDFSettingsVJ("MGGA", [1.0, 0.0, 0.03125], "one", ["se", "se_ar2"], [[2.0, 0.0, 0.04], [1.0, 0.0, 0.02]])
nalpha = 12
rng = np.random.default_rng(0)
failed = False
for cls in [NLDFGaussianPlan, NLDFSplinePlan]:
    for order in ["gq", "qg"]:
        for ngrids in [40, 5]:
            plan = cls(vj, 1, 0.01, 1.8, nalpha, coef_order=order)
            rho = 0.05 * np.abs(rng.normal(size=(5, ngrids))) + 0.01
            rho[4] += np.einsum("xg,xg->g", rho[1:4], rho[1:4]) / (8 * rho[0])
            shape = (ngrids, nalpha) if order == "gq" else (nalpha, ngrids)
            f = rng.normal(size=shape)
            df = rng.normal(size=shape)
            label = "%-16s order=%s ngrids=%2d nalpha=%d:" % (cls.__name__, order, ngrids, nalpha)
            feat, dfeat = plan.eval_rho_full(f, rho)
            feat = feat.copy()
            vfeat = rng.normal(size=feat.shape)
            vrho = np.zeros_like(rho)
            try:
                vf = plan.eval_vxc_full(vfeat, vrho, dfeat, rho)
            except ValueError as e:
                print(label, "forward ok, backward raised ValueError: %s" % str(e).split("\n")[0])
                failed = True
                continue
            # feat is linear in f: <vfeat, feat(df)> must equal <vf, df>
            lhs = np.sum(vfeat * plan.eval_rho_full(df, rho)[0])
            rhs = np.sum(vf * df)
            ok = abs(lhs - rhs) < 1e-10 * abs(lhs)
            print(label, "<vfeat, A df> = % .10e  <A^T vfeat, df> = % .10e %s" % (lhs, rhs, "" if ok else "--> MISMATCH"))
            failed = failed or not ok
if failed:
    print("FAIL")
    sys.exit(1)
print("OK")
