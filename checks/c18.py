#!/usr/bin/env python3
"""C18 -- bookkeeping is consistent, bad input is rejected, C calls stay within buffers.
Static rules (DESIGN.md §C18):

 ffi            every ctypes call site in ciderpress/{dft,pyscf,lib} agrees with the C prototype
                (x86-64 SysV landing slots, pointer/integer/double kinds, restype of non-int returns,
                function-pointer arguments vs the FPtr_* typedef)
 len-agree      per settings class: len(get_feat_usps()) == len(ueg_vector()) ==
                len(get_reasonable_normalizer()) == nfeat as linear forms, under the facts the
                constructor asserts; FeatureSettings concatenates the same components in one order
 reject-mode    every string-valued constructor parameter that the constructor compares with
                literals is rejected for any other string
 validate       dot-index / spec / parameter lists consumed by the accessors reach a raising
                validator in the constructor (sibling rule)
 param-guards   frozen table of constructor / validator parameters (alpha0, lambd, nalpha, nspin, modes,
                params[k], counts) that must still occur in the test of an assert / raise
 dispatch       string ladders end in a raise or dispatch on a validated closed set
 expnt-guard    every normal exit of eval_feat_exp passes the large-exponent test
 guards         frozen table of shape/contiguity guards dominating native calls, and of the
                pure-Python shape validators named by the property
 count-prov     a count passed next to a locally allocated buffer is one of its shape symbols
"""
import ast
import os
import sys

sys.path.insert(0, os.path.dirname(os.path.dirname(os.path.abspath(__file__))))
from sa import core, pyfacts as pf, cfg as cfgm, ffi, symlen, guards  # noqa: E402
from sa.selftest import Mutant  # noqa: E402

PROP = "C18"
ST = "ciderpress/dft/settings.py"
PL = "ciderpress/dft/plans.py"
FN = "ciderpress/dft/feat_normalizer.py"
XE = "ciderpress/dft/xc_evaluator.py"
NC = "ciderpress/pyscf/nldf_convolutions.py"
LC = "ciderpress/dft/lcao_convolutions.py"
SD = "ciderpress/pyscf/sdmx.py"
PW = "ciderpress/dft/pwutil.py"


def ffi_modules(tree):
    rels = []
    for pat in ("ciderpress/dft/**/*.py", "ciderpress/pyscf/**/*.py", "ciderpress/lib/**/*.py"):
        for r in tree.glob(pat):
            if "/tests/" not in r and r not in rels:
                rels.append(r)
    return sorted(rels)


# ----------------------------------------------------------------------------
# rule 4: ctypes conformance
# ----------------------------------------------------------------------------
def rule_ffi(chk, eng):
    cnt = ffi.report(chk, eng, "ffi", eng.sites)
    for k, v in cnt.items():
        chk.count("ffi " + k, v)
    # repo C functions handed to PySCF's own drivers as callbacks
    n_ext = 0
    for mf, qual, call, drv, passed in ffi.external_fnptr_sites(eng):
        for idx, ref in passed:
            td = ffi.EXTERNAL_DRIVERS[drv].get(idx)
            if td is None or td not in eng.c.typedefs:
                continue
            v = ffi.Verdict()
            ffi.judge_fnptr(eng, mf, ref, td, v, "argument %d of PySCF driver %s" % (idx + 1, drv))
            n_ext += 1
            inst = "%s:%s %s(%s as %s)" % (mf.rel, qual, drv, ref[1], td)
            if v.violations:
                for name, txt in v.violations:
                    chk.violation("ffi", mf.rel, qual, "%s(... %s ...)" % (drv, ref[1]), call.lineno, txt, instance=inst)
            else:
                chk.ok("ffi-callback", inst)
    chk.count("ffi callbacks to external drivers", n_ext)
    if cnt["unresolved"]:
        raise core.AnalysisError("%d ctypes call site(s) with a callee/argument list the data-flow cannot resolve "
                                 "(0 on the pinned tree)" % cnt["unresolved"])


# ----------------------------------------------------------------------------
# rule 1: length agreement
# ----------------------------------------------------------------------------
NOT_MODELLED = {}  # class -> why the length interpreter does not model it (recorded, not silently passed)


def _is_stub(fn):
    body = [s for s in fn.body if not (isinstance(s, ast.Expr) and isinstance(s.value, ast.Constant))]
    return not body or all(isinstance(s, ast.Pass) for s in body)


def _abstract(fn):
    return any(pf.src(d).endswith("abstractmethod") for d in fn.decorator_list) or _is_stub(fn)


def rule_len(chk, prog):
    mod = prog.module(ST)
    classes = prog.subclasses("BaseSettings")
    if len(classes) < 10:
        raise core.AnalysisError("fewer than 10 settings classes derive from BaseSettings")
    n_cfg = 0
    for m, c in classes:
        if m.rel != ST:
            continue
        probe = symlen.Interp(prog, m, c)
        members = {nm: probe.find_member(nm) for nm in ("nfeat",) + symlen.SETTINGS_LEN_METHODS}
        if any(r is None or _abstract(r[2]) for r in members.values()):
            chk.note("len-agree", "%s:%s" % (ST, c.name), "abstract (some accessor is a stub); not an instantiable class")
            continue
        if c.name in NOT_MODELLED:
            chk.note("len-agree", "%s:%s" % (ST, c.name), "not modelled: " + NOT_MODELLED[c.name])
            chk.not_decided.append("length agreement of %s (%s)" % (c.name, NOT_MODELLED[c.name]))
            continue
        try:
            cfgs = symlen.analyse_class(prog, m, c)
        except symlen.NotComparable as e:
            raise core.AnalysisError("settings class %s: %s" % (c.name, e))
        accepted = [g for g in cfgs if g.rejected is None]
        if not accepted:
            raise core.AnalysisError("constructor of %s rejects every configuration the interpreter tried" % c.name)
        # rejection of unknown mode strings
        for g in cfgs:
            if symlen.OTHER in g.fixed.values():
                inst = "%s(%s)" % (c.name, g.label())
                if g.rejected is None:
                    bad = sorted(k for k, v in g.fixed.items() if v == symlen.OTHER)
                    chk.violation("reject-mode", ST, c.name + ".__init__", "unknown %s accepted" % ",".join(bad),
                                  c.lineno, "the constructor compares %s with string literals but completes for a "
                                  "string that equals none of them (configuration %s)" % (", ".join(bad), g.label()),
                                  instance=inst)
                else:
                    chk.ok("reject-mode", inst)
        for meth in symlen.SETTINGS_LEN_METHODS:
            owner = members[meth][1].name
            bad = []
            unimpl = 0
            for g in accepted:
                n_cfg += 1
                nf, ln = g.nfeat, g.lengths[meth]
                if isinstance(nf, tuple):
                    raise core.AnalysisError("%s.nfeat (%s): %s" % (c.name, g.label(), nf[1]))
                if isinstance(ln, tuple):
                    if ln[0] == "raises":
                        unimpl += 1
                        continue
                    raise core.AnalysisError("%s.%s (%s): %s" % (c.name, meth, g.label(), ln[1]))
                d = symlen.simplify(ln - nf, g.facts)
                if d == symlen.Lin.c(0):
                    continue
                if d.uncertain():
                    raise core.AnalysisError("%s.%s (%s): length %r is not comparable with nfeat %r"
                                             % (c.name, meth, g.label(), ln, nf))
                bad.append((g, ln, nf))
            inst = "%s.%s == nfeat" % (c.name, meth)
            if unimpl == len(accepted):
                chk.ok("len-agree", inst + " (raises: unimplemented)", nontrivial=False)
                chk.note("len-agree", "%s:%s.%s" % (ST, c.name, meth), "always raises (%s); nothing to compare" % owner)
                continue
            if bad:
                g, ln, nf = bad[0]
                chk.violation(
                    "len-agree", ST, "%s.%s" % (c.name, meth), "len(%s()) == nfeat" % meth,
                    members[meth][2].lineno,
                    "len(%s()) = %r but nfeat = %r (configuration %s); they are equal only under a bound the "
                    "constructor does not establish (facts: %s)"
                    % (meth, ln, nf, g.label(), "; ".join(g.facts.text) or "none"), instance=inst)
            else:
                chk.ok("len-agree", inst)
    chk.count("settings configurations interpreted", n_cfg)
    # FeatureSettings: one component order in every accessor
    fs = mod.cls("FeatureSettings")
    orders = {}
    for name in ("nfeat", "get_feat_loc") + symlen.SETTINGS_LEN_METHODS:
        fn = pf.methods(fs).get(name)
        if fn is None:
            raise core.AnalysisError("FeatureSettings.%s vanished" % name)
        seq = []
        for n in ast.walk(fn):
            if isinstance(n, ast.Attribute) and pf.is_self_attr(n.value) and n.value.attr.endswith("_settings") \
                    and n.attr in ("nfeat",) + symlen.SETTINGS_LEN_METHODS:
                seq.append((n.lineno, n.col_offset, n.value.attr))
        orders[name] = [a for _, _, a in sorted(seq)]
    ref = orders["get_feat_loc"]
    if len(ref) < 4:
        raise core.AnalysisError("FeatureSettings.get_feat_loc no longer lists the component feature counts")
    for name, seq in orders.items():
        inst = "FeatureSettings.%s component order" % name
        if seq == ref:
            chk.ok("len-agree", inst)
        else:
            chk.violation("len-agree", ST, "FeatureSettings.%s" % name, "component order", fs.lineno,
                          "components are combined in the order %s but get_feat_loc computes offsets in the "
                          "order %s" % (seq, ref), instance=inst)


# ----------------------------------------------------------------------------
# rule 2: validation coverage (sibling rule)
# ----------------------------------------------------------------------------
def _has_raise(fn):
    return any(isinstance(n, (ast.Raise, ast.Assert)) for n in ast.walk(fn))


def _resolve_self_attr(prog, m, c, e):
    """self.A, or self.P with P a property returning self._A  ->  underlying attribute name"""
    if not pf.is_self_attr(e):
        return None
    r = prog.find_method(m, c, e.attr)
    if r is not None and any(pf.src(d) == "property" for d in r[2].decorator_list):
        rets = [n for n in pf.walk_no_nested(r[2]) if isinstance(n, ast.Return)]
        if len(rets) == 1 and pf.is_self_attr(rets[0].value):
            return rets[0].value.attr
        return None
    return e.attr


def _iter_attrs(prog, m, c, it):
    """iterable expression -> list of underlying attribute names by tuple position (None = other)"""
    if isinstance(it, ast.Call) and pf.call_name(it) == "enumerate" and it.args:
        return ("enumerate", _iter_attrs(prog, m, c, it.args[0]))
    if isinstance(it, ast.Call) and pf.call_name(it) == "zip":
        return ("zip", [_resolve_self_attr(prog, m, c, a) for a in it.args])
    return ("plain", _resolve_self_attr(prog, m, c, it))


def _roles(prog, m, c):
    """attribute -> {role: witness text} from the way the accessor methods consume it"""
    roles = {}
    seen = set()
    for mm, cc in prog.mro(m, c):
        for name, fn in pf.methods(cc).items():
            if name == "__init__" or name.startswith("_check") or name in seen:
                continue
            seen.add(name)
            for n in pf.walk_no_nested(fn):
                if isinstance(n, ast.Subscript) and pf.is_self_attr(n.value) and isinstance(n.slice, ast.Constant) \
                        and isinstance(n.slice.value, int):
                    a = _resolve_self_attr(prog, mm, cc, n.value)
                    if a:
                        roles.setdefault(a, {}).setdefault("params", "%s.%s: %s" % (cc.name, name, pf.src(n)))
                if not isinstance(n, ast.For):
                    continue
                kind, spec = _iter_attrs(prog, m, c, n.iter)
                tgt = n.target
                if kind == "enumerate":
                    if not (isinstance(tgt, ast.Tuple) and len(tgt.elts) == 2):
                        continue
                    tgt = tgt.elts[1]
                    kind, spec = spec
                pairs = []  # (attr, target node)
                if kind == "plain" and spec:
                    pairs.append((spec, tgt))
                elif kind == "zip" and isinstance(tgt, ast.Tuple) and len(tgt.elts) == len(spec):
                    pairs += [(a, t) for a, t in zip(spec, tgt.elts) if a]
                for attr, t in pairs:
                    where = "%s.%s: for %s in %s" % (cc.name, name, pf.src(n.target), pf.src(n.iter))
                    if isinstance(t, ast.Tuple) and len(t.elts) == 2 and all(isinstance(x, ast.Name) for x in t.elts):
                        ids = {x.id for x in t.elts}
                        used = any(isinstance(b, ast.Subscript) and isinstance(b.slice, ast.Name) and b.slice.id in ids
                                   for st in n.body for b in ast.walk(st))
                        if used:
                            roles.setdefault(attr, {}).setdefault("dots", where)
                    elif isinstance(t, ast.Name):
                        for st in n.body:
                            for b in ast.walk(st):
                                if isinstance(b, ast.Compare) and isinstance(b.left, ast.Name) and b.left.id == t.id \
                                        and isinstance(b.comparators[0], ast.Constant) \
                                        and isinstance(b.comparators[0].value, str):
                                    roles.setdefault(attr, {}).setdefault("specs", where)
                                if isinstance(b, ast.Subscript) and isinstance(b.slice, ast.Name) and b.slice.id == t.id \
                                        and isinstance(b.value, ast.Name) and b.value.id.isupper():
                                    roles.setdefault(attr, {}).setdefault("specs", where)
                                if isinstance(b, ast.Subscript) and isinstance(b.value, ast.Name) and b.value.id == t.id \
                                        and isinstance(b.slice, ast.Constant) and isinstance(b.slice.value, int):
                                    roles.setdefault(attr, {}).setdefault("params", where)
    return roles


def _raising_callee(prog, m, c, call):
    f = call.func
    if isinstance(f, ast.Name) and f.id in m.functions:
        return _has_raise(m.functions[f.id])
    if isinstance(f, ast.Attribute) and isinstance(f.value, ast.Name):
        if f.value.id == "self":
            r = prog.find_method(m, c, f.attr)
            return r is not None and _has_raise(r[2])
        rc = prog.resolve_class(m, f.value.id)
        if rc is not None and f.attr in pf.methods(rc[1]):
            return _has_raise(pf.methods(rc[1])[f.attr])
    return False


def _validated(prog, m, c, attr):
    """the constructor chain hands `self.attr` (or the parameter stored into it) to a raising
    validator, or loops over it with a raise in the body -> witness text or None"""
    for mm, cc in prog.mro(m, c):
        init = pf.methods(cc).get("__init__")
        if init is None:
            continue
        names = set()
        for n in pf.walk_no_nested(init):
            if isinstance(n, ast.Assign) and any(pf.is_self_attr(t, attr) for t in n.targets) \
                    and isinstance(n.value, ast.Name):
                names.add(n.value.id)

        def is_x(e):
            return pf.is_self_attr(e, attr) or (isinstance(e, ast.Name) and e.id in names) or (
                pf.is_self_attr(e) and _resolve_self_attr(prog, mm, cc, e) == attr)

        def mentions(e):
            return any(is_x(x) for x in ast.walk(e))

        for n in pf.walk_no_nested(init):
            if isinstance(n, ast.Call) and any(is_x(a) for a in n.args) and _raising_callee(prog, mm, cc, n):
                return "%s.__init__: %s" % (cc.name, pf.src(n))
            if isinstance(n, ast.For) and mentions(n.iter):
                for st in n.body:
                    for b in ast.walk(st):
                        if isinstance(b, (ast.Raise, ast.Assert)) or (
                                isinstance(b, ast.Call) and _raising_callee(prog, mm, cc, b)):
                            return "%s.__init__: for %s in %s: ... %s" % (
                                cc.name, pf.src(n.target), pf.src(n.iter), pf.src(b)[:50])
    return None


ROLE_TEXT = {"dots": "list of index pairs used to subscript another list",
             "specs": "list of spec strings dispatched on / used as table keys",
             "params": "parameter vector indexed by constant positions"}


def rule_validate(chk, prog):
    n = 0
    for m, c in prog.subclasses("BaseSettings"):
        if m.rel != ST or pf.methods(c).get("__init__") is None and not any(
                pf.methods(cc).get("__init__") for _, cc in prog.mro(m, c)):
            continue
        roles = _roles(prog, m, c)
        for attr, rs in sorted(roles.items()):
            for role, where in sorted(rs.items()):
                n += 1
                inst = "%s.%s as %s" % (c.name, attr, role)
                w = _validated(prog, m, c, attr)
                if w:
                    chk.ok("validate", inst, detail=w)
                else:
                    chk.violation(
                        "validate", ST, c.name + ".__init__", "self.%s validated (%s)" % (attr, role), c.lineno,
                        "self.%s is consumed as a %s (%s) but no constructor of %s passes it to a raising validator "
                        "or checks its items; sibling attributes of the same role are validated"
                        % (attr, ROLE_TEXT[role], where, c.name), instance=inst)
    if n == 0:
        raise core.AnalysisError("no validated-list roles recognised in the settings classes")


# ----------------------------------------------------------------------------
# rule 2b: constructor parameters that are rejected when invalid (frozen table of API names)
# ----------------------------------------------------------------------------
PARAM_GUARDS = {
    # (module, function): names that must occur in the test of a raising guard of that function
    (PL, "NLDFAuxiliaryPlan.__init__"): ["nldf_settings", "alpha0", "lambd", "nalpha", "alpha_formula", "coef_order",
                                         "nspin", "rhocut", "expcut"],
    (ST, "NLDFSettings.__init__"): ["sl_level", "rho_mult"],
    (ST, "NLDFSettingsVK.__init__"): ["rho_damp"],
    (ST, "NLDFSettingsVJ.__init__"): ["feat_params"],
    (ST, "NLDFSettingsVIJ.__init__"): ["feat_params", "l1_feat_specs"],
    (ST, "SADMSettings.__init__"): ["mode"],
    (ST, "SemilocalSettings.__init__"): ["mode"],
    (ST, "SDMXGSettings.__init__"): ["ndt"],
    (ST, "SDMX1Settings.__init__"): ["_n1"],
    (ST, "FracLaplSettings.__init__"): ["nk0", "nk1", "nd1", "ndd"],
    (ST, "NLDFSettings._check_params"): ["params[0]", "params[1]", "params[2]", "len(params)"],
    (ST, "NLDFSettings._check_specs"): ["spec"],
    (ST, "_check_l1_dots"): ["dot", "nl1"],
}


def _guard_tests(fn):
    """tests of statements that reject: assert T | if T: ...raise (no else) | elif T: raise | ladder else raise"""
    out = []
    for n in ast.walk(fn):
        if isinstance(n, ast.Assert):
            out.append(n.test)
        elif isinstance(n, ast.If):
            if cfgm._raises(n.body):
                out.append(n.test)
            elif n.orelse and cfgm._raises(n.orelse) and not (len(n.orelse) == 1 and isinstance(n.orelse[0], ast.If)):
                out.append(n.test)
    return out


def rule_param_guards(chk, prog):
    for (rel, qual), names in sorted(PARAM_GUARDS.items()):
        fn = prog.module(rel).func(qual)
        tests = _guard_tests(fn)
        # guards of helpers the function calls, with the helper's parameters replaced by the arguments
        fg = guards.FunctionGuards(fn, guards.Resolver(prog.module(rel).ast))
        for ats in fg.atoms.values():
            tests += [e for e, _ in ats]
        # a ladder `if p in [...] ... else: raise` rejects through every test of the ladder
        for name in names:
            inst = "%s:%s rejects invalid %s" % (rel, qual, name)
            hit = False
            for t in tests:
                if not name.isidentifier():
                    hit = hit or name.replace(" ", "") in pf.src(t).replace(" ", "")
                    continue
                for x in ast.walk(t):
                    if (isinstance(x, ast.Name) and x.id == name) or (isinstance(x, ast.Attribute) and x.attr == name):
                        hit = True
            if hit:
                chk.ok("param-guards", inst)
            else:
                chk.violation("param-guards", rel, qual, "guard on %s" % name, fn.lineno,
                              "on the pinned tree %s rejected invalid `%s` with an assert / raise whose test mentions "
                              "it; no such guard remains" % (qual, name), instance=inst)


# ----------------------------------------------------------------------------
# rule 3: dispatch totality
# ----------------------------------------------------------------------------
def _test_literals(t, env):
    """test -> (subject text, [literals], negated) for  X == 'a' | X in [...] | X == 'a' or X == 'b'"""
    if isinstance(t, ast.BoolOp) and isinstance(t.op, ast.Or):
        subj, lits = None, []
        for v in t.values:
            r = _test_literals(v, env)
            if r is None or r[2] or (subj is not None and r[0] != subj):
                return None
            subj = r[0]
            lits += r[1]
        return subj, lits, False
    if isinstance(t, ast.Compare) and len(t.ops) == 1:
        op, rhs = t.ops[0], t.comparators[0]
        if isinstance(op, (ast.Eq, ast.NotEq)) and isinstance(rhs, ast.Constant) and isinstance(rhs.value, str):
            return pf.src(t.left), [rhs.value], isinstance(op, ast.NotEq)
        if isinstance(op, (ast.In, ast.NotIn)):
            vals = None
            if isinstance(rhs, (ast.List, ast.Tuple)) and rhs.elts and all(
                    isinstance(e, ast.Constant) and isinstance(e.value, str) for e in rhs.elts):
                vals = [e.value for e in rhs.elts]
            elif isinstance(rhs, ast.Name) and rhs.id in env:
                try:
                    v = pf.literal(env[rhs.id], env)
                    if isinstance(v, (list, tuple)) and v and all(isinstance(x, str) for x in v):
                        vals = list(v)
                except pf.NotLiteral:
                    pass
            if vals is not None:
                return pf.src(t.left), vals, isinstance(op, ast.NotIn)
    return None


def _term(subject):
    return subject.split(".")[-1].lstrip("_")


def _ladder(ifnode, env):
    """-> (subject, arms literals, else_kind, raising_neg) or None; else_kind in none/raise/other"""
    subj, arms = None, []
    cur = ifnode
    while True:
        r = _test_literals(cur.test, env)
        if r is None:
            return None
        s, lits, neg = r
        if subj is not None and s != subj:
            return None
        subj = s
        if neg:
            # `elif X != 'etb': raise`  /  `if X not in [...]: raise`: closes the ladder
            if cfgm._raises(cur.body) and not cur.orelse:
                return subj, arms + lits, "raise"
            return None
        arms += lits
        if len(cur.orelse) == 1 and isinstance(cur.orelse[0], ast.If):
            cur = cur.orelse[0]
            continue
        if not cur.orelse:
            return subj, arms, "none"
        return subj, arms, "raise" if cfgm._raises(cur.orelse) else "other"


def rule_dispatch(chk, prog):
    # validated closed sets: term -> list of (frozenset(literals), where)
    closed = {}
    for rel, mod in prog.modules.items():
        for fn in ast.walk(mod.ast):
            if not (isinstance(fn, ast.FunctionDef) and fn.name == "__init__"):
                continue
            for n in pf.walk_no_nested(fn):
                if isinstance(n, ast.If) and not (isinstance(n._parent, ast.If) and n._parent.orelse == [n]):
                    lad = _ladder(n, mod.assigns)
                    if lad and lad[2] == "raise":
                        closed.setdefault(_term(lad[0]), []).append(
                            (frozenset(lad[1]), "%s:%s" % (rel, pf.qualname(fn))))
    chk.extra["validated_closed_sets"] = {k: [sorted(s) for s, _ in v] for k, v in closed.items()}
    n = 0
    unval = {}
    for rel, mod in prog.modules.items():
        for node in ast.walk(mod.ast):
            if not isinstance(node, ast.If) or (isinstance(node._parent, ast.If) and node._parent.orelse == [node]):
                continue
            lad = _ladder(node, mod.assigns)
            if lad is None:
                continue
            subj, arms, els = lad
            if len(set(arms)) < 2:
                continue  # a binary flag test, not a dispatch
            fn = pf.enclosing_func(node)
            qual = pf.qualname(fn) if fn else "<module>"
            n += 1
            inst = "%s:%s ladder on %s %s" % (rel, qual, subj, sorted(set(arms)))
            if els == "raise":
                chk.ok("dispatch", inst + " else raise")
                continue
            doms = [d for d, _ in closed.get(_term(subj), []) if set(arms) <= d]
            if doms and els == "other":
                chk.ok("dispatch", inst + " else handles the rest of validated set", detail=sorted(doms[0]))
                continue
            if doms and els == "none":
                miss = [sorted(d - set(arms)) for d in doms]
                if any(not x for x in miss):
                    chk.ok("dispatch", inst + " covers validated set")
                    continue
                chk.violation("dispatch", rel, qual, "ladder on %s" % subj, node.lineno,
                              "the ladder dispatches on %s for %s and has no else; the validated set also allows %s, "
                              "which falls through silently" % (subj, sorted(set(arms)), miss[0]), instance=inst)
                continue
            cls = pf.enclosing_class(node)
            owner = cls.name if cls is not None and subj.startswith("self.") else qual
            unval.setdefault((rel, owner, subj), []).append((qual, sorted(set(arms)), els, node.lineno, inst))
    for (rel, owner, subj), lads in sorted(unval.items()):
        quals = sorted({q for q, _, _, _, _ in lads})
        lits = sorted({a for _, arms, _, _, _ in lads for a in arms})
        els = {e for _, _, e, _, _ in lads}
        chk.violation("dispatch", rel, owner, "%s dispatched without validation" % subj, lads[0][3],
                      "%d ladder(s) (%s) dispatch on %s for %s; %s, and no constructor validates `%s` against a closed "
                      "set of literals containing them: an unknown string is %s"
                      % (len(lads), ", ".join(quals), subj, lits,
                         "the else branch does not raise" if els == {"other"} else "there is no raising else",
                         _term(subj), "silently handled as the else case" if els == {"other"} else "silently ignored"),
                      instance=lads[0][4])
        for _, _, _, _, inst in lads[1:]:
            chk.obligations.append(("dispatch", core.norm_text(inst), False, True, "same root cause"))
    if n == 0:
        raise core.AnalysisError("no string dispatch ladders found in the anchored modules")


# ----------------------------------------------------------------------------
# rule 7: large-exponent guard
# ----------------------------------------------------------------------------
def rule_expnt(chk, prog):
    mod = prog.module(PL)
    fn = mod.func("NLDFAuxiliaryPlan.eval_feat_exp")
    g = cfgm.CFG(fn)

    def is_guard(node):
        a = node.ast
        if node.kind != "test" or not isinstance(a, ast.If):
            return False
        if not any(pf.is_self_attr(x, "_raise_large_expnt_error") for x in ast.walk(a.test)):
            return False
        # the guarded block must compare against the interpolation range and raise
        raises = [x for x in ast.walk(a) if isinstance(x, ast.Raise)]
        cmp_alphas = any(isinstance(x, ast.Compare) and "self.alphas" in pf.src(x) for x in ast.walk(a))
        return bool(raises) and cmp_alphas

    guards = [nd for nd in g.nodes if nd.ast is not None and is_guard(nd)]
    if not guards:
        chk.violation("expnt-guard", PL, "NLDFAuxiliaryPlan.eval_feat_exp", "large-exponent guard", fn.lineno,
                      "eval_feat_exp no longer contains `if self._raise_large_expnt_error ...: ... raise` comparing "
                      "the exponent with the largest interpolation exponent")
        return
    okp, path = g.must_pass(is_guard)
    inst = "NLDFAuxiliaryPlan.eval_feat_exp: every normal exit passes the _raise_large_expnt_error test"
    if okp:
        chk.ok("expnt-guard", inst)
    else:
        last = [g.nodes[i] for i in path if g.nodes[i].ast is not None]
        chk.violation("expnt-guard", PL, "NLDFAuxiliaryPlan.eval_feat_exp", "large-exponent guard", fn.lineno,
                      "a path reaches a normal exit without passing the large-exponent test (via line %s)"
                      % (getattr(last[-1].ast, "lineno", "?") if last else "?"), instance=inst)
    # the flag must be settable to True by the constructor and default to raising
    init = mod.func("NLDFAuxiliaryPlan.__init__")
    stores = [n for n in pf.walk_no_nested(init) if isinstance(n, ast.Assign)
              and any(pf.is_self_attr(t, "_raise_large_expnt_error") for t in n.targets)]
    params = {a.arg: d for a, d in zip(reversed(init.args.args), reversed(init.args.defaults))}
    flows = [s for s in stores if isinstance(s.value, ast.Name) and s.value.id in params]
    inst2 = "NLDFAuxiliaryPlan.__init__: raise_large_expnt_error parameter reaches the flag, default True"
    if flows and isinstance(params[flows[0].value.id], ast.Constant) and params[flows[0].value.id].value is True:
        chk.ok("expnt-guard", inst2)
    else:
        chk.violation("expnt-guard", PL, "NLDFAuxiliaryPlan.__init__", "self._raise_large_expnt_error = <param>",
                      init.lineno, "the constructor no longer stores its raise_large_expnt_error parameter "
                      "(default True) into the flag tested by eval_feat_exp", instance=inst2)


# ----------------------------------------------------------------------------
# rule 6: shape / contiguity guards.  FROZEN_GUARDS was produced from the pinned tree by
#         collect_guards() (`C18_DUMP_GUARDS=1 python3 checks/c18.py` prints the current table) and is
#         compared as a multiset lower bound: a guard may be added, none may disappear.
# ----------------------------------------------------------------------------
_CINT = __import__("re").compile(r"(?:ctypes\.)?c_(?:int|long|size_t|int32|int64|uint)\((\w+)\)$")


def collect_guards(tree, eng, prog):
    """-> {"rel::qualname": sorted list of signatures} for every function that makes a native call and for the
    functions of the validator modules (feat_normalizer, xc_evaluator).
      <ident>:<kind>   kind in contig/shape/ndim/size/dtype/nfeat, guaranteed on every path to the native call(s)
                       that receive the array (or to the normal exit when it is not handed to C)
      rel:<linear form> <= 0 | == 0    relation between integer counts handed to the native call
    ident = c:<callee>#<k> (array passed as k-th argument of that C function; one signature per callee
    alternative), p:<parameter name> (not handed to C), or the self.attr text.  See sa.guards for the spellings
    that are recognised as the same guard."""
    by_fn = {}
    for s in eng.sites:
        by_fn.setdefault((s.rel, s.func), []).append(s)
    targets = dict(by_fn)
    for rel in (FN, XE):
        for n in ast.walk(prog.module(rel).ast):
            if isinstance(n, ast.FunctionDef):
                targets.setdefault((rel, pf.qualname(n)), [])
    out = {}
    resolvers = {}
    for (rel, qual), sites in sorted(targets.items()):
        if qual == "<module>":
            continue
        mod_ast = tree.py(rel)
        fn = None
        for n in ast.walk(mod_ast):
            if isinstance(n, ast.FunctionDef) and pf.qualname(n) == qual:
                fn = n
                break
        if fn is None:
            continue
        if rel not in resolvers:
            resolvers[rel] = guards.Resolver(mod_ast)
        fg = guards.FunctionGuards(fn, resolvers[rel])
        g = fg.cfg
        params = [a.arg for a in fn.args.args + fn.args.kwonlyargs]
        passed = {}   # subject text -> {(call node id, "callee#k")}
        scalars = {}  # callee -> {python name: ["callee#k"]}
        call_nodes = set()
        for s in sites:
            cn = g.stmt_of_expr(s.node)
            if cn is not None:
                call_nodes.add(cn.id)
            for c, al in s.pairs:
                if c is None or al is None:
                    continue
                callee = c[1][1]
                for i, it in enumerate(al):
                    src = it[1]
                    if ".ctypes" in src:
                        passed.setdefault(src.split(".ctypes")[0], set()).add((cn.id if cn else None, "c:%s#%d" % (callee, i)))
                    m_ = _CINT.match(src)
                    if m_:
                        scalars.setdefault(callee, {}).setdefault(m_.group(1), []).append("%s#%d" % (callee, i))
        sigs = set()
        nk = fg.node_kinds()
        pairs = {}
        for nid, d in nk.items():
            for subj, kinds in d.items():
                for k in kinds:
                    pairs.setdefault((subj, k), set()).add(nid)
        for (subj, kind), ids in sorted(pairs.items()):
            dsts = sorted({d for d, _ in passed.get(subj, ()) if d is not None}) or [g.exit.id]
            if not fg.guaranteed(ids, dsts):
                continue
            if subj in ("self", "cls"):
                continue
            if subj in passed:
                idents = sorted({i for _, i in passed[subj]})
            elif subj in params:
                idents = ["p:" + subj]
            elif subj.startswith("self."):
                idents = [subj]
            else:
                continue
            for ident in idents:
                sigs.add("%s:%s" % (ident, kind))
        for callee, names in sorted(scalars.items()):
            for nid_set, canon in _relation_sets(fg, names):
                if fg.guaranteed(nid_set, sorted(call_nodes) or [g.exit.id]):
                    sigs.add("rel:" + canon)
        if sigs:
            out["%s::%s" % (rel, qual)] = sorted(sigs)
    return out


def _relation_sets(fg, names):
    by = {}
    for nid, rels in fg.node_relations(names).items():
        for r in rels:
            by.setdefault(r, set()).add(nid)
    return [(ids, r) for r, ids in sorted(by.items())]


def rule_guards(chk, eng, prog):
    cur = collect_guards(chk.tree, eng, prog)
    chk.count("functions with input guards", len(cur))
    if not FROZEN_GUARDS:
        raise core.AnalysisError("frozen guard table is empty")
    for key, want in sorted(FROZEN_GUARDS.items()):
        rel, qual = key.split("::")
        if not chk.tree.exists(rel):
            raise core.AnalysisError("guard table: module %s vanished" % rel)
        have = set(cur.get(key, []))
        fdef = [n for n in ast.walk(chk.tree.py(rel)) if isinstance(n, ast.FunctionDef) and pf.qualname(n) == qual]
        if not fdef:
            raise core.AnalysisError("guard table: function %s vanished from %s" % (qual, rel))
        fline = fdef[0].lineno
        for sig in want:
            inst = "%s %s" % (key, sig)
            if sig in have:
                chk.ok("guards", inst)
                continue
            ident, kind = sig.split(":", 1) if not sig.startswith(("c:", "p:")) else \
                (sig[: sig.index(":", 2)], sig[sig.index(":", 2) + 1:])
            if ident == "rel":
                chk.violation("guards", rel, qual, "guard %s" % sig, fline,
                              "on the pinned tree every path to the native call guaranteed the relation `%s` between "
                              "the integer arguments it passes (callee#position); no assert / raising test on every "
                              "path implies it any more" % kind, instance=inst)
                continue
            what = ("the array passed as argument %s of %s" % (ident[2:].split("#")[1], ident[2:].split("#")[0])
                    if ident.startswith("c:") else "parameter `%s`" % ident[2:] if ident.startswith("p:") else ident)
            chk.violation("guards", rel, qual, "guard %s" % sig, fline,
                          "on the pinned tree every path to the %s guaranteed a %s check on %s (assert, raising test, "
                          "normalising re-binding, or a helper doing so); that is no longer the case"
                          % ("native call" if ident.startswith("c:") else "exit", kind, what), instance=inst)


FROZEN_GUARDS = {
    'ciderpress/dft/baselines.py::get_libxc_gga_baseline': [
        'c:get_gga_baseline#3:contig',
        'c:get_gga_baseline#4:contig',
        'c:get_gga_baseline#4:ndim',
        'c:get_gga_baseline#4:shape',
        'c:get_gga_baseline#5:contig',
        'c:get_gga_baseline#5:shape',
        'c:get_gga_baseline#6:contig',
        'c:get_gga_baseline#6:shape',
        'c:get_gga_baseline#7:contig',
        'c:get_gga_baseline#7:shape',
    ],
    'ciderpress/dft/baselines.py::get_libxc_lda_baseline': [
        'c:get_lda_baseline#3:contig',
        'c:get_lda_baseline#4:contig',
        'c:get_lda_baseline#4:shape',
        'c:get_lda_baseline#5:contig',
        'c:get_lda_baseline#5:shape',
    ],
    'ciderpress/dft/baselines.py::get_libxc_mgga_baseline': [
        'c:get_mgga_baseline#3:contig',
        'c:get_mgga_baseline#4:contig',
        'c:get_mgga_baseline#4:ndim',
        'c:get_mgga_baseline#4:shape',
        'c:get_mgga_baseline#6:contig',
        'c:get_mgga_baseline#6:shape',
        'c:get_mgga_baseline#7:contig',
        'c:get_mgga_baseline#7:shape',
        'c:get_mgga_baseline#8:contig',
        'c:get_mgga_baseline#8:shape',
        'c:get_mgga_baseline#9:contig',
        'c:get_mgga_baseline#9:shape',
    ],
    'ciderpress/dft/debug_numint.py::get_nonlocal_features': [
        'c:debug_numint_vi#0:contig',
        'c:debug_numint_vi#0:shape',
        'c:debug_numint_vi#3:contig',
        'c:debug_numint_vi#4:contig',
        'c:debug_numint_vj#0:contig',
        'c:debug_numint_vj#0:shape',
        'c:debug_numint_vj#4:contig',
        'c:debug_numint_vj#5:contig',
        'c:debug_numint_vk#0:contig',
        'c:debug_numint_vk#0:shape',
        'c:debug_numint_vk#4:contig',
        'c:debug_numint_vk#5:contig',
    ],
    'ciderpress/dft/feat_normalizer.py::FeatNormalizerList._check_shape': [
        'p:x:ndim',
        'p:x:shape',
    ],
    'ciderpress/dft/feat_normalizer.py::FeatNormalizerList.get_derivative_of_normed_features': [
        'p:DX0T:ndim',
        'p:DX0T:shape',
        'p:X0T:ndim',
        'p:X0T:shape',
    ],
    'ciderpress/dft/feat_normalizer.py::FeatNormalizerList.get_derivative_wrt_unnormed_features': [
        'p:X0T:ndim',
        'p:X0T:shape',
        'p:df_dX0TN:ndim',
        'p:df_dX0TN:shape',
    ],
    'ciderpress/dft/feat_normalizer.py::FeatNormalizerList.get_normalized_feature_vector': [
        'p:X0T:ndim',
        'p:X0T:shape',
    ],
    'ciderpress/dft/grids_indexer.py::AtomicGridsIndexer.reduce_angc_ylm_': [
        'c:reduce_angc_to_ylm#0:contig',
        'c:reduce_angc_to_ylm#0:dtype',
        'c:reduce_angc_to_ylm#0:ndim',
        'c:reduce_angc_to_ylm#0:shape',
        'c:reduce_angc_to_ylm#2:contig',
        'c:reduce_angc_to_ylm#2:dtype',
        'c:reduce_angc_to_ylm#2:ndim',
        'c:reduce_angc_to_ylm#2:shape',
        'c:reduce_ylm_to_angc#0:contig',
        'c:reduce_ylm_to_angc#0:dtype',
        'c:reduce_ylm_to_angc#0:ndim',
        'c:reduce_ylm_to_angc#0:shape',
        'c:reduce_ylm_to_angc#2:contig',
        'c:reduce_ylm_to_angc#2:dtype',
        'c:reduce_ylm_to_angc#2:ndim',
        'c:reduce_ylm_to_angc#2:shape',
        'rel:reduce_angc_to_ylm#10 + reduce_angc_to_ylm#5 - reduce_angc_to_ylm#9 <= 0',
        'rel:reduce_ylm_to_angc#10 + reduce_ylm_to_angc#5 - reduce_ylm_to_angc#9 <= 0',
        'self.all_weights:size',
    ],
    'ciderpress/dft/lcao_convolutions.py::ATCBasis.__init__': [
        'c:generate_atc_basis_set#1:contig',
        'c:generate_atc_basis_set#2:contig',
        'c:generate_atc_basis_set#3:contig',
        'c:generate_atc_basis_set#4:contig',
        'c:generate_atc_basis_set#5:contig',
    ],
    'ciderpress/dft/lcao_convolutions.py::ATCBasis.bas': [
        'c:get_atco_bas#0:contig',
        'c:get_atco_bas#0:shape',
    ],
    'ciderpress/dft/lcao_convolutions.py::ATCBasis.convert_rad2orb_': [
        'c:contract_orb_to_rad#0:contig',
        'c:contract_orb_to_rad#0:dtype',
        'c:contract_orb_to_rad#0:ndim',
        'c:contract_orb_to_rad#0:shape',
        'c:contract_orb_to_rad#1:contig',
        'c:contract_orb_to_rad#1:dtype',
        'c:contract_orb_to_rad#1:ndim',
        'c:contract_orb_to_rad#1:shape',
        'c:contract_orb_to_rad#2:contig',
        'c:contract_orb_to_rad#2:dtype',
        'c:contract_orb_to_rad#2:ndim',
        'c:contract_orb_to_rad#2:size',
        'c:contract_orb_to_rad#3:contig',
        'c:contract_orb_to_rad#3:dtype',
        'c:contract_rad_to_orb#0:contig',
        'c:contract_rad_to_orb#0:dtype',
        'c:contract_rad_to_orb#0:ndim',
        'c:contract_rad_to_orb#0:shape',
        'c:contract_rad_to_orb#1:contig',
        'c:contract_rad_to_orb#1:dtype',
        'c:contract_rad_to_orb#1:ndim',
        'c:contract_rad_to_orb#1:shape',
        'c:contract_rad_to_orb#2:contig',
        'c:contract_rad_to_orb#2:dtype',
        'c:contract_rad_to_orb#2:ndim',
        'c:contract_rad_to_orb#2:size',
        'c:contract_rad_to_orb#3:contig',
        'c:contract_rad_to_orb#3:dtype',
        'rel:contract_orb_to_rad#7 - contract_orb_to_rad#8 + contract_orb_to_rad#9 <= 0',
        'rel:contract_rad_to_orb#7 - contract_rad_to_orb#8 + contract_rad_to_orb#9 <= 0',
    ],
    'ciderpress/dft/lcao_convolutions.py::ATCBasis.env': [
        'c:get_atco_env#0:contig',
        'c:get_atco_env#0:shape',
    ],
    'ciderpress/dft/lcao_convolutions.py::ConvolutionCollection.__init__': [
        'c:generate_convolution_collection#3:contig',
        'c:generate_convolution_collection#4:contig',
        'c:generate_convolution_collection#4:size',
        'c:generate_convolution_collection#5:contig',
    ],
    'ciderpress/dft/lcao_convolutions.py::ConvolutionCollection.multiply_atc_integrals': [
        'c:multiply_atc_integrals#0:contig',
        'c:multiply_atc_integrals#0:ndim',
        'c:multiply_atc_integrals#0:shape',
        'c:multiply_atc_integrals#1:contig',
        'c:multiply_atc_integrals#1:ndim',
        'c:multiply_atc_integrals#1:shape',
    ],
    'ciderpress/dft/lcao_convolutions.py::ConvolutionCollectionK.multiply_atc_integrals': [
        'c:multiply_atc_integrals_vk#0:contig',
        'c:multiply_atc_integrals_vk#0:ndim',
        'c:multiply_atc_integrals_vk#0:shape',
        'c:multiply_atc_integrals_vk#1:contig',
        'c:multiply_atc_integrals_vk#1:ndim',
        'c:multiply_atc_integrals_vk#1:shape',
    ],
    'ciderpress/dft/lcao_interpolation.py::LCAOInterpolator._compute_spline_ind_order': [
        'c:compute_spline_ind_order_new#1:contig',
        'c:compute_spline_ind_order_new#1:shape',
    ],
    'ciderpress/dft/lcao_interpolation.py::LCAOInterpolator._contract_grad_terms': [
        'c:contract_grad_terms_parallel#6:contig',
    ],
    'ciderpress/dft/lcao_interpolation.py::LCAOInterpolator._interpolate_nopar_atom': [
        'c:compute_mol_convs_single_new#0:shape',
        'c:compute_pot_convs_single_new#0:shape',
        'p:f_arlpq:shape',
    ],
    'ciderpress/dft/lcao_interpolation.py::LCAOInterpolator._interpolate_nopar_atom_deriv': [
        'c:compute_mol_convs_single_new#0:contig',
        'c:compute_mol_convs_single_new#0:shape',
        'p:f_arlpq:shape',
        'p:f_gq:shape',
    ],
    'ciderpress/dft/lcao_interpolation.py::LCAOInterpolator._orb2spline_': [
        'c:project_conv_to_spline#0:contig',
        'c:project_conv_to_spline#0:ndim',
        'c:project_conv_to_spline#0:shape',
        'c:project_conv_to_spline#1:contig',
        'c:project_conv_to_spline#1:shape',
        'c:project_conv_to_spline#2:contig',
        'c:project_spline_to_conv#0:contig',
        'c:project_spline_to_conv#0:ndim',
        'c:project_spline_to_conv#0:shape',
        'c:project_spline_to_conv#1:contig',
        'c:project_spline_to_conv#1:shape',
        'c:project_spline_to_conv#2:contig',
        'rel:project_conv_to_spline#10 + project_conv_to_spline#4 - project_conv_to_spline#7 <= 0',
        'rel:project_conv_to_spline#4 - project_conv_to_spline#8 + project_conv_to_spline#9 <= 0',
        'rel:project_spline_to_conv#10 + project_spline_to_conv#4 - project_spline_to_conv#7 <= 0',
        'rel:project_spline_to_conv#4 - project_spline_to_conv#8 + project_spline_to_conv#9 <= 0',
    ],
    'ciderpress/dft/lcao_interpolation.py::LCAOInterpolator._set_num_ai': [
        'c:compute_num_spline_contribs_new#0:contig',
        'c:compute_num_spline_contribs_new#0:shape',
        'c:compute_num_spline_contribs_new#1:contig',
        'c:compute_num_spline_contribs_new#1:shape',
    ],
    'ciderpress/dft/plans.py::NLDFSplinePlan.get_a2q_fast': [
        'c:cider_ind_clip#0:contig',
        'c:cider_ind_clip#0:shape',
        'c:cider_ind_clip#1:contig',
        'c:cider_ind_clip#1:shape',
        'c:cider_ind_etb#0:contig',
        'c:cider_ind_etb#0:shape',
        'c:cider_ind_etb#1:contig',
        'c:cider_ind_etb#1:shape',
        'c:cider_ind_zexp#0:contig',
        'c:cider_ind_zexp#0:shape',
        'c:cider_ind_zexp#1:contig',
        'c:cider_ind_zexp#1:shape',
    ],
    'ciderpress/dft/plans.py::_get_ovlp_fit_interpolation_coefficients': [
        'c:cider_coefs_gto_gq#0:contig',
        'c:cider_coefs_gto_gq#0:shape',
        'c:cider_coefs_gto_gq#1:contig',
        'c:cider_coefs_gto_gq#1:shape',
        'c:cider_coefs_gto_gq#2:contig',
        'c:cider_coefs_gto_gq#3:contig',
        'c:cider_coefs_gto_qg#0:contig',
        'c:cider_coefs_gto_qg#0:shape',
        'c:cider_coefs_gto_qg#1:contig',
        'c:cider_coefs_gto_qg#1:shape',
        'c:cider_coefs_gto_qg#2:contig',
        'c:cider_coefs_gto_qg#3:contig',
    ],
    'ciderpress/dft/pwutil.py::_eval_cubic_interp': [
        'c:eval_cubic_interp#0:contig',
        'c:eval_cubic_interp#0:dtype',
        'c:eval_cubic_interp#1:contig',
        'c:eval_cubic_interp#1:dtype',
        'c:eval_cubic_interp#2:contig',
        'c:eval_cubic_interp#2:dtype',
        'c:eval_cubic_interp#2:shape',
        'c:eval_cubic_interp#3:contig',
        'c:eval_cubic_interp#3:shape',
        'c:eval_cubic_interp_noderiv#0:contig',
        'c:eval_cubic_interp_noderiv#0:dtype',
        'c:eval_cubic_interp_noderiv#1:contig',
        'c:eval_cubic_interp_noderiv#1:dtype',
        'c:eval_cubic_interp_noderiv#2:contig',
        'c:eval_cubic_interp_noderiv#2:dtype',
        'c:eval_cubic_interp_noderiv#2:shape',
        'c:eval_cubic_interp_noderiv#3:contig',
        'c:eval_cubic_interp_noderiv#3:shape',
    ],
    'ciderpress/dft/pwutil.py::_eval_cubic_spline': [
        'c:eval_cubic_spline#0:contig',
        'c:eval_cubic_spline#1:contig',
        'c:eval_cubic_spline#1:shape',
        'c:eval_cubic_spline#2:contig',
        'c:eval_cubic_spline#3:contig',
        'c:eval_cubic_spline#3:size',
        'c:eval_cubic_spline_deriv#0:contig',
        'c:eval_cubic_spline_deriv#1:contig',
        'c:eval_cubic_spline_deriv#1:shape',
        'c:eval_cubic_spline_deriv#2:contig',
        'c:eval_cubic_spline_deriv#3:contig',
        'c:eval_cubic_spline_deriv#3:size',
    ],
    'ciderpress/dft/pwutil.py::eval_pasdw_funcs': [
        'c:eval_pasdw_funcs#0:contig',
        'c:eval_pasdw_funcs#0:shape',
        'c:eval_pasdw_funcs#1:contig',
        'c:eval_pasdw_funcs#2:contig',
        'c:eval_pasdw_funcs#2:shape',
        'c:eval_pasdw_funcs#3:contig',
        'c:eval_pasdw_funcs#3:shape',
        'c:eval_pasdw_funcs#4:contig',
        'c:eval_pasdw_funcs#4:shape',
    ],
    'ciderpress/dft/pwutil.py::mulexp': [
        'c:mulexp#0:size',
        'c:mulexp#1:size',
        'c:mulexp#2:size',
    ],
    'ciderpress/dft/pwutil.py::pasdw_reduce': [
        'c:pasdw_reduce_g#0:contig',
        'c:pasdw_reduce_g#0:size',
        'c:pasdw_reduce_g#1:contig',
        'c:pasdw_reduce_g#2:contig',
        'c:pasdw_reduce_g#3:contig',
        'c:pasdw_reduce_g#3:dtype',
        'c:pasdw_reduce_g#3:ndim',
        'c:pasdw_reduce_g#3:shape',
        'c:pasdw_reduce_i#0:contig',
        'c:pasdw_reduce_i#0:size',
        'c:pasdw_reduce_i#1:contig',
        'c:pasdw_reduce_i#2:contig',
        'c:pasdw_reduce_i#3:contig',
        'c:pasdw_reduce_i#3:dtype',
        'c:pasdw_reduce_i#3:ndim',
        'c:pasdw_reduce_i#3:shape',
    ],
    'ciderpress/dft/pwutil.py::recursive_sph_harm': [
        'c:recursive_sph_harm_vec#2:contig',
        'c:recursive_sph_harm_vec#3:contig',
        'c:recursive_sph_harm_vec#3:shape',
    ],
    'ciderpress/dft/pwutil.py::recursive_sph_harm_deriv': [
        'c:recursive_sph_harm_deriv_vec#2:contig',
        'c:recursive_sph_harm_deriv_vec#3:contig',
        'c:recursive_sph_harm_deriv_vec#3:shape',
        'c:recursive_sph_harm_deriv_vec#4:contig',
        'c:recursive_sph_harm_deriv_vec#4:shape',
    ],
    'ciderpress/dft/xc_evaluator.py::GlobalLinearEvaluator.__call__': [
        'p:dres:shape',
        'p:res:shape',
    ],
    'ciderpress/dft/xc_evaluator.py::GlobalLinearEvaluator.__init__': [
        'self.consts:contig',
    ],
    'ciderpress/dft/xc_evaluator.py::KernelEvaluator.__call__': [
        'p:dres:shape',
        'p:res:shape',
    ],
    'ciderpress/dft/xc_evaluator.py::ModelWithNormalizer.__call__': [
        'p:X0T:ndim',
    ],
    'ciderpress/dft/xc_evaluator.py::ModelWithNormalizer.__init__': [
        'p:model:nfeat',
        'p:normalizer:nfeat',
    ],
    'ciderpress/dft/xc_evaluator.py::NNEvaluator.__call__': [
        'p:dres:shape',
        'p:res:shape',
    ],
    'ciderpress/dft/xc_evaluator.py::RBFEvaluator.__call__': [
        'c:evaluate_se_kernel#0:contig',
        'c:evaluate_se_kernel#0:shape',
        'c:evaluate_se_kernel#1:contig',
        'c:evaluate_se_kernel#1:shape',
        'c:evaluate_se_kernel#2:contig',
        'c:evaluate_se_kernel_antisym#0:contig',
        'c:evaluate_se_kernel_antisym#0:shape',
        'c:evaluate_se_kernel_antisym#1:contig',
        'c:evaluate_se_kernel_antisym#1:shape',
        'c:evaluate_se_kernel_antisym#2:contig',
        'c:evaluate_se_kernel_spin#0:contig',
        'c:evaluate_se_kernel_spin#0:shape',
        'c:evaluate_se_kernel_spin#1:contig',
        'c:evaluate_se_kernel_spin#1:shape',
        'c:evaluate_se_kernel_spin#2:contig',
    ],
    'ciderpress/dft/xc_evaluator.py::RBFEvaluator.__init__': [
        'self._X1ctrl:contig',
        'self._alpha:contig',
        'self._exps:contig',
        'self._indexes:contig',
    ],
    'ciderpress/dft/xc_evaluator.py::SpinRBFEvaluator.__call__': [
        'p:X1:ndim',
        'p:X1:shape',
    ],
    'ciderpress/dft/xc_evaluator.py::SplineSetEvaluator.__call__': [
        'p:dres:shape',
    ],
    'ciderpress/dft/xc_evaluator.py::SplineSetEvaluator.__init__': [
        'p:coeff_sets:shape',
        'p:ind_sets:shape',
        'p:spline_grids:shape',
    ],
    'ciderpress/lib/fft_plan.py::FFTWrapper.call': [
        'c:read_fft_output#1:contig',
        'c:read_fft_output#1:shape',
        'c:write_fft_input#1:shape',
    ],
    'ciderpress/lib/mpi_fft_plan.py::MPIFFTWrapper.__init__': [
        'c:allocate_mpi_fft3d_plan_world#0:contig',
    ],
    'ciderpress/lib/mpi_fft_plan.py::MPIFFTWrapper.call': [
        'c:read_mpi_fft3d_output#1:contig',
        'c:read_mpi_fft3d_output#1:shape',
        'c:write_mpi_fft3d_input#1:dtype',
        'c:write_mpi_fft3d_input#1:shape',
    ],
    'ciderpress/pyscf/frac_lapl.py::FracLaplBuf.__init__': [
        'c:initialize_spline_1f1#0:contig',
        'c:initialize_spline_1f1#0:shape',
        'c:initialize_spline_1f1#1:contig',
        'c:initialize_spline_1f1#1:shape',
    ],
    'ciderpress/pyscf/gen_cider_grid.py::gen_atomic_grids_cider': [
        'c:recursive_sph_harm_vec#2:contig',
        'c:recursive_sph_harm_vec#3:contig',
        'c:recursive_sph_harm_vec#3:shape',
    ],
    'ciderpress/pyscf/pbc/sdmx_fft.py::_contract_convolution': [
        'c:contract_convolution_d#1:dtype',
        'c:contract_convolution_d#2:dtype',
        'c:contract_convolution_z#1:dtype',
        'c:contract_convolution_z#2:dtype',
    ],
    'ciderpress/pyscf/pbc/sdmx_fft.py::_fast_conj': [
        'c:fast_conj#0:contig',
    ],
    'ciderpress/pyscf/pbc/sdmx_fft.py::_mul_add_d': [
        'c:parallel_mul_add_d#0:contig',
        'c:parallel_mul_add_d#0:dtype',
        'c:parallel_mul_add_d#0:ndim',
        'c:parallel_mul_add_d#0:shape',
        'c:parallel_mul_add_d#1:contig',
        'c:parallel_mul_add_d#1:dtype',
        'c:parallel_mul_add_d#1:ndim',
        'c:parallel_mul_add_d#1:shape',
        'c:parallel_mul_add_d#2:contig',
        'c:parallel_mul_add_d#2:dtype',
        'c:parallel_mul_add_d#2:shape',
    ],
    'ciderpress/pyscf/pbc/sdmx_fft.py::_mul_add_z': [
        'c:parallel_mul_add_z#0:contig',
        'c:parallel_mul_add_z#0:dtype',
        'c:parallel_mul_add_z#0:ndim',
        'c:parallel_mul_add_z#0:shape',
        'c:parallel_mul_add_z#1:contig',
        'c:parallel_mul_add_z#1:dtype',
        'c:parallel_mul_add_z#1:ndim',
        'c:parallel_mul_add_z#1:shape',
        'c:parallel_mul_add_z#2:contig',
        'c:parallel_mul_add_z#2:dtype',
        'c:parallel_mul_add_z#2:shape',
    ],
    'ciderpress/pyscf/pbc/sdmx_fft.py::_mul_dz': [
        'c:parallel_mul_dz#0:contig',
        'c:parallel_mul_dz#0:dtype',
        'c:parallel_mul_dz#0:ndim',
        'c:parallel_mul_dz#0:shape',
        'c:parallel_mul_dz#1:contig',
        'c:parallel_mul_dz#1:dtype',
        'c:parallel_mul_dz#1:ndim',
        'c:parallel_mul_dz#1:shape',
        'c:parallel_mul_dz#2:contig',
        'c:parallel_mul_dz#2:dtype',
        'c:parallel_mul_dz#2:shape',
    ],
    'ciderpress/pyscf/pbc/sdmx_fft.py::_mul_z': [
        'c:parallel_mul_z#0:contig',
        'c:parallel_mul_z#0:dtype',
        'c:parallel_mul_z#0:ndim',
        'c:parallel_mul_z#0:shape',
        'c:parallel_mul_z#1:contig',
        'c:parallel_mul_z#1:dtype',
        'c:parallel_mul_z#1:ndim',
        'c:parallel_mul_z#1:shape',
        'c:parallel_mul_z#2:contig',
        'c:parallel_mul_z#2:dtype',
        'c:parallel_mul_z#2:shape',
    ],
    'ciderpress/pyscf/pbc/sdmx_fft.py::_weight_symm_gpts': [
        'c:weight_symm_gpts#0:contig',
        'c:weight_symm_gpts#0:dtype',
        'c:weight_symm_gpts#0:ndim',
        'c:weight_symm_gpts#0:shape',
    ],
    'ciderpress/pyscf/pbc/sdmx_fft.py::_zero_even_edges_fft': [
        'c:zero_even_edges_fft#0:contig',
        'c:zero_even_edges_fft#0:dtype',
        'c:zero_even_edges_fft#0:size',
    ],
    'ciderpress/pyscf/pbc/sdmx_fft.py::fft_fast': [
        'c:run_ffts#0:contig',
        'c:run_ffts#0:dtype',
    ],
    'ciderpress/pyscf/pbc/sdmx_fft.py::fft_grad_fast': [
        'c:run_ffts#0:contig',
        'c:run_ffts#0:dtype',
        'c:run_ffts#0:ndim',
        'c:run_ffts#0:shape',
        'p:Gv:contig',
        'p:Gv:ndim',
        'p:Gv:shape',
    ],
    'ciderpress/pyscf/pbc/sdmx_fft.py::get_ao_recip': [
        'c:apply_orb_phases#1:contig',
        'c:apply_orb_phases#1:shape',
        'c:apply_orb_phases#2:contig',
        'c:apply_orb_phases#2:shape',
        'c:apply_orb_phases#3:contig',
        'c:apply_orb_phases#4:contig',
    ],
    'ciderpress/pyscf/pbc/sdmx_fft.py::get_recip_convolutions': [
        'c:recip_conv_kernel_gaussdiff#0:contig',
        'c:recip_conv_kernel_gaussdiff#1:contig',
        'c:recip_conv_kernel_ws#0:contig',
        'c:recip_conv_kernel_ws#1:contig',
        'c:recip_conv_kernel_ws#2:dtype',
        'c:recip_conv_kernel_ws#2:ndim',
        'c:recip_conv_kernel_ws#2:shape',
        'c:recip_conv_kernel_ws#3:contig',
        'c:recip_conv_kernel_ws#4:contig',
        'c:recip_conv_kernel_ws#5:contig',
    ],
    'ciderpress/pyscf/pbc/util.py::FFTInterpolator.interpolate': [
        'p:out:contig',
        'p:out:dtype',
        'p:out:shape',
    ],
    'ciderpress/pyscf/sdmx.py::EXXSphGenerator._contract_ao_to_bas_helper': [
        'c:SDMXcontract_ao_to_bas_l1#12:contig',
        'c:SDMXcontract_ao_to_bas_l1#13:contig',
        'c:SDMXcontract_ao_to_bas_l1_bwd#12:contig',
        'c:SDMXcontract_ao_to_bas_l1_bwd#13:contig',
    ],
    'ciderpress/pyscf/sdmx.py::EXXSphGenerator._contract_ao_to_bas_single_': [
        'c:SDMXcontract_ao_to_bas_grid#14:contig',
        'c:SDMXcontract_ao_to_bas_grid#14:ndim',
        'c:SDMXcontract_ao_to_bas_grid#15:contig',
        'c:SDMXcontract_ao_to_bas_grid#15:ndim',
        'c:SDMXcontract_ao_to_bas_grid_bwd#14:contig',
        'c:SDMXcontract_ao_to_bas_grid_bwd#14:ndim',
        'c:SDMXcontract_ao_to_bas_grid_bwd#15:contig',
        'c:SDMXcontract_ao_to_bas_grid_bwd#15:ndim',
    ],
    'ciderpress/pyscf/sdmx.py::EXXSphGenerator._get_ylm': [
        'c:SDMXylm_loop#4:contig',
    ],
    'ciderpress/pyscf/sdmx.py::EXXSphGenerator.get_features': [
        'c:contract_shl_to_alpha_l1#3:contig',
        'c:contract_shl_to_alpha_l1#3:shape',
        'c:contract_shl_to_alpha_l1#4:contig',
        'p:coords:contig',
    ],
    'ciderpress/pyscf/sdmx.py::eval_conv_shells': [
        'c:SDMXeval_rad_loop#10:contig',
        'c:SDMXeval_rad_loop#12:contig',
        'c:SDMXeval_rad_loop#14:contig',
        'c:SDMXeval_rad_loop#8:contig',
    ],
    'ciderpress/pyscf/sdmx_slow.py::eval_conv_gto': [
        'p:coords:contig',
    ],
    'ciderpress/pyscf/sdmx_slow.py::eval_conv_gto_fast': [
        'c:SDMXeval_loop#11:contig',
        'c:SDMXeval_loop#13:contig',
        'c:SDMXeval_loop#15:contig',
        'c:SDMXeval_loop#9:contig',
        'c:SDMXylm_loop#2:contig',
        'c:SDMXylm_loop#4:contig',
    ],
}


# ----------------------------------------------------------------------------
# rule 5: count provenance (stride of a locally allocated buffer)
# ----------------------------------------------------------------------------
ALLOCATORS = ("np.empty", "np.zeros", "np.ones", "np.ndarray", "numpy.empty", "numpy.zeros", "numpy.ndarray")


def rule_count_prov(chk, eng):
    import re
    n = 0
    bad = {}
    strides_cache = {}
    for s in eng.sites:
        fn = pf.enclosing_func(s.node)
        if fn is None:
            continue
        assigns = {}
        for a in pf.walk_no_nested(fn):
            if isinstance(a, ast.Assign) and len(a.targets) == 1 and isinstance(a.targets[0], ast.Name):
                assigns.setdefault(a.targets[0].id, []).append(a.value)

        def resolve(e, depth=0):
            if isinstance(e, ast.Name) and len(assigns.get(e.id, ())) == 1 and depth < 4:
                return resolve(assigns[e.id][0], depth + 1)
            return pf.src(e)

        def shape_syms(name):
            """dimension expressions of every allocation bound to `name`, or None when some binding of the
            name is not an allocation with a literal shape tuple of >= 2 dimensions"""
            syms = set()
            vals = assigns.get(name)
            if not vals:
                return None
            for v in vals:
                if not (isinstance(v, ast.Call) and pf.call_name(v) in ALLOCATORS and v.args):
                    return None
                sh = v.args[0]
                cands = assigns.get(sh.id, []) if isinstance(sh, ast.Name) else [sh]
                if not cands:
                    return None
                for cnd in cands:
                    if not isinstance(cnd, (ast.Tuple, ast.List)) or len(cnd.elts) < 2:
                        return None
                    for d in cnd.elts:
                        syms.add(pf.src(d))
                        syms.add(resolve(d))
            return syms

        for c, al in s.pairs:
            if c is None or al is None:
                continue
            mf, (h, name) = c
            proto = eng.c.lookup(name, mf.handles.get(h))
            if proto is None:
                continue
            key = (proto.rel, name)
            if key not in strides_cache:
                strides_cache[key] = ffi.stride_params(eng.c.tus[proto.rel], name)
            rel = strides_cache[key]
            pnames = [pn for pn, _ in proto.params]
            for i, it in enumerate(al):
                if i >= len(pnames) or ".ctypes" not in it[1] or pnames[i] not in rel:
                    continue
                subj = it[1].split(".ctypes")[0]
                syms = shape_syms(subj) if subj.isidentifier() else None
                if syms is None:
                    continue
                for cn in rel[pnames[i]]:
                    j = pnames.index(cn)
                    if j >= len(al):
                        continue
                    m = re.match(r"(?:ctypes\.)?c_\w+\((.*)\)$", al[j][1])
                    if not m:
                        continue
                    e = m.group(1)
                    try:
                        ev = resolve(ast.parse(e, mode="eval").body)
                    except SyntaxError:
                        ev = e
                    n += 1
                    inst = "%s:%s %s: stride %s of buffer %s" % (s.rel, s.func, name, cn, subj)
                    if e in syms or ev in syms:
                        chk.ok("count-prov", inst)
                    else:
                        bad.setdefault((s.rel, s.func, name, cn, e, s.line), []).append((subj, pnames[i], sorted(syms), inst))
    for (rel_, func, name, cn, e, line), bufs in sorted(bad.items()):
        chk.violation(
            "count-prov", rel_, func, "%s(%s=%s)" % (name, cn, e), line,
            "%s indexes %s with stride `%s`; the call passes %s = %s, but the buffer(s) %s are allocated in this "
            "function with dimensions %s, none of which is that expression: the callee uses another row stride "
            "(and loop bound) than the allocation"
            % (name, ", ".join("`%s`" % b[1] for b in bufs), cn, cn, e, ", ".join("`%s`" % b[0] for b in bufs),
               bufs[0][2]), instance=bufs[0][3])
        for b in bufs[1:]:
            chk.obligations.append(("count-prov", core.norm_text(b[3]), False, True, "same call"))
    if n == 0:
        raise core.AnalysisError("count provenance: no (locally allocated buffer, stride parameter) pair found")


# ----------------------------------------------------------------------------
def analyse(chk):
    tree = chk.tree
    chk.rule("ffi", "ctypes call sites conform to the C prototypes (SysV landing slots, kinds, restype, callbacks)")
    chk.rule("len-agree", "symbolic lengths of usps / ueg vector / normalizer list equal nfeat; one component order")
    chk.rule("reject-mode", "unknown mode strings are rejected by the constructors")
    rels = ffi_modules(tree)
    chk.count("python modules scanned for ctypes calls", len(rels))

    box = {}

    def _ffi(c):
        eng = ffi.Engine(tree, rels)
        box["eng"] = eng
        c.count("C functions with a parsed prototype", len(eng.c.funcs))
        c.extra["ffi_attr_kinds"] = eng.attr_kinds
        rule_ffi(c, eng)

    chk.guard(_ffi)
    prog = pf.Program(tree, [ST, PL, FN, XE, NC, LC])
    chk.guard(rule_len, prog)
    chk.rule("validate", "lists consumed as index pairs / specs / parameter vectors reach a raising validator")
    chk.rule("dispatch", "multi-arm string ladders end in a raise or dispatch on a validated closed set")
    chk.rule("expnt-guard", "eval_feat_exp cannot return normally without the large-exponent test")
    chk.guard(rule_validate, prog)
    chk.guard(rule_dispatch, prog)
    chk.rule("param-guards", "frozen table: constructor / validator parameters are still rejected when invalid")
    chk.guard(rule_param_guards, prog)
    chk.guard(rule_expnt, prog)
    chk.rule("guards", "frozen table: shape / contiguity / dtype guards on every path to the native call or exit")
    if "eng" in box:
        chk.guard(rule_guards, box["eng"], prog)
        chk.rule("count-prov", "stride passed for a buffer allocated in the same function is one of its dimensions")
        chk.guard(rule_count_prov, box["eng"])
    else:
        chk.errors.append("rule_guards: not run because the ctypes engine failed")
    chk.floor("ffi", 100, "80 direct + 23 indirect call sites, all with a parsed prototype (MPI FFT sources parsed with stub headers)")
    chk.floor("ffi-callback", 6, "GTOcontract_* handed to GTOeval_sph_drv in sdmx_slow/frac_lapl")
    chk.floor("len-agree", 48, "14 instantiable settings classes x 3 accessors + component order")
    chk.floor("validate", 14, "dots/specs/params roles of FracLapl + 4 NLDF classes")
    chk.floor("param-guards", 29, "frozen table of 30 guarded parameter names")
    chk.floor("dispatch", 24, "multi-arm string ladders in the six anchored modules")
    chk.floor("expnt-guard", 2, "guard on every exit + flag default")
    chk.floor("guards", 387, "407 guard signatures frozen today")
    chk.floor("reject-mode", 20, "mode/sl_level/rho_mult/rho_damp x classes")
    chk.assumptions += [
        "x86-64 System V calling convention; ctypes without argtypes passes c_int/c_double/pointers as built",
        "count and length atoms are non-negative",
        "a component settings object obeys len-agree itself (checked per class)",
    ]
    chk.not_decided += ["out-of-bounds freedom of the C loops themselves (needs value ranges)",
                        "ctypes calls in ciderpress/gpaw; C sources that need Python.h (pwutil/gpaw_interface.c, nldf_fft_mpi.c)"]


def mutants(tree):
    GI = "ciderpress/dft/grids_indexer.py"
    FP = "ciderpress/lib/fft_plan.py"
    BL = "ciderpress/dft/baselines.py"
    return [
        # ---- ffi
        Mutant("ffi: drop an argument (pwutil.eval_pasdw_funcs)", PW,
               "        ctypes.c_int(ng),\n        ctypes.c_int(nlm),\n    )\n    return funcs_ig",
               "        ctypes.c_int(ng),\n    )\n    return funcs_ig", expect="ffi"),
        Mutant("ffi: c_int -> c_double (recursive_sph_harm_vec)", PW,
               "pw_cutil.recursive_sph_harm_vec(\n        ctypes.c_int(nlm),",
               "pw_cutil.recursive_sph_harm_vec(\n        ctypes.c_double(nlm),", expect="ffi"),
        Mutant("ffi: swap int and pointer argument (SDMXylm_loop)", SD,
               "            ctypes.c_int(coords.shape[0]),\n            ylm.ctypes.data_as(ctypes.c_void_p),\n"
               "            coords.ctypes.data_as(ctypes.c_void_p),\n            ylm_atom_loc",
               "            ylm.ctypes.data_as(ctypes.c_void_p),\n            ctypes.c_int(coords.shape[0]),\n"
               "            coords.ctypes.data_as(ctypes.c_void_p),\n            ylm_atom_loc", expect="ffi"),
        Mutant("ffi: extra appended argument in one branch only (pwutil._eval_cubic_interp)", PW,
               "        fn = pw_cutil.eval_cubic_interp_noderiv\n",
               "        fn = pw_cutil.eval_cubic_interp_noderiv\n        args.insert(0, ctypes.c_int(ng))\n",
               expect="ffi"),
        Mutant("ffi: branch selects a function with another signature (grids_indexer)", GI,
               "fn = libcider.reduce_ylm_to_angc", "fn = libcider.SDMXylm_loop", expect="ffi"),
        Mutant("ffi: c_double -> c_float (mulexp)", PW,
               "        ctypes.c_double(a),\n        ctypes.c_double(b),\n        ctypes.c_int(nk),",
               "        ctypes.c_double(a),\n        ctypes.c_float(b),\n        ctypes.c_int(nk),", expect="ffi"),
        Mutant("ffi: extra argument appended in one branch only", PW,
               "        fn = pw_cutil.eval_cubic_interp_noderiv\n",
               "        fn = pw_cutil.eval_cubic_interp_noderiv\n        args.append(ctypes.c_int(ng))\n"
               "        args.append(y_g.ctypes.data_as(ctypes.c_void_p))\n", expect="ffi"),
        Mutant("ffi: wrong callback handed to SDMXeval_rad_loop", SD,
               'eval_fn = getattr(libcider, "SDMXrad_eval_grid")', 'eval_fn = getattr(libcider, "SDMXcontract_smooth0")',
               expect="ffi"),
        Mutant("ffi: restype deleted for a pointer-returning function", FP,
               "libfft.malloc_fft_plan_in_array.restype = ctypes.c_void_p\n", "", expect="ffi"),
        Mutant("ffi: C prototype gains a parameter (C side edit)", "ciderpress/lib/pwutil/grid_util.c",
               "void mulexp(double complex *F_k,", "void mulexp(int extra, double complex *F_k,", expect="ffi"),
        Mutant("ffi: class attribute override bound to another kernel signature", XE,
               "_fn = libcider.evaluate_se_kernel_spin", "_fn = libcider.SDMXylm_loop", expect="ffi"),
        # ---- len-agree / reject-mode
        Mutant("len: remove assert ndt <= len(pows)", ST, "        assert ndt <= len(pows)\n", "", expect="len-agree"),
        Mutant("len: remove assert n1 <= len(pows) (SDMX1)", ST, "        assert self._n1 <= len(self.pows)\n", "",
               expect="len-agree"),
        Mutant("len: FracLapl nfeat forgets ndd", ST,
               "return self.nk0 + len(self.l1_dots) + len(self.ld_dots) + self.ndd",
               "return self.nk0 + len(self.l1_dots) + len(self.ld_dots)", expect="len-agree"),
        Mutant("len: VJ drops the specs/params length check", ST,
               "        if len(self.feat_params) != len(self.feat_specs):\n"
               "            raise ValueError(\"specs and params must have same length\")\n"
               "        for s, p in zip(self.feat_specs, self.feat_params):\n            self._check_params(p, spec=s)\n\n"
               "    @property\n    def num_vi_feats(self):\n        return 0",
               "        for s, p in zip(self.feat_specs, self.feat_params):\n            self._check_params(p, spec=s)\n\n"
               "    @property\n    def num_vi_feats(self):\n        return 0", expect="len-agree"),
        Mutant("len: Semilocal 'ns' returns three usps", ST, "            return [3, 8]\n", "            return [3, 8, 5]\n",
               expect="len-agree"),
        Mutant("len: FeatureSettings.get_feat_usps swaps two components", ST,
               "                self.nldf_settings.get_feat_usps(),\n                self.nlof_settings.get_feat_usps(),",
               "                self.nlof_settings.get_feat_usps(),\n                self.nldf_settings.get_feat_usps(),",
               expect="len-agree"),
        Mutant("len: FeatureSettings.nfeat forgets a component", ST,
               "            + self.nlof_settings.nfeat\n            + self.sdmx_settings.nfeat\n            + self.hyb",
               "            + self.sdmx_settings.nfeat\n            + self.hyb", expect="len-agree"),
        Mutant("reject: SemilocalSettings accepts unknown modes", ST,
               '        else:\n            raise ValueError("Mode must be nst, npa, ns, or np.")\n', "",
               expect="reject-mode"),
        Mutant("reject: rho_mult no longer validated", ST,
               '        if self.rho_mult not in ALLOWED_RHO_MULTS:\n            raise ValueError("Unsupported rho_mult")\n',
               "", expect="param-guards"),
        Mutant("len: SDMXFull normalizer walks the l0 terms twice", ST,
               "            for n, rdr in self.iterate_l1_terms(ratio):\n                try:\n                    u = known_dict",
               "            for n, rdr in self.iterate_l0_terms(ratio):\n                try:\n                    u = known_dict",
               expect="len-agree"),
        Mutant("len: SDMXFull n1dterms counts the wrong column", ST, "return self._get_num_feat(3)", "return self._get_num_feat(2)",
               expect="len-agree"),
        Mutant("len: SDMXFull generator yields the d-terms twice", ST,
               "        for i in range(v1[1]):\n            yield v0[i], True\n\n    def iterate_l1_terms",
               "        for i in range(v1[1]):\n            yield v0[i], True\n            yield v0[i], True\n\n    def iterate_l1_terms",
               expect="len-agree"),
        # ---- validate
        Mutant("validate: drop a _check_specs call (VI l1 specs -> l0 only)", ST,
               "        self._check_specs(self.l0_feat_specs, ALLOWED_I_SPECS_L0)\n"
               "        self._check_specs(self.l1_feat_specs, ALLOWED_I_SPECS_L1)\n        _check_l1_dots(",
               "        self._check_specs(self.l1_feat_specs, ALLOWED_I_SPECS_L1)\n        _check_l1_dots(",
               expect="validate"),
        Mutant("validate: drop _check_l1_dots in FracLaplSettings", ST,
               "        _check_l1_dots(l1_dots, self.nk1)\n", "", expect="validate"),
        Mutant("validate: VK feat_params not checked", ST,
               "        for s, p in zip(self.feat_specs, self.feat_params):\n            self._check_params(p, spec=s)\n"
               "        self.rho_damp = rho_damp", "        self.rho_damp = rho_damp", expect="validate"),
        # ---- dispatch
        Mutant("dispatch: spec ladder loses its raising else (VJ.ueg_vector)", ST,
               "                integral *= np.sqrt(expnt / (expnt + expnt3))\n            else:\n"
               "                raise ValueError\n            ueg_feats.append(rho * rho_mult * integral)\n"
               "        return np.asarray(ueg_feats, dtype=np.float64)\n\n    def get_reasonable_normalizer(self):\n"
               "        nvj",
               "                integral *= np.sqrt(expnt / (expnt + expnt3))\n"
               "            ueg_feats.append(rho * rho_mult * integral)\n"
               "        return np.asarray(ueg_feats, dtype=np.float64)\n\n    def get_reasonable_normalizer(self):\n"
               "        nvj", expect="dispatch"),
        Mutant("dispatch: get_occd ladder drops the 'ns' arm", PL,
               '        elif self.settings.mode in ["nst", "ns"]:\n            self._fill_occd_nst_(feat, occd',
               '        elif self.settings.mode in ["nst"]:\n            self._fill_occd_nst_(feat, occd', expect="dispatch"),
        Mutant("param: coef_order no longer validated", PL,
               '        if coef_order not in ["gq", "qg"]:\n            raise ValueError\n', "", expect="param-guards"),
        Mutant("param: lambd <= 1 accepted", PL,
               '        if lambd <= 1:\n            raise ValueError("lambd must be > 1")\n        self.lambd = np.float64(lambd)',
               "        self.lambd = np.float64(lambd)", expect="param-guards"),
        Mutant("param: non-positive exponent accepted by _check_params", ST,
               "            assert params[0] > 0\n            assert params[1] >= 0\n", "            assert params[1] >= 0\n",
               expect="param-guards"),
        # ---- expnt-guard
        Mutant("expnt: early return before the large-exponent test", PL,
               "        if self._raise_large_expnt_error and a.size > 0:",
               "        if self._use_smooth_expnt_cutoff:\n            return res\n"
               "        if self._raise_large_expnt_error and a.size > 0:", expect="expnt-guard"),
        Mutant("expnt: guard no longer raises", PL,
               '                raise RuntimeError(\n                    "NLDF exponent is too large! Please increase nalpha/alpha_max."\n                )',
               "                pass", expect="expnt-guard"),
        Mutant("expnt: flag ignores the constructor parameter", PL,
               "            self._raise_large_expnt_error = raise_large_expnt_error",
               "            self._raise_large_expnt_error = False", expect="expnt-guard"),
        # ---- guards
        Mutant("guards: delete a contiguity assert before a native call (pwutil)", PW,
               "    assert ylm_lg.flags.c_contiguous\n", "", expect="guards"),
        Mutant("guards: delete shape assert in one branch (multiply_atc_integrals)", LC,
               "            assert input.shape == (self.atco_inp.nao, self.nalpha), (\n                input.shape,\n"
               "                (self.atco_inp.nao, self.nalpha),\n            )\n", "", expect="guards"),
        Mutant("guards: _check_shape no longer checks nfeat", FN,
               '        if x.shape[-2] != self.nfeat:\n            raise ValueError("Array must have size nfeat")\n', "",
               expect="guards"),
        Mutant("guards: normalizer entry point skips _check_shape", FN, "        self._check_shape(DX0T, ndim=2)\n", "",
               expect="guards"),
        Mutant("guards: ModelWithNormalizer size check removed", XE,
               "        if model.nfeat != normalizer.nfeat:\n            raise ValueError\n", "", expect="guards"),
        Mutant("guards: RBFEvaluator contiguity loop removed", XE,
               "        for arr in [res, dres, X1]:\n            assert arr.flags.c_contiguous\n", "", expect="guards"),
        Mutant("guards: offset + nalpha <= stride weakened to nalpha <= stride", LC,
               "        assert offset + nalpha <= stride\n", "        assert nalpha <= stride\n", expect="guards"),
        # ---- count-prov
        Mutant("count: global exponent count passed for a buffer sized by the local count", PL,
               "                ctypes.c_int(arg_g.size),\n                ctypes.c_int(nalpha),\n            )\n            return p, dp",
               "                ctypes.c_int(arg_g.size),\n                ctypes.c_int(self.nalpha),\n            )\n            return p, dp",
               expect="count-prov"),
        Mutant("count: grid stride replaced by the exponent count (qg branch)", PL,
               "                ctypes.c_int(arg_g.size),\n                ctypes.c_int(nalpha),\n            )\n            return p, dp",
               "                ctypes.c_int(self.nalpha),\n                ctypes.c_int(nalpha),\n            )\n            return p, dp",
               expect="count-prov"),
        Mutant("guards: relation weakened inside a merged assert", LC,
               "        assert offset + nalpha <= stride\n", "        assert offset <= stride and nalpha <= stride\n", expect="guards"),
        Mutant("guards: contiguity test turned into a disjunction with something else", PW,
               "    assert ylm_lg.flags.c_contiguous\n", "    assert ylm_lg.flags.c_contiguous or ylm_lg.ndim == 2\n", expect="guards"),
    ]


if __name__ == "__main__":
    if os.environ.get("C18_DUMP_GUARDS"):
        import json
        _t = core.Tree()
        _eng = ffi.Engine(_t, ffi_modules(_t))
        print(json.dumps(collect_guards(_t, _eng, pf.Program(_t, [ST, PL, FN, XE, NC, LC])), indent=1))
        sys.exit(0)
    sys.exit(core.main(PROP, analyse, mutants, __doc__))
