"""C04 (Python-kernel evaluator): KernelEvaluator cannot evaluate a polynomial kernel of
order 1 (DiffPolyKernel / SubsetPoly / SpinSymPoly with order=1, i.e. k = 1 + gamma x.y).

DiffPolyKernel.k_and_deriv accumulates the derivative prefactor in `dk = 0.0` and adds
`dotn`, which starts as the Python int 1 and only becomes an array after the first
multiplication by dot1.  For order == 1 the loop body runs once, dk stays the float 1.0,
and `dk[:, :, None]` raises TypeError.  __call__ (the kernel value) works for order 1.
"""
import os
import sys

sys.path.insert(0, os.path.join(os.path.dirname(os.path.abspath(__file__)), "..", "common"))
import hx  # noqa: E402

hx.install()

import numpy as np  # noqa: E402

from ciderpress.dft.xc_evaluator import KernelEvaluator  # noqa: E402
from ciderpress.models.kernels import DiffPolyKernel, SpinSymPoly, SubsetPoly  # noqa: E402

rng = np.random.default_rng(0)
N1, nctrl, n = 4, 5, 6
X1ctrl = rng.uniform(0, 1, size=(nctrl, N1))
alpha = rng.normal(size=nctrl)
X1 = rng.uniform(0, 1, size=(n, N1))
gam = np.array([0.1, 0.2, 1.0, 0.5])
fail = False
for order in [1, 2, 3]:
    for name, kern in [
        ("DiffPolyKernel iso", DiffPolyKernel(gamma=0.65, order=order)),
        ("DiffPolyKernel aniso", DiffPolyKernel(gamma=gam, order=order)),
        ("DiffPolyKernel aniso nofact", DiffPolyKernel(gamma=gam, order=order, factorial=False)),
        ("SubsetPoly [3,1]", SubsetPoly([3, 1], gamma=gam[[3, 1]], order=order)),
        ("SpinSymPoly", SpinSymPoly([0, 1], [2, 3], gamma=gam[:2], order=order)),
    ]:
        ref = kern(X1, X1ctrl).dot(alpha)  # f(x) = sum_a k(x, x_a) alpha_a
        h = 1e-6
        g = np.zeros_like(X1)
        for j in range(N1):
            Xp = X1.copy()
            Xp[:, j] += h
            Xm = X1.copy()
            Xm[:, j] -= h
            g[:, j] = (kern(Xp, X1ctrl).dot(alpha) - kern(Xm, X1ctrl).dot(alpha)) / (2 * h)
        try:
            r, d = KernelEvaluator(kern, X1ctrl, alpha)(X1)
            e1, e2 = np.abs(r - ref).max(), np.abs(d - g).max()
            print("order=%d %-28s max|f-ref|=%.1e max|grad-FD|=%.1e" % (order, name, e1, e2))
            fail |= e1 > 1e-12 or e2 > 1e-6
        except Exception as e:
            print("order=%d %-28s expected f and gradient (kernel value works), observed %r" % (order, name, e))
            fail = True
if fail:
    print("FAIL: order-1 polynomial kernels cannot be evaluated with their gradient")
    sys.exit(1)
print("OK")
