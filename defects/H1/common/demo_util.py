"""Shared helpers for the hunt demos (finite-difference check of the assembled
CIDER numerical integrator)."""
import os
import sys

os.environ.setdefault("OMP_NUM_THREADS", "2")
sys.path.insert(0, os.path.dirname(os.path.abspath(__file__)))
import cider_boot  # noqa: F401,E402  (hands the scratch-built C libraries to ciderpress)
import numpy as np  # noqa: E402
import scipy.linalg  # noqa: E402
from pyscf import dft, gto  # noqa: E402

from ciderpress.pyscf.dft import make_cider_calc  # noqa: E402


def psd_dm(mol, unrestricted, seed=1, noise=0.15):
    """non-converged but positive semidefinite density matrix: occupied
    orbitals are eigenvectors of a randomly perturbed core Hamiltonian"""
    rng = np.random.RandomState(seed)
    s1e = mol.intor("int1e_ovlp")
    h = mol.intor("int1e_kin") + mol.intor("int1e_nuc")
    nao = mol.nao

    def one(nocc, occ):
        p = rng.normal(size=(nao, nao)) * noise
        e, c = scipy.linalg.eigh(h + p + p.T, s1e)
        return occ * c[:, :nocc].dot(c[:, :nocc].T)

    na, nb = mol.nelec
    if unrestricted:
        return np.stack([one(na, 1.0), one(nb, 1.0)])
    return one(na, 2.0)


def default_mol(unrestricted, basis="6-31g"):
    return gto.M(
        atom="N 0 0 0; H 0.1 0.9 0.3; H 0.8 -0.5 0.2",
        basis=basis,
        spin=1 if unrestricted else 0,
        charge=0 if unrestricted else 1,
        verbose=0,
    )


def build_ks(mol, mlxc, unrestricted, level=0, **kwargs):
    ks = dft.UKS(mol) if unrestricted else dft.RKS(mol)
    ks.grids.level = level
    ks = make_cider_calc(ks, mlxc, **kwargs)
    ks.grids.level = level
    ks.build()
    ks.grids.build(with_non0tab=True)
    return ks


def fd_vs_vmat(ks, dm, h=3e-5, seed=2):
    """returns (Exc, finite-difference dE, tr(vmat dP)) along a random
    symmetric direction dP"""
    mol = ks.mol
    ni = ks._numint
    fn = ni.nr_uks if dm.ndim == 3 else ni.nr_rks
    rng = np.random.RandomState(seed)
    d = rng.normal(size=dm.shape)
    d = 0.05 * (d + d.swapaxes(-1, -2))
    _, e0, vmat = fn(mol, ks.grids, ks.xc, dm)
    ep = fn(mol, ks.grids, ks.xc, dm + h * d)[1]
    em = fn(mol, ks.grids, ks.xc, dm - h * d)[1]
    return e0, (ep - em) / (2 * h), np.sum(vmat * d)
