"""C07 -- ciderpress/dft/xc_evaluator2.py : MappedDFTKernel2.__call__,
low-density cutoff in the SEP (spin-scaled exchange) branch

    cond = rho_tuple[0] < rhocut          # rho_tuple[0] = raw per-spin density
    if self.mode == "SEP":
        f[cond] = 0.0
        df[cond] = 0.0

SEP kernels evaluate  E[n_up, n_dn] = (E[2 n_up] + E[2 n_dn]) / 2  : channel s is
the unpolarised functional at density 2 n_s (the descriptors X0T[s] and the
libxc baseline in _get_baseline are built from 2*n_s, 4*sigma_ss, 2*tau_s).
The cutoff, however, is applied to n_s instead of 2 n_s, so

  * a closed-shell density with rhocut <= n < 2 rhocut is kept by the
    unpolarised path (n >= rhocut) but zeroed by the spin-polarised path
    (n/2 < rhocut);
  * E[n_up, n_dn] != (E[2 n_up] + E[2 n_dn]) / 2 for rhocut/2 <= n_s < rhocut.

(The v1 sibling MappedDFTKernel compares the nspin-scaled feature X0T[s,0] =
2 n_s in its SEP branch, and the NPOL branch of this class uses the total
density, so only this branch is off by the factor nspin.)
"""
import os
import sys

import numpy as np

sys.path.insert(0, os.path.dirname(os.path.abspath(__file__)))
import ciderlibs  # noqa: E402

ciderlibs.install()

from ciderpress.dft.plans import SemilocalPlan, get_rho_tuple_with_grad_cross  # noqa: E402
from ciderpress.dft.settings import SemilocalSettings  # noqa: E402
from ciderpress.dft.transform_data import FeatureList, SLNMap, UMap  # noqa: E402
from ciderpress.dft.xc_evaluator import FuncEvaluator  # noqa: E402
from ciderpress.dft.xc_evaluator2 import MappedDFTKernel2, MappedXC2  # noqa: E402


class Quad(FuncEvaluator):
    def __call__(self, X1, res=None, dres=None):
        c = 0.1 + 0.03 * np.arange(1, X1.shape[-1] + 1)
        res[:] += 1.0 + (X1**2).dot(c)
        dres[:] += 2 * X1 * c
        return res, dres


fl = FeatureList([SLNMap(0, 2.0), UMap(1, 0.5), UMap(2, 1.0)])
rhocut = 1e-3
fails = []


def evaluate(xc, rho):
    """rho: (nspin, 5, N) density data -> E, vrho"""
    ns = rho.shape[0]
    X0T = SemilocalPlan(SemilocalSettings("npa"), ns).get_feat(rho)
    rt = get_rho_tuple_with_grad_cross(rho, is_mgga=True)[:2]
    e, d, v = xc(X0T, rt, rhocut=rhocut)
    return e, v[0]


n = np.array([0.4e-3, 0.9e-3, 1.1e-3, 1.9e-3, 2.1e-3, 0.5])
rho1 = np.zeros((1, 5, n.size))
rho1[0, 0] = n
rho1[0, 1] = 0.3 * n
rho1[0, 4] = rho1[0, 1] ** 2 / (8 * n) + 0.6 * n ** (5.0 / 3)
rho2 = np.concatenate([rho1, rho1]) / 2

for base in ["GGA_X_PBE", "LDA_X"]:
    xc = MappedXC2([MappedDFTKernel2(Quad(), fl, "SEP", base)], None)
    e1, v1 = evaluate(xc, rho1)
    e2, v2 = evaluate(xc, rho2)
    print("SEP kernel, baseline", base, " rhocut =", rhocut)
    print("   n                 =", n)
    print("   e  unpolarised    =", e1)
    print("   e  polarised(n/2) =", e2)
    print("   vrho unpolarised  =", v1[0])
    print("   vrho polarised    =", v2[0])
    d = np.abs(e1 - e2).max()
    print("   (i) closed shell: max |e1 - e2| = %.3e (expected ~1e-16)" % d)
    if d > 1e-10:
        fails.append(base + ":closed-shell")

    # separability: E[n_up, n_dn] = (E[2 n_up] + E[2 n_dn]) / 2
    nup = np.array([0.7e-3, 0.3, 0.7e-3])
    ndn = np.array([0.2, 0.6e-3, 0.8e-3])
    ra = np.zeros((5, 3))
    rb = np.zeros((5, 3))
    for r, m in [(ra, nup), (rb, ndn)]:
        r[0] = m
        r[1] = 0.3 * m
        r[4] = r[1] ** 2 / (8 * m) + 0.6 * m ** (5.0 / 3)
    eab = evaluate(xc, np.stack([ra, rb]))[0]
    ea = evaluate(xc, 2 * ra[None])[0]
    eb = evaluate(xc, 2 * rb[None])[0]
    print("   (ii) E[n_up,n_dn]           =", eab)
    print("        (E[2n_up]+E[2n_dn])/2  =", 0.5 * (ea + eb))
    d = np.abs(eab - 0.5 * (ea + eb)).max()
    print("        max diff = %.3e (expected ~1e-16)" % d)
    if d > 1e-10:
        fails.append(base + ":separability")

if fails:
    print("FAIL:", fails)
    sys.exit(1)
print("OK")
