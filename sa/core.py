"""Core of the static-analysis framework: source tree access (with overlay for
mutation self-tests), findings, known-findings, evidence, command line.

Nothing here imports ciderpress or executes repository code.
"""
import argparse
import ast
import glob as _glob
import hashlib
import json
import os
import re
import sys
import time
import traceback

VERIF = os.path.dirname(os.path.dirname(os.path.abspath(__file__)))
DEFAULT_ROOT = os.environ.get("VERIF_REPO_ROOT", "/repo")


class AnalysisError(Exception):
    """The analysis itself cannot be carried out (vanished anchor, parse
    failure, instance count under floor).  Exit status 2, never a pass."""


# ----------------------------------------------------------------------------
# source tree
# ----------------------------------------------------------------------------
class Tree:
    """Read-only view of the repository working tree.  `overlay` maps a
    repo-relative path to replacement text (used only by the mutation
    self-test; nothing is ever written under the root)."""

    def __init__(self, root=None, overlay=None):
        self.root = os.path.abspath(root or DEFAULT_ROOT)
        self.overlay = dict(overlay or {})
        self._py = {}
        self._text = {}

    def path(self, rel):
        return os.path.join(self.root, rel)

    def exists(self, rel):
        return rel in self.overlay or os.path.exists(self.path(rel))

    def read(self, rel):
        if rel in self.overlay:
            return self.overlay[rel]
        if rel not in self._text:
            try:
                with open(self.path(rel), encoding="utf-8") as f:
                    self._text[rel] = f.read()
            except OSError as e:
                raise AnalysisError("cannot read anchored file %s: %s" % (rel, e))
        return self._text[rel]

    def py(self, rel):
        if rel not in self._py:
            try:
                mod = ast.parse(self.read(rel), filename=rel)
            except SyntaxError as e:
                raise AnalysisError("cannot parse %s: %s" % (rel, e))
            for node in ast.walk(mod):
                for ch in ast.iter_child_nodes(node):
                    ch._parent = node
            mod._rel = rel
            self._py[rel] = mod
        return self._py[rel]

    def glob(self, pattern):
        out = sorted(
            os.path.relpath(p, self.root)
            for p in _glob.glob(os.path.join(self.root, pattern), recursive=True)
        )
        for rel in self.overlay:
            if rel not in out and _glob.fnmatch.fnmatch(rel, pattern):
                out.append(rel)
        return sorted(out)

    def with_overlay(self, overlay):
        ov = dict(self.overlay)
        ov.update(overlay)
        return Tree(self.root, ov)


# ----------------------------------------------------------------------------
# findings
# ----------------------------------------------------------------------------
def norm_text(s):
    """Normalise construct text so that keys survive reformatting."""
    s = re.sub(r"\s+", " ", s.strip())
    s = s.replace("( ", "(").replace(" )", ")").replace('"', "'")
    return s[:160]


class Finding:
    def __init__(self, prop, rule, file, func, construct, line, msg):
        self.prop = prop
        self.rule = rule
        self.file = file
        self.func = func or ""
        self.construct = norm_text(construct or "")
        self.line = line
        self.msg = msg

    @property
    def key(self):
        return "%s|%s|%s|%s" % (self.rule, self.file, self.func, self.construct)

    def as_dict(self):
        return {
            "property": self.prop,
            "rule": self.rule,
            "file": self.file,
            "function": self.func,
            "construct": self.construct,
            "line": self.line,
            "message": self.msg,
            "key": self.key,
        }

    def text(self):
        return "%s:%s  %s  [%s] %s :: %s" % (
            self.file,
            self.line,
            self.rule,
            self.func,
            self.construct,
            self.msg,
        )


def load_known(prop):
    p = os.path.join(VERIF, "known_findings.json")
    if not os.path.exists(p):
        return {}
    with open(p) as f:
        data = json.load(f)
    out = {}
    for ent in data.get("findings", []):
        if ent.get("property") == prop and ent.get("status") == "known":
            out[ent["key"]] = ent
    return out


# ----------------------------------------------------------------------------
# a check run
# ----------------------------------------------------------------------------
class Check:
    """Collects rule instances (obligations), violations and notes for one
    property; writes evidence; decides the exit status."""

    def __init__(self, prop, tree, tier="quick", seed=0, quiet=False):
        self.prop = prop
        self.tree = tree
        self.tier = tier
        self.seed = seed
        self.quiet = quiet
        self.t0 = time.time()
        self.obligations = []  # (rule, instance, ok, nontrivial)
        self.findings = []
        self.notes = []
        self.floors = []  # (rule, minimum, why)
        self.analysed = {}  # free-form counters
        self.rules = {}  # rule id -> description
        self.assumptions = []
        self.not_decided = []
        self.extra = {}
        self.errors = []

    def guard(self, fn, *a, **k):
        """Run one rule; an analysis failure inside it is recorded (exit 2 at
        the end unless a violation is reported) without hiding the verdicts of
        the other rules."""
        try:
            return fn(self, *a, **k)
        except AnalysisError as e:
            self.errors.append("%s: %s" % (getattr(fn, "__name__", "rule"), e))
        except Exception:
            self.errors.append("%s: internal error\n%s" % (
                getattr(fn, "__name__", "rule"), traceback.format_exc()))

    # -- registration -------------------------------------------------------
    def rule(self, rid, desc):
        self.rules[rid] = desc

    def count(self, what, n=1):
        self.analysed[what] = self.analysed.get(what, 0) + n

    def ok(self, rule, instance, nontrivial=True, detail=None):
        self.obligations.append((rule, norm_text(str(instance)), True, nontrivial, detail))

    def violation(self, rule, file, func, construct, line, msg, instance=None):
        f = Finding(self.prop, rule, file, func, construct, line, msg)
        self.findings.append(f)
        self.obligations.append(
            (rule, norm_text(str(instance or f.key)), False, True, msg)
        )
        return f

    def note(self, rule, where, msg):
        self.notes.append({"rule": rule, "where": where, "note": msg})

    def floor(self, rule, minimum, why=""):
        self.floors.append((rule, minimum, why))

    def n_instances(self, rule):
        return sum(1 for o in self.obligations if o[0] == rule)

    # -- finishing ----------------------------------------------------------
    def check_floors(self):
        for rule, minimum, why in self.floors:
            n = self.n_instances(rule)
            if n < minimum:
                self.errors.append(
                    "rule %s matched %d instance(s), fewer than the %d confirmed "
                    "by hand on the pinned tree (%s): the rule would pass "
                    "vacuously" % (rule, n, minimum, why)
                )

    def result(self):
        """-> (new_violations, known_hits)"""
        known = load_known(self.prop)
        new, hits = [], []
        for f in self.findings:
            if f.key in known:
                hits.append((f, known[f.key]))
            else:
                new.append(f)
        return new, hits

    def evidence(self, selftest=None):
        new, hits = self.result()
        per_rule = {}
        for rule, inst, ok, nt, detail in self.obligations:
            d = per_rule.setdefault(
                rule,
                {"description": self.rules.get(rule, ""), "instances": 0,
                 "discharged": 0, "samples": []},
            )
            d["instances"] += 1
            d["discharged"] += 1 if ok else 0
            if len(d["samples"]) < 6:
                d["samples"].append(inst if detail is None else {"instance": inst, "detail": detail})
        distinct_nt = len({(o[0], o[1]) for o in self.obligations if o[3]})
        samples = []
        for rule, d in per_rule.items():
            for s in d["samples"][:2]:
                samples.append({"rule": rule, "instance": s})
        cov = {
            "explanation": (
                "Static analysis of the source under %s (Python ast / clang JSON "
                "AST); each obligation is one instance of a rule decided on a "
                "specific construct. Decides structural necessary conditions of "
                "the property, not the numerical behaviour." % self.tree.root
            ),
            "evaluations": len(self.obligations),
            "distinct_nontrivial": distinct_nt,
            "rule": "one evaluation = one (rule, construct) instance enumerated "
                    "from the current source; non-trivial = the rule had to "
                    "inspect at least one matching construct (vacuous matches "
                    "are not counted); distinct by (rule, normalised instance)",
            "obligations": len(self.obligations),
            "discharged": sum(1 for o in self.obligations if o[2]),
            "samples": samples[:40],
            "analysed": self.analysed,
            "rules": per_rule,
            "floors": [
                {"rule": r, "minimum": m, "found": self.n_instances(r), "why": w}
                for r, m, w in self.floors
            ],
            "notes": self.notes[:60],
            "not_decided": self.not_decided,
            "known_findings_hit": [f.as_dict() for f, _ in hits],
            "violations": [f.as_dict() for f in new],
            "analysis_errors": self.errors,
            "exhaustive": True,
        }
        cov.update(self.extra)
        if selftest is not None:
            cov["mutation_selftest"] = selftest
        return {
            "property_id": self.prop,
            "tier": self.tier,
            "seed": int(self.seed),
            "level": "other",
            "coverage": cov,
            "assumptions": self.assumptions,
            "wall_s": round(time.time() - self.t0, 3),
            "violations": len(new),
        }


def write_replay(f):
    d = os.path.join(VERIF, "replay", f.prop)
    os.makedirs(d, exist_ok=True)
    h = hashlib.sha1(f.key.encode()).hexdigest()[:12]
    p = os.path.join(d, "%s_%s.json" % (re.sub(r"[^A-Za-z0-9_.-]", "_", f.rule), h))
    with open(p, "w") as fh:
        json.dump(f.as_dict(), fh, indent=1)
    return p


def write_evidence(prop, ev):
    d = os.path.join(VERIF, "evidence")
    os.makedirs(d, exist_ok=True)
    p = os.path.join(d, "%s.json" % prop)
    tmp = p + ".tmp%d" % os.getpid()
    with open(tmp, "w") as fh:
        json.dump(ev, fh, indent=1, sort_keys=False, default=str)
    os.replace(tmp, p)


# ----------------------------------------------------------------------------
# driver
# ----------------------------------------------------------------------------
def run_analysis(prop, analyse, tree, tier="quick", seed=0):
    chk = Check(prop, tree, tier=tier, seed=seed)
    chk.guard(lambda c: analyse(c))
    chk.check_floors()
    return chk


def _prune_cache(max_files=400, max_bytes=600 * 2**20):
    """Keep the digest-keyed cache bounded (scratch trees of seeded-change runs
    add entries that are never reused): drop the least recently used files."""
    d = os.environ.get("VERIF_CACHE", os.path.join(VERIF, ".cache"))
    try:
        ents = []
        for n in os.listdir(d):
            p = os.path.join(d, n)
            st = os.stat(p)
            ents.append((max(st.st_atime, st.st_mtime), st.st_size, p))
        ents.sort(reverse=True)
        tot = 0
        for i, (t, sz, p) in enumerate(ents):
            tot += sz
            if i >= max_files or tot > max_bytes:
                os.remove(p)
    except OSError:
        pass


def main(prop, analyse, mutants=None, description=""):
    """analyse(chk) fills a Check.  mutants(tree) -> list of Mutant for the
    thorough tier (see sa.selftest)."""
    ap = argparse.ArgumentParser(description=description)
    ap.add_argument("--tier", default=os.environ.get("VERIF_TIER", "quick"))
    ap.add_argument("--root", default=None)
    ap.add_argument("--replay", default=None)
    ap.add_argument("--no-evidence", action="store_true")
    ap.add_argument("-j", type=int, default=min(16, os.cpu_count() or 1))
    args = ap.parse_args()
    tier = "thorough" if args.tier == "thorough" else "quick"
    try:
        seed = int(os.environ.get("VERIF_SEED", "0"))
    except ValueError:
        seed = 0
    tree = Tree(args.root)
    _prune_cache()
    try:
        chk = run_analysis(prop, analyse, tree, tier, seed)
        new, hits = chk.result()
        selftest = None
        if args.replay:
            with open(args.replay) as fh:
                want = json.load(fh)
            found = [f for f in chk.findings if f.key == want.get("key")]
            if found:
                print(found[0].text())
                print("VIOLATION property=%s replay=%s" % (prop, args.replay))
                return 1
            print("replay: finding %s no longer reported" % want.get("key"))
            return 0
        if tier == "thorough" and mutants is not None and not new and not chk.errors:
            from sa import selftest as st
            own = getattr(sys.modules.get("__main__"), "_analyse_own", None)
            selftest = st.run(prop, analyse, mutants, tree, jobs=args.j, seed=seed, own=own)
        ev = chk.evidence(selftest)
        if not args.no_evidence and args.root is None:
            write_evidence(prop, ev)
        print("%s: %d obligations, %d discharged, %d rule(s); analysed: %s" % (
            prop, len(chk.obligations), sum(1 for o in chk.obligations if o[2]),
            len({o[0] for o in chk.obligations}), json.dumps(chk.analysed)))
        for r, m, w in chk.floors:
            print("  floor %-28s >= %d  found %d" % (r, m, chk.n_instances(r)))
        for n in chk.notes[:20]:
            print("NOTE %s %s: %s" % (n["rule"], n["where"], n["note"]))
        for f, ent in hits:
            print("KNOWN-FINDING: property=%s %s -- %s" % (prop, f.text(), ent.get("what", "")))
        if new:
            for f in new:
                print(f.text())
            for f in new:
                print("VIOLATION property=%s replay=%s" % (prop, write_replay(f)))
            for e in chk.errors:
                print("ANALYSIS-ERROR property=%s %s" % (prop, e))
            return 1
        if chk.errors:
            for e in chk.errors:
                print("ANALYSIS-ERROR property=%s %s" % (prop, e))
            return 2
        if selftest is not None:
            print("mutation self-test: %d/%d mutants detected, %d skipped (anchor absent)" % (
                selftest["detected"], selftest["applied"], selftest["skipped"]))
            if selftest["missed"]:
                for m in selftest["missed"]:
                    print("ANALYSIS-ERROR checker regression: mutant not detected: %s" % m)
                return 2
        return 0
    except AnalysisError as e:
        print("ANALYSIS-ERROR property=%s %s" % (prop, e))
        return 2
    except Exception:
        traceback.print_exc()
        print("ANALYSIS-ERROR property=%s internal error in the checker" % prop)
        return 2


# ----------------------------------------------------------------------------
# cross-inclusion: a rule group decided by another property's checker that is
# also a necessary condition of this property, restricted to the files this
# property anchors
# ----------------------------------------------------------------------------
def _tree_digest(tree):
    """Digest of everything an analysis can depend on: the analysed sources and
    the checker code itself."""
    h = hashlib.sha1()
    for base, pats in ((tree.root, ("ciderpress/**/*.py", "ciderpress/lib/**/*.c", "ciderpress/lib/**/*.h")),
                       (VERIF, ("sa/*.py", "checks/*.py", "stubs/*", "known_findings.json"))):
        for pat in pats:
            for pth in sorted(_glob.glob(os.path.join(base, pat), recursive=True)):
                try:
                    with open(pth, "rb") as fh:
                        h.update(pth.encode())
                        h.update(fh.read())
                except OSError:
                    pass
    return h.hexdigest()


class _SubResult:
    """What include_findings needs from an included analysis."""

    def __init__(self, obligations, findings, errors):
        self.obligations, self.findings, self.errors = obligations, findings, errors


def _cached_sub(chk, mod):
    """Run (or load from the digest-keyed cache) the full analysis of another
    property on the same tree.  Only unmodified trees (no overlay) are cached."""
    import pickle
    cache_dir = os.environ.get("VERIF_CACHE", os.path.join(VERIF, ".cache"))
    cp = None
    if not chk.tree.overlay and os.environ.get("VERIF_NO_INCLUDE_CACHE") != "1":
        if not hasattr(chk.tree, "_digest"):
            chk.tree._digest = _tree_digest(chk.tree)
        cp = os.path.join(cache_dir, "include_%s_%s.pkl" % (mod.PROP, chk.tree._digest))
        if os.path.exists(cp):
            try:
                with open(cp, "rb") as fh:
                    ob, fs, er = pickle.load(fh)
                return _SubResult(ob, [Finding(*f) for f in fs], er)
            except Exception:
                pass
    sub = Check(mod.PROP, chk.tree, tier=chk.tier, seed=chk.seed)
    sub.is_included = True
    sub.guard(lambda c: mod.analyse(c))
    if cp is not None:
        try:
            os.makedirs(cache_dir, exist_ok=True)
            tmp = cp + ".tmp%d" % os.getpid()
            with open(tmp, "wb") as fh:
                pickle.dump(([(o[0], o[1], o[2], o[3], None) for o in sub.obligations],
                             [(f.prop, f.rule, f.file, f.func, f.construct, f.line, f.msg) for f in sub.findings],
                             sub.errors), fh)
            os.replace(tmp, cp)
        except Exception:
            pass
    return sub


def include_findings(chk, other, files=None, rules=None, why=""):
    """Run checks/<other>.py's analysis on the same tree and re-report, under
    this property, its violations located in `files` (prefix match on the
    repo-relative path) and belonging to `rules` (None = all).  Analysis errors
    of the included analysis are notes here (they fail the other property's own
    check); findings the other property lists as known stay known there and are
    not re-reported."""
    if getattr(chk, "is_included", False):
        return 0  # no transitive inclusion
    import importlib
    mod = importlib.import_module("checks." + other.lower())
    sub = _cached_sub(chk, mod)
    rid = "via-%s" % mod.PROP
    chk.rule(rid, "rules of %s restricted to files anchored by %s: %s" % (mod.PROP, chk.prop, why))
    known_other = load_known(mod.PROP)
    n = 0
    for rule, inst, ok, nt, detail in sub.obligations:
        if rules is not None and not any(rule.startswith(r) for r in rules):
            continue
        if ok:
            n += 1
    picked = 0
    for f in sub.findings:
        if rules is not None and not any(f.rule.startswith(r) for r in rules):
            continue
        if files is not None and not any(f.file.startswith(x) or f.file.endswith(x) for x in files):
            continue
        if f.key in known_other:
            chk.note(rid, f.file, "known finding of %s (not re-reported): %s" % (mod.PROP, f.construct))
            continue
        picked += 1
        chk.violation("%s:%s" % (rid, f.rule), f.file, f.func, f.construct, f.line, f.msg)
    chk.ok(rid, "%d obligations of %s discharged on the shared files" % (n, mod.PROP), nontrivial=n > 0)
    chk.count("obligations decided by included %s rules" % mod.PROP, n)
    for e in sub.errors:
        chk.note(rid, mod.PROP, "included analysis reported an analysis error (decided by %s's own check): %s" % (
            mod.PROP, e.splitlines()[0][:200]))
    return picked
