"""C18 demo: ConvolutionCollectionK.multiply_atc_integrals allocates its default
`output` with the number of orbitals of the INPUT basis, then asserts that it has the
size of the OUTPUT basis.  Unlike its twin ConvolutionCollection.multiply_atc_integrals
the documented `output=None` call therefore fails whenever the two bases differ in size
(they always do for a generator built by PyscfNLDFGenerator.from_mol_and_settings)."""
import os
import sys

sys.path.insert(0, os.path.dirname(os.path.abspath(__file__)))
import cider_env  # noqa: E402

cider_env.install()

import numpy as np  # noqa: E402

from ciderpress.dft.lcao_convolutions import (  # noqa: E402
    ATCBasis,
    ConvolutionCollection,
    ConvolutionCollectionK,
    get_convolution_expnts_from_expnts,
    get_gamma_lists_from_etb_list,
)

etb = [[(0, 3, 0.5, 2.0), (1, 2, 0.5, 2.0)]]
dat = get_gamma_lists_from_etb_list(etb)
atco_inp = ATCBasis(*dat)
alphas = 0.25 * 2.0 ** np.arange(6)
norms = (np.pi / (2 * alphas)) ** -0.75
dat2 = get_convolution_expnts_from_expnts(alphas, dat[0], dat[1], dat[2], dat[4], gbuf=4.0)
atco_out = ATCBasis(*dat2)
print("nao(inp) = %d, nao(out) = %d, nalpha = %d" % (atco_inp.nao, atco_out.nao, alphas.size))
rng = np.random.default_rng(0)
fails = 0

# twin class: default output works in both directions
ccl = ConvolutionCollection(atco_inp, atco_out, alphas, norms, has_vj=True, ifeat_ids=[])
ccl.compute_integrals_()
ccl.solve_projection_coefficients()
out = ccl.multiply_atc_integrals(rng.normal(size=(atco_inp.nao, ccl.nalpha)), fwd=True)
back = ccl.multiply_atc_integrals(rng.normal(size=(atco_out.nao, ccl.nbeta)), fwd=False)
print("ConvolutionCollection  default output: fwd", out.shape, " bwd", back.shape)

cclk = ConvolutionCollectionK(atco_inp, atco_out, alphas, norms)
cclk.compute_integrals_()
cclk.solve_projection_coefficients()
for fwd in (True, False):
    a_in, a_out = (atco_inp, atco_out) if fwd else (atco_out, atco_inp)
    inp = np.ascontiguousarray(rng.normal(size=(a_in.nao, cclk.nalpha)))
    ref = cclk.multiply_atc_integrals(
        inp, output=np.zeros((a_out.nao, cclk.nalpha)), fwd=fwd
    )
    try:
        res = cclk.multiply_atc_integrals(inp, fwd=fwd)
    except AssertionError:
        print("ConvolutionCollectionK default output, fwd=%s: expected array of shape %s "
              "(as with explicit output); observed AssertionError" % (fwd, ref.shape))
        fails += 1
    else:
        ok = res.shape == ref.shape and np.allclose(res, ref)
        print("ConvolutionCollectionK default output, fwd=%s:" % fwd, res.shape,
              "matches explicit output" if ok else "MISMATCH")
        fails += 0 if ok else 1

print("failures:", fails)
sys.exit(1 if fails else 0)
