"""
C18/C08: NLDF plans accept expcut=0 together with alpha_formula='zexp' and then
return NaN features for every grid point.

The constructor validates `expcut < 0 -> ValueError`, i.e. 0 is an accepted
value.  For the 'zexp' grid get_q2a() sets alphas[0] = expcut, so expcut=0
gives a zero exponent: alpha_norms[0] = (pi/0)**-0.75 = 0 and the overlap
(pi/(0+0))**1.5 = inf, inf * 0 = NaN.  NLDFSplinePlan builds its spline table
from that matrix without complaint and every feature it evaluates is NaN.
Expected: either a ValueError at construction (like every other invalid
parameter) or finite features.
"""
import os
import sys
import warnings

os.environ.setdefault("OMP_NUM_THREADS", "1")
sys.path.insert(0, os.path.dirname(os.path.abspath(__file__)))
import cbuild  # noqa: E402

lib = cbuild.build(["mod_cider/cider_coefs.c"])
cbuild.patch_loader(lib)

import numpy as np  # noqa: E402

from ciderpress.dft.plans import NLDFSplinePlan  # noqa: E402
from ciderpress.dft.settings import NLDFSettingsVJ  # noqa: E402

warnings.simplefilter("ignore")
st = NLDFSettingsVJ("MGGA", [1.0, 0.0, 0.03125], "one", ["se"], [[2.0, 0.0, 0.04]])
rho_data = np.zeros((5, 3))
rho_data[0] = [1e-3, 0.1, 1.0]
rho_data[4] = [1e-4, 0.05, 1.0]
f = np.ones((3, 12))

ok = True
for expcut in (1e-10, 0.0):
    try:
        plan = NLDFSplinePlan(st, 1, 0.01, 1.8, 12, alpha_formula="zexp", expcut=expcut)
    except ValueError as e:
        print("expcut=%g: rejected at construction (%s)" % (expcut, e))
        continue
    feat, dfeat = plan.eval_rho_full(f, rho_data)
    print("expcut=%g: accepted; alphas[0]=%g; features=%s" % (expcut, plan.alphas[0], feat))
    if not (np.isfinite(feat).all() and np.isfinite(dfeat).all()):
        print("FAIL: constructor accepted expcut=%g but the plan returns non-finite "
              "features for rho = %s" % (expcut, rho_data[0]))
        ok = False
print("OK" if ok else "DEFECT CONFIRMED")
sys.exit(0 if ok else 1)
