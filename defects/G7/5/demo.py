"""
C09: a call on a fresh calculator must give the answer a used calculator gives.
CiderNumInt.__init__ does not create the `timer` that nr_rks / nr_uks (and the
force drivers) use; it only appears in CiderNumInt.build(), which is called by
_CiderKS.build() (i.e. by ks.kernel()).  So the first nr_rks / nr_uks on a freshly
constructed integrator -- the usual way a PySCF NumInt is used, and what
ks.get_veff(dm=...) / ks.energy_tot(dm) do before any SCF ran -- raises
AttributeError, while the very same call succeeds after an unrelated ks.build().
(All four energy drivers are affected; nr_rks_nldf through _get_sdmx_orbs.)
"""
import os, sys
sys.path.insert(0, os.path.dirname(os.path.abspath(__file__)))
import mk  # noqa
import numpy as np
from pyscf import gto, dft
from ciderpress.pyscf.dft import make_cider_calc

mol = gto.M(atom="He 0 0 0; He 0.2 0.1 2.4", basis="6-31g", unit="Bohr", verbose=0)
k0 = dft.RKS(mol); k0.xc = "PBE"; k0.grids.level = 0; k0.kernel(); dm = k0.make_rdm1()
fail = 0
for nldf in (None, "j"):
    ml = mk.make_model("npa", nldf)
    for uks in (0, 1):
        def new():
            ks = (dft.UKS if uks else dft.RKS)(mol); ks.xc = "PBE"; ks.grids.level = 0
            return make_cider_calc(ks, ml, xmix=0.5, xkernel="GGA_X_PBE", ckernel="GGA_C_PBE")
        d = np.stack([dm * 0.5, dm * 0.5]) if uks else dm
        used = new(); used.build()
        ref = used.get_veff(mol, d)
        fresh = new()
        label = "%s, %s model" % ("UKS" if uks else "RKS", "NLDF" if nldf else "semilocal")
        try:
            v = fresh.get_veff(mol, d)
            print(label, ": fresh == used, max diff %.1e" % np.abs(v - ref).max())
        except Exception as e:
            print(label, ": expected Exc = %.8f as on the used calculator, observed %r" % (ref.exc, e))
            fail += 1
sys.exit(1 if fail else 0)
