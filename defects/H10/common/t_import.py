import sys, os
sys.path.insert(0, os.path.dirname(__file__))
import cider_env; cider_env.install()
import ciderpress.dft.plans
import ciderpress.dft.lcao_convolutions
import ciderpress.pyscf.gen_cider_grid
import ciderpress.pyscf.nldf_convolutions
import ciderpress.dft.xc_evaluator
print("ok")
