#!/usr/bin/env python3
"""MANIFEST.setup_cmd: nothing is built; verify the tools the checks need."""
import shutil, subprocess, sys, os
ok = True
if sys.version_info < (3, 9):
    print("python >= 3.9 needed for ast.unparse"); ok = False
cl = shutil.which("clang")
if not cl:
    print("clang not found"); ok = False
else:
    v = subprocess.run([cl, "--version"], capture_output=True, text=True).stdout.splitlines()[0]
    print("clang:", v)
if not os.path.isdir("/repo/ciderpress"):
    print("/repo/ciderpress missing"); ok = False
os.makedirs(os.path.join(os.path.dirname(os.path.dirname(os.path.abspath(__file__))), "evidence"), exist_ok=True)
print("setup ok" if ok else "setup FAILED")
sys.exit(0 if ok else 1)
