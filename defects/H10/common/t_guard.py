import sys, os, traceback
sys.path.insert(0, os.path.dirname(__file__))
import cider_env; cider_env.install()
import numpy as np
from ciderpress.dft.plans import NLDFGaussianPlan, NLDFSplinePlan
from ciderpress.dft.settings import *
th=[1.0,0.0,0.03]
rho = np.array([1e-12, 1e-3, 1.0, 50.0]); sigma = np.zeros(4); tau = 0.3*(3*np.pi**2)**(2/3)*rho**(5/3)
for cls in [NLDFGaussianPlan, NLDFSplinePlan]:
  for af in ["etb","zexp"]:
    for nspin in [1,2]:
      for s in [NLDFSettingsVJ("MGGA", th, "one", ["se"], [[2.,0.,0.04]]), NLDFSettingsVK("MGGA", th, "one", [[2.,0.,0.04]], "exponential"), NLDFSettingsVJ("GGA", th[:2], "one", ["se"], [[2.,0.]])]:
        plan = cls(s, nspin, 0.01, 2.0, 10, alpha_formula=af)
        amax = plan.alphas.max()
        rt = (rho, sigma, tau) if s.sl_level=="MGGA" else (rho, sigma)
        for i in [-1, 0]:
            a = None
            try:
                plan2 = cls(s, nspin, 0.01, 2.0, 10, alpha_formula=af, raise_large_expnt_error=False)
                a = plan2.eval_feat_exp(rt, i=i)[0]
                arg = plan2.get_interpolation_arguments(rt, i=i)[0]
                raised = False
                try: plan.get_interpolation_arguments(rt, i=i)
                except RuntimeError: raised = True
                should = a.max() > amax
                if raised != should: print("MISMATCH", cls.__name__, af, nspin, s.version, s.sl_level, i, a.max(), amax, raised)
            except Exception as e:
                print("EXC", cls.__name__, af, nspin, s.version, i, repr(e))
print("done")
