"""Batch-index discipline (DESIGN §C09-1, shared with C01-5 and C17-3).

For one integrator-like function the engine discovers

  * the batch-size symbol: the name bound to the 2nd result of
    ``<ni>._gen_rho_evaluator(mol, dm, ...)`` (``nset`` today; found through the
    call, not through the spelling),
  * the batch callables (``make_rho``: 1st result of that call; their first
    argument is the batch element),
  * the batch-indexed arrays: names bound to ``np.zeros/empty/ones/full`` whose
    shape mentions the symbol (-> axis), ``np.zeros_like`` of such an array,
    list comprehensions over ``range(sym)``, lists appended to inside a batch
    loop, and the density-matrix argument handed to ``_gen_rho_evaluator``,
  * the batch loops: ``for k in range(sym)`` and ``for k, ... in gen(...)`` where
    ``gen`` is a generator defined in the same function whose ``yield`` tuple
    carries, at that position, the induction variable of a batch loop that
    encloses the ``yield``.

and then classifies the index found at the batch axis of every subscript of a
batch array (and the first argument of every batch callable).

Pure ast; nothing is executed.
"""
import ast

from sa import cfg as cfgm
from sa import pyfacts as pf
from sa.core import AnalysisError

ALLOC = {"np.zeros", "np.empty", "np.ones", "np.full", "numpy.zeros", "numpy.empty", "numpy.ones", "numpy.full"}
ALLOC_LIKE = {"np.zeros_like", "np.empty_like", "np.ones_like", "numpy.zeros_like", "numpy.empty_like",
              "numpy.ones_like"}


def _names(node):
    return {n.id for n in ast.walk(node) if isinstance(n, ast.Name)}


def _target_names(t):
    return [n.id for n in ast.walk(t) if isinstance(n, ast.Name)]


def _ancestors(node):
    n = pf.parent(node)
    while n is not None:
        yield n
        n = pf.parent(n)


def stmt_of(node):
    n = node
    while n is not None and not isinstance(n, ast.stmt):
        n = pf.parent(n)
    return n


def head_text(st):
    """One-line, reformat-stable text of a statement (header only for compound statements)."""
    if isinstance(st, (ast.For, ast.AsyncFor)):
        return "for %s in %s" % (pf.src(st.target), pf.src(st.iter))
    if isinstance(st, (ast.If, ast.While)):
        return "%s %s" % ("if" if isinstance(st, ast.If) else "while", pf.src(st.test))
    if isinstance(st, (ast.With, ast.AsyncWith)):
        return "with " + ", ".join(pf.src(i) for i in st.items)
    return pf.src(st)


class Use:
    """One classified index."""

    def __init__(self, kind, node, array, index, verdict, why, loopvars=()):
        self.kind = kind  # 'array' | 'callable'
        self.node = node  # Subscript or Call
        self.array = array
        self.index = index  # ast node or None
        self.verdict = verdict  # 'ok' | 'trivial' | 'stale' | 'literal' | 'unbound' | 'undecided' | 'guarded-literal'
        self.why = why
        self.loopvars = tuple(sorted(loopvars))

    @property
    def text(self):
        return pf.src(self.node) if self.kind == "array" else "%s(%s, ...)" % (
            pf.src(self.node.func), pf.src(self.node.args[0]) if self.node.args else "")

    @property
    def construct(self):
        st = stmt_of(self.node)
        return "%s @ %s" % (self.text, head_text(st) if st is not None else "")


class BatchFunction:
    def __init__(self, fn, rel, require_symbol=True):
        self.fn = fn
        self.rel = rel
        self.sym = None
        self.callables = set()
        self.dm_args = set()
        self.arrays = {}  # name -> axis
        self.uses = []
        self.nested = []  # (outer For, inner For, reason)
        self.loops = []  # (For node, set(induction vars), kind)
        self._gen_cache = {}
        self._discover_symbol()
        if self.sym is None:
            if require_symbol:
                raise AnalysisError("%s:%s: no `_gen_rho_evaluator(...)` unpacking found; cannot identify the "
                                    "batch-size symbol" % (rel, fn.name))
            return
        self._discover_arrays()
        self._visit_block(fn.body, [], fn)
        for sub in ast.walk(fn):
            if isinstance(sub, (ast.FunctionDef, ast.AsyncFunctionDef)) and sub is not fn:
                self._visit_block(sub.body, [], sub)

    # -- discovery ----------------------------------------------------------
    def _discover_symbol(self):
        syms = set()
        for n in ast.walk(self.fn):
            if not isinstance(n, ast.Assign) or len(n.targets) != 1:
                continue
            v = n.value
            call, sl = None, None
            if isinstance(v, ast.Call):
                call = v
            elif isinstance(v, ast.Subscript) and isinstance(v.value, ast.Call):
                call, sl = v.value, v.slice
            if call is None or not isinstance(call.func, ast.Attribute) or call.func.attr != "_gen_rho_evaluator":
                continue
            if len(call.args) > 1 and isinstance(call.args[1], ast.Name):
                self.dm_args.add(call.args[1].id)
            t = n.targets[0]
            if sl is None or (isinstance(sl, ast.Slice) and sl.lower is None):
                if not isinstance(t, (ast.Tuple, ast.List)):
                    raise AnalysisError("%s:%s: unrecognised unpacking of _gen_rho_evaluator: %s" % (
                        self.rel, self.fn.name, pf.src(n)))
                el = t.elts
                if el and isinstance(el[0], ast.Name):
                    self.callables.add(el[0].id)
                if len(el) > 1 and isinstance(el[1], ast.Name):
                    syms.add(el[1].id)
            elif isinstance(sl, ast.Constant) and sl.value == 0:
                if isinstance(t, ast.Name):
                    self.callables.add(t.id)
            elif isinstance(sl, ast.Constant) and sl.value == 1:
                if isinstance(t, ast.Name):
                    syms.add(t.id)
            else:
                raise AnalysisError("%s:%s: unrecognised use of _gen_rho_evaluator: %s" % (
                    self.rel, self.fn.name, pf.src(n)))
        if len(syms) > 1:
            raise AnalysisError("%s:%s: several batch-size symbols %s" % (self.rel, self.fn.name, sorted(syms)))
        if syms:
            self.sym = syms.pop()
            # the symbol must have a single binding, else guards on it are meaningless
            binds = 0
            for n in ast.walk(self.fn):
                if isinstance(n, ast.Name) and n.id == self.sym and isinstance(n.ctx, ast.Store):
                    binds += 1
            if binds != 1:
                raise AnalysisError("%s:%s: batch-size symbol %r is bound %d times" % (
                    self.rel, self.fn.name, self.sym, binds))

    def _shape_axis(self, shape):
        elts = shape.elts if isinstance(shape, (ast.Tuple, ast.List)) else [shape]
        for ax, e in enumerate(elts):
            if isinstance(e, ast.Name) and e.id == self.sym:
                return ax
        return None

    def _discover_arrays(self):
        changed = True
        for d in self.dm_args:
            self.arrays[d] = 0
        while changed:
            changed = False
            for n in ast.walk(self.fn):
                if not (isinstance(n, ast.Assign) and len(n.targets) == 1 and isinstance(n.targets[0], ast.Name)):
                    continue
                name, v = n.targets[0].id, n.value
                ax = None
                cn = pf.call_name(v)
                if cn in ALLOC and v.args:
                    ax = self._shape_axis(v.args[0])
                elif cn in ALLOC_LIKE and v.args and isinstance(v.args[0], ast.Name) and v.args[0].id in self.arrays:
                    ax = self.arrays[v.args[0].id]
                elif isinstance(v, ast.ListComp) and len(v.generators) == 1 and self._is_range_sym(v.generators[0].iter):
                    ax = 0
                elif isinstance(v, ast.List) and not v.elts and self._appended_in_batch_loop(name):
                    ax = 0
                if ax is not None and self.arrays.get(name) != ax:
                    if name in self.arrays and name not in self.dm_args:
                        raise AnalysisError("%s:%s: array %r allocated with the batch axis at two positions" % (
                            self.rel, self.fn.name, name))
                    self.arrays[name] = ax
                    changed = True

    def _is_range_sym(self, it):
        return (isinstance(it, ast.Call) and pf.call_name(it) == "range" and len(it.args) == 1
                and isinstance(it.args[0], ast.Name) and it.args[0].id == self.sym)

    def _appended_in_batch_loop(self, name):
        for n in ast.walk(self.fn):
            if isinstance(n, ast.Call) and isinstance(n.func, ast.Attribute) and n.func.attr == "append" \
                    and isinstance(n.func.value, ast.Name) and n.func.value.id == name:
                p = pf.parent(n)
                while p is not None and p is not self.fn:
                    if isinstance(p, ast.For) and self._is_range_sym(p.iter):
                        return True
                    p = pf.parent(p)
        return False

    # -- loops --------------------------------------------------------------
    def _generator_positions(self, gen):
        """positions of the yield tuple that carry a batch induction variable of a loop enclosing the yield"""
        if id(gen) in self._gen_cache:
            return self._gen_cache[id(gen)]
        pos_sets = []
        for n in pf.walk_no_nested(gen):
            if isinstance(n, ast.Yield) and n.value is not None:
                elts = n.value.elts if isinstance(n.value, ast.Tuple) else [n.value]
                encl = set()
                p = pf.parent(n)
                while p is not None and p is not gen:
                    if isinstance(p, ast.For):
                        encl |= self.induction_vars(p, gen)
                    p = pf.parent(p)
                pos_sets.append({k for k, e in enumerate(elts) if isinstance(e, ast.Name) and e.id in encl})
        res = set.intersection(*pos_sets) if pos_sets else set()
        if pos_sets and any(ps != res for ps in pos_sets):
            raise AnalysisError("%s:%s: generator %s yields the batch index at differing positions" % (
                self.rel, self.fn.name, gen.name))
        self._gen_cache[id(gen)] = res
        return res

    def _local_generator(self, name):
        for n in ast.walk(self.fn):
            if isinstance(n, (ast.FunctionDef, ast.AsyncFunctionDef)) and n is not self.fn and n.name == name:
                if any(isinstance(y, (ast.Yield, ast.YieldFrom)) for y in pf.walk_no_nested(n)):
                    return n
        return None

    def induction_vars(self, loop, scope=None):
        """set of names that hold the batch element inside `loop`'s body (empty: not a batch loop)"""
        if self._is_range_sym(loop.iter):
            return {loop.target.id} if isinstance(loop.target, ast.Name) else set()
        it = loop.iter
        if isinstance(it, ast.Call) and isinstance(it.func, ast.Name):
            gen = self._local_generator(it.func.id)
            if gen is not None:
                pos = self._generator_positions(gen)
                tg = loop.target.elts if isinstance(loop.target, (ast.Tuple, ast.List)) else [loop.target]
                return {tg[k].id for k in pos if k < len(tg) and isinstance(tg[k], ast.Name)}
        return set()

    # -- traversal ----------------------------------------------------------
    def _visit_block(self, stmts, stack, scope):
        for st in stmts:
            self._visit(st, stack, scope)

    def _visit(self, node, stack, scope):
        if isinstance(node, (ast.FunctionDef, ast.AsyncFunctionDef, ast.Lambda, ast.ClassDef)):
            return  # separate scope, visited on its own
        if isinstance(node, (ast.For, ast.AsyncFor)):
            self._visit(node.iter, stack, scope)
            iv = self.induction_vars(node, scope)
            if iv:
                self.loops.append((node, iv, "range" if self._is_range_sym(node.iter) else "generator"))
                for outer, oiv in stack:
                    self._check_nested(outer, oiv, node, iv)
                inner = stack + [(node, iv)]
            else:
                inner = stack
            for st in node.body:
                self._visit(st, inner, scope)
            for st in node.orelse:
                self._visit(st, stack, scope)
            return
        if isinstance(node, ast.Subscript) and isinstance(node.value, ast.Name) and node.value.id in self.arrays:
            self._classify_subscript(node, stack, scope)
        if isinstance(node, ast.Call) and isinstance(node.func, ast.Name) and node.func.id in self.callables \
                and node.args:
            self._classify_index("callable", node, node.func.id, node.args[0], stack, scope)
        if isinstance(node, (ast.ListComp, ast.GeneratorExp, ast.SetComp, ast.DictComp)):
            # comprehension scope: its own `for` clauses
            cstack = list(stack)
            for g in node.generators:
                self._visit(g.iter, cstack, scope)
                if self._is_range_sym(g.iter) and isinstance(g.target, ast.Name):
                    cstack = cstack + [(g, {g.target.id})]
                for c in g.ifs:
                    self._visit(c, cstack, scope)
            for part in ([node.elt] if not isinstance(node, ast.DictComp) else [node.key, node.value]):
                self._visit(part, cstack, scope)
            return
        for ch in ast.iter_child_nodes(node):
            self._visit(ch, stack, scope)

    def _check_nested(self, outer, oiv, inner, iiv):
        used = set()
        for st in inner.body:
            used |= _names(st)
        if used & oiv:
            return  # the inner body depends on the outer element: a genuine double loop
        hits = []
        for st in inner.body:
            for n in ast.walk(st):
                tgt = None
                if isinstance(n, ast.Assign):
                    tgt = n.targets
                elif isinstance(n, ast.AugAssign):
                    tgt = [n.target]
                elif isinstance(n, ast.Call):
                    tgt = list(n.args) + [k.value for k in n.keywords]
                    if not isinstance(pf.parent(n), ast.Expr):
                        tgt = []  # value-returning call: not an in-place accumulation by itself
                for t in tgt or []:
                    for s in ast.walk(t):
                        if isinstance(s, ast.Subscript) and isinstance(s.value, ast.Name) and s.value.id in self.arrays:
                            if _names(s.slice) & iiv:
                                hits.append(stmt_of(s))
        if hits:
            self.nested.append((outer, inner, hits[0]))

    def _axis_index(self, sub, axis):
        sl = sub.slice
        idx = list(sl.elts) if isinstance(sl, ast.Tuple) else [sl]
        for k, e in enumerate(idx):
            if isinstance(e, ast.Constant) and e.value is Ellipsis:
                if k <= axis:
                    return None  # the ellipsis may cover the batch axis: full
                break
            if isinstance(e, ast.Constant) and e.value is None:
                return "newaxis"
        if axis < len(idx):
            return idx[axis]
        return None

    def _classify_subscript(self, sub, stack, scope):
        axis = self.arrays[sub.value.id]
        e = self._axis_index(sub, axis)
        if e == "newaxis":
            return
        if e is None or (isinstance(e, ast.Slice) and e.lower is None and e.upper is None and e.step is None):
            self.uses.append(Use("array", sub, sub.value.id, e, "trivial", "whole batch axis"))
            return
        self._classify_index("array", sub, sub.value.id, e, stack, scope)

    def _alias_of_induction(self, name, stack, at):
        """`name` is (re)bound inside the innermost enclosing batch loop body as a plain copy of an induction var"""
        for loop, iv in reversed(stack):
            if not isinstance(loop, ast.For):
                continue
            for n in ast.walk(loop):
                if isinstance(n, ast.Assign) and len(n.targets) == 1 and isinstance(n.targets[0], ast.Name) \
                        and n.targets[0].id == name and isinstance(n.value, ast.Name) and n.value.id in iv:
                    # every binding of `name` inside this loop must be such a copy
                    others = [m for m in ast.walk(loop) if isinstance(m, ast.Name) and m.id == name
                              and isinstance(m.ctx, ast.Store)]
                    if all(isinstance(pf.parent(m), ast.Assign) and isinstance(pf.parent(m).value, ast.Name)
                           and pf.parent(m).value.id in iv for m in others):
                        return True
        return False

    def _classify_index(self, kind, node, array, e, stack, scope):
        live = set()
        for _, iv in stack:
            live |= iv
        if isinstance(e, ast.Name):
            if e.id in live or self._alias_of_induction(e.id, stack, node):
                self.uses.append(Use(kind, node, array, e, "ok", "induction variable of an enclosing batch loop", live))
                return
            # where else is it bound in this scope?
            binders = []
            for n in pf.walk_no_nested(scope):
                if isinstance(n, (ast.For, ast.AsyncFor)) and e.id in _target_names(n.target):
                    binders.append(n)
            enclosing = [b for b in binders if any(a is b for a in _ancestors(node))]
            if enclosing:
                self.uses.append(Use(kind, node, array, e, "undecided",
                                     "index %r is the variable of an enclosing loop that is not a recognised batch "
                                     "loop (`for %s in %s`); not decided" % (
                                         e.id, pf.src(enclosing[0].target), pf.src(enclosing[0].iter)), live))
                return
            if binders:
                binders.sort(key=lambda b: b.lineno)
                before = [b for b in binders if b.lineno < node.lineno]
                b = before[-1] if before else binders[0]
                self.uses.append(Use(kind, node, array, e, "stale",
                                     "index %r is the target of the loop `for %s in %s` which does not enclose this "
                                     "use (after that loop it holds the last element only); enclosing batch "
                                     "variable(s): %s" % (e.id, pf.src(b.target), pf.src(b.iter), sorted(live) or "none"),
                                     live))
                return
            bound = any(isinstance(n, ast.Name) and n.id == e.id and isinstance(n.ctx, ast.Store)
                        for n in pf.walk_no_nested(scope))
            params = {a.arg for a in scope.args.args + scope.args.kwonlyargs} if hasattr(scope, "args") else set()
            if not bound and e.id not in params:
                # comprehension targets leak nothing in py3; a name only bound there or in a nested def is unbound here
                self.uses.append(Use(kind, node, array, e, "unbound",
                                     "index %r is not bound in this scope (it is only a comprehension / nested "
                                     "generator variable); enclosing batch variable(s): %s" % (e.id, sorted(live) or "none"),
                                     live))
                return
            self.uses.append(Use(kind, node, array, e, "undecided", "index %r is computed; not decided" % e.id, live))
            return
        if isinstance(e, ast.Constant) and isinstance(e.value, int) and not isinstance(e.value, bool):
            g = self.unbatched_guard(node)
            if g:
                self.uses.append(Use(kind, node, array, e, "guarded-literal", g, live))
            else:
                self.uses.append(Use(kind, node, array, e, "literal",
                                     "literal batch index %r is not protected by `%s == 1` / `%s != 1: raise` / an "
                                     "is_2d-style flag" % (e.value, self.sym, self.sym), live))
            return
        self.uses.append(Use(kind, node, array, e, "undecided", "index expression %s not decided" % pf.src(e), live))

    # -- un-batching idioms -------------------------------------------------
    def _conjuncts(self, test, pol):
        if pol and isinstance(test, ast.BoolOp) and isinstance(test.op, ast.And):
            out = []
            for v in test.values:
                out += self._conjuncts(v, True)
            return out
        if not pol and isinstance(test, ast.BoolOp) and isinstance(test.op, ast.Or):
            out = []
            for v in test.values:
                out += self._conjuncts(v, False)
            return out
        if isinstance(test, ast.UnaryOp) and isinstance(test.op, ast.Not):
            return self._conjuncts(test.operand, not pol)
        return [(test, pol)]

    def _is_sym_eq1(self, t, pol):
        if isinstance(t, ast.Compare) and len(t.ops) == 1 and isinstance(t.left, ast.Name) and t.left.id == self.sym \
                and isinstance(t.comparators[0], ast.Constant) and t.comparators[0].value == 1:
            if isinstance(t.ops[0], ast.Eq) and pol:
                return True
            if isinstance(t.ops[0], ast.NotEq) and not pol:
                return True
        return False

    def _is_ndim2(self, t, pol):
        """<dm>.ndim == 2 for a density matrix handed to _gen_rho_evaluator (=> one batch element)"""
        return (pol and isinstance(t, ast.Compare) and len(t.ops) == 1 and isinstance(t.ops[0], ast.Eq)
                and isinstance(t.left, ast.Attribute) and t.left.attr == "ndim"
                and isinstance(t.left.value, ast.Name) and t.left.value.id in self.dm_args
                and isinstance(t.comparators[0], ast.Constant) and t.comparators[0].value == 2)

    def _is_flag(self, t, pol):
        if not (pol and isinstance(t, ast.Name)):
            return False
        trues = falses = 0
        for n in pf.walk_no_nested(self.fn):
            if isinstance(n, ast.Assign) and any(isinstance(x, ast.Name) and x.id == t.id for x in n.targets):
                if isinstance(n.value, ast.Constant) and n.value.value is True:
                    conds = []
                    for c, p, _k in cfgm.conditions_at(n):
                        conds += self._conjuncts(c, p)
                    if not any(self._is_ndim2(c, p) for c, p in conds):
                        return False
                    trues += 1
                elif isinstance(n.value, ast.Constant) and n.value.value is False:
                    falses += 1
                else:
                    return False
        return trues >= 1

    def unbatched_guard(self, node):
        for c, p, kind in cfgm.conditions_at(node):
            for t, pol in self._conjuncts(c, p):
                if self._is_sym_eq1(t, pol):
                    return "guarded by `%s` (%s)" % (pf.src(c), kind)
                if self._is_flag(t, pol):
                    return "guarded by the 2-D flag `%s` (%s)" % (pf.src(t), kind)
                if self._is_ndim2(t, pol):
                    return "guarded by `%s` (%s)" % (pf.src(c), kind)
        return None


def report(chk, rule, bf, note_rule=None):
    """Turn the classified uses of one function into obligations / findings."""
    fn, rel = bf.fn, bf.rel
    for u in bf.uses:
        inst = "%s:%s %s" % (rel, fn.name, u.construct)
        if u.verdict == "trivial":
            chk.ok(rule, inst, nontrivial=False)
        elif u.verdict in ("ok", "guarded-literal"):
            chk.ok(rule, inst, detail=u.why)
        elif u.verdict in ("stale", "unbound") or (u.verdict == "literal" and u.kind == "array"):
            chk.violation(rule, rel, fn.name, u.construct, u.node.lineno,
                          "batch-indexed %s %r (batch axis %s, batch size %r): %s" % (
                              "array" if u.kind == "array" else "callable", u.array,
                              bf.arrays.get(u.array, 0), bf.sym, u.why), instance=inst)
        else:
            chk.ok(rule, inst + " (not decided)", nontrivial=False)
            chk.note(note_rule or rule, "%s:%s:%s" % (rel, fn.name, u.node.lineno), "%s -- %s" % (u.text, u.why))
    for outer, inner, hit in bf.nested:
        construct = "for %s in %s / for %s in %s" % (pf.src(outer.target), pf.src(outer.iter),
                                                   pf.src(inner.target), pf.src(inner.iter))
        chk.violation(rule, rel, fn.name, construct, inner.lineno,
                      "a loop over the whole batch is nested in a loop that already runs once per batch element, "
                      "and its body (e.g. `%s`) does not use the outer element %s: every accumulation into the "
                      "batch arrays is repeated %s times" % (
                          head_text(hit)[:80], sorted(bf.induction_vars(outer)), bf.sym),
                      instance="%s:%s nested %s" % (rel, fn.name, construct))
