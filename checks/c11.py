#!/usr/bin/env python3
"""C11 -- mapped (fast) evaluators reproduce the Gaussian-process predictive function.
Static rules (DESIGN.md §C11; the units version of rule 1 is replaced by a structural one):

 k0-factor         for every DiffAdditiveMixin kernel, the per-dimension factor returned by
                   get_k0_for_mapping(X, Y, lscale) has the same polynomial normal form over
                   (X, Y, length scale, alpha) as the k0 of _get_k0_dk0_eval and _get_k0_dk0_train
                   (locals inlined, broadcasting indexes dropped, products/small powers expanded)
 rbf-extract       RBFEvaluator: no local of the index/length-scale/scale extraction can be read
                   unbound (CFG); `_exps` has the normal form 1/2 * length_scale**-2, which is what the
                   C kernel's quadratic form exps[j]*tmp*tmp needs to equal sklearn's RBF
 dispatch-total    get_mapped_gp_evaluator_additive: every kernel class it accepts is served by a
                   non-raising arm of the k0 ladder, and the arm's get_k0_for_mapping does not
                   resolve to the abstract base that raises NotImplementedError
 spline-accumulate SplineSetEvaluator.__call__ adds `const` exactly once on every path, accumulates each
                   term with +=, into the same columns it read, with the same scale for value and gradient
 scale-order       arbf_args lays the per-term scales out as [s0] + [s1]*C(n,1) + [s2]*C(n,2) + .. (repeat
                   counts folded for n = 1..8), the mapper enumerates index sets by ascending size with
                   itertools.combinations, and its constant-index reads of `scale` (scale[0] for the
                   empty index set) are reached only by the arbf_args definition (reaching definitions),
                   never by a shifted slice of it
 grad-pairing      C kernels (clang AST, symbolic): a factor F = .. * exp(-(se(x1,c1) + se(x2,c2) ..)) has
                   exponent terms {(x_k, c_k)}; each add_deriv(g, x, c, exps, F) must differentiate one of
                   F's own terms, g must address the same channel/point as x, and every term of a factor
                   accumulated into `out` must be differentiated.  Kernels not bound to an evaluator
                   class (evaluate_se_kernel_spin_v2) are read too, deviations there are notes
"""
import ast
import os
import sys

sys.path.insert(0, os.path.dirname(os.path.dirname(os.path.abspath(__file__))))
from sa import core, pyfacts as pf, cfg as cfgm, cfacts, evalrules as er, exprnorm as en, hinline  # noqa: E402
from sa.selftest import Mutant  # noqa: E402

PROP = "C11"
KN = "ciderpress/models/kernels.py"
MT = "ciderpress/models/kernel_plans/map_tools.py"
XE = "ciderpress/dft/xc_evaluator.py"
MU_C = "mod_cider/model_utils.c"
MU_C_REL = "ciderpress/lib/mod_cider/model_utils.c"


# ----------------------------------------------------------------------------
# rule 1: the mapped factor is the kernel's factor
# ----------------------------------------------------------------------------
def k0_normal_form(fn, with_lscale):
    a = [x.arg for x in fn.args.args]
    if len(a) < (4 if with_lscale else 3):
        raise core.AnalysisError("%s: unexpected signature %s" % (pf.qualname(fn), a))
    symbols = {a[1]: "X", a[2]: "Y", "self.length_scale": "L", "self.alpha": "alpha"}
    if with_lscale:
        symbols[a[3]] = "L"
    nz = en.Normaliser(symbols, positive=("L", "alpha"))
    r = nz.run(fn.body)
    if r is None:
        raise en.NotComparable("no unconditional return")
    if not with_lscale:
        if not (isinstance(r, ast.Tuple) and len(r.elts) == 2):
            raise en.NotComparable("does not return (k0, dk0)")
        r = r.elts[0]
    return nz.expr(r)


def k0_method_names(base):
    """names of the per-dimension-factor routines of the additive mixin, found through its public methods:
    `k0, dk0 = self.<m>(X, Y, ..)` in k_and_deriv (evaluation) and in __call__ (training)"""
    out = []
    for pub in ("k_and_deriv", "__call__"):
        fn = pf.methods(base).get(pub)
        if fn is None:
            raise core.AnalysisError("DiffAdditiveMixin.%s vanished" % pub)
        hit = None
        for n in pf.walk_no_nested(fn):
            if isinstance(n, ast.Assign) and isinstance(n.targets[0], ast.Tuple) and len(n.targets[0].elts) == 2 \
                    and isinstance(n.value, ast.Call) and pf.is_self_attr(n.value.func) \
                    and (hit is None or n.lineno < hit.lineno):
                hit = n
        if hit is None:
            raise core.AnalysisError("DiffAdditiveMixin.%s no longer unpacks `k0, dk0 = self.<routine>(X, Y, ..)`" % pub)
        out.append(hit.value.func.attr)
    return out


def rule_k0_factor(chk, prog):
    mod = prog.module(KN)
    base = mod.cls("DiffAdditiveMixin")
    k0_methods = k0_method_names(base)
    seen = set()
    ncls = 0
    for m, c in prog.subclasses("DiffAdditiveMixin"):
        if c is base:
            continue
        ncls += 1
        rm = prog.find_method(m, c, "get_k0_for_mapping")
        if rm is None or rm[1] is base:
            continue  # not mappable; dispatch-total decides whether that matters
        owner = rm[1].name
        others = []
        for other in k0_methods:
            ro = prog.find_method(m, c, other)
            if ro is None or ro[1] is base:
                chk.violation("k0-factor", m.rel, c.name, "%s.%s" % (c.name, other), c.lineno,
                              "%s defines get_k0_for_mapping but %s is the abstract base" % (c.name, other))
                continue
            others.append((other, ro))
        key = (id(rm[2]),) + tuple(id(ro[2]) for _, ro in others)
        if key in seen or not others:
            continue
        seen.add(key)
        inst = "%s.get_k0_for_mapping == k0 of %s" % (owner, " and ".join(
            "%s.%s" % (ro[1].name, other) for other, ro in others))
        try:
            nf_map = k0_normal_form(rm[2], True)
            nfs = [(other, k0_normal_form(ro[2], False)) for other, ro in others]
        except en.NotComparable as ex:
            chk.ok("k0-factor", inst + " not comparable", nontrivial=False)
            chk.note("k0-factor", "%s:%s" % (m.rel, owner), "not comparable: %s" % ex)
            continue
        diff = [(other, nf) for other, nf in nfs if nf != nf_map]
        undecided = [o for o, nf in diff if not en.definitely_different(nf_map, nf)]
        if not diff:
            chk.ok("k0-factor", inst, detail=en.show(nf_map)[:200])
        elif undecided:
            chk.ok("k0-factor", inst + " not comparable", nontrivial=False)
            chk.note("k0-factor", "%s:%s" % (m.rel, owner),
                     "normal forms differ but contain non-injective opaque functions (abs/sign/sqrt/..), for which "
                     "identities exist that the normal form does not apply: mapping %s vs kernel %s" % (
                         en.show(nf_map)[:160], en.show(diff[0][1])[:160]))
        else:
            chk.violation("k0-factor", m.rel, "%s.get_k0_for_mapping" % owner,
                          pf.src(rm[2].body[0]) if rm[2].body else owner, rm[2].lineno,
                          "the per-dimension factor tabulated for the spline map differs from the factor the "
                          "kernel itself uses in %s: mapping computes  %s  but the kernel computes  %s  "
                          "(X, Y: the two inputs, L: length scale)" % (
                              " and ".join(o for o, _ in diff), en.show(nf_map)[:300], en.show(diff[0][1])[:300]),
                          instance=inst)
    chk.count("DiffAdditiveMixin subclasses", ncls)


# ----------------------------------------------------------------------------
# rule 2: RBFEvaluator extraction
# ----------------------------------------------------------------------------
def _binds(st):
    """local names bound by the CFG node's own statement/header (not by nested bodies)"""
    out = set()
    if isinstance(st, (ast.Assign, ast.AugAssign, ast.AnnAssign)):
        ts = st.targets if isinstance(st, ast.Assign) else [st.target]
        for t in ts:
            for x in ast.walk(t):
                if isinstance(x, ast.Name) and isinstance(x.ctx, ast.Store):
                    out.add(x.id)
    elif isinstance(st, (ast.For, ast.AsyncFor)):
        for x in ast.walk(st.target):
            if isinstance(x, ast.Name):
                out.add(x.id)
    elif isinstance(st, (ast.With, ast.AsyncWith)):
        for it in st.items:
            if it.optional_vars is not None:
                for x in ast.walk(it.optional_vars):
                    if isinstance(x, ast.Name):
                        out.add(x.id)
    elif isinstance(st, (ast.Import, ast.ImportFrom)):
        for al in st.names:
            out.add((al.asname or al.name).split(".")[0])
    elif isinstance(st, (ast.FunctionDef, ast.ClassDef)):
        out.add(st.name)
    elif isinstance(st, ast.ExceptHandler) and st.name:
        out.add(st.name)
    for x in ast.walk(st) if isinstance(st, (ast.Expr, ast.Assign, ast.Return, ast.If, ast.While, ast.Assert)) else ():
        if isinstance(x, ast.NamedExpr):
            out.add(x.target.id)
    return out


def _header_exprs(node):
    """expressions evaluated by a CFG node itself"""
    st = node.ast
    if node.kind == "test":
        return [st.test]
    if node.kind == "iter":
        return [st.iter]
    if node.kind == "with":
        return [it.context_expr for it in st.items]
    if node.kind == "handler":
        return []
    if isinstance(st, ast.Try):
        return []
    if isinstance(st, (ast.FunctionDef, ast.ClassDef)):
        return []
    return [st]


def _loads(expr):
    """(name, node) loaded by an expression, skipping comprehension-local names and lambdas"""
    out = []
    comp_locals = set()
    for x in ast.walk(expr):
        if isinstance(x, ast.comprehension):
            for y in ast.walk(x.target):
                if isinstance(y, ast.Name):
                    comp_locals.add(y.id)
        if isinstance(x, ast.Lambda):
            for a in x.args.args:
                comp_locals.add(a.arg)
    for x in ast.walk(expr):
        if isinstance(x, ast.Name) and isinstance(x.ctx, ast.Load) and x.id not in comp_locals:
            out.append((x.id, x))
    return out


def possibly_undefined(fn):
    """-> (checked, findings): checked = set of local names read; findings = list of
    (name, use node, cfg node) where a path from the entry reaches the use without any binding."""
    g = cfgm.CFG(fn)
    params = set(er.param_names(fn))
    locals_ = set()
    binders = {}
    for n in g.nodes:
        if n.ast is None:
            continue
        b = _binds(n.ast) if n.kind in ("stmt", "iter", "with", "handler") else set()
        if n.kind == "test":
            b = {x.target.id for x in ast.walk(n.ast.test) if isinstance(x, ast.NamedExpr)}
        for name in b:
            binders.setdefault(name, set()).add(n.id)
        locals_ |= b
    locals_ -= params
    for st in ast.walk(fn):
        if isinstance(st, (ast.Global, ast.Nonlocal)):
            locals_ -= set(st.names)
    findings, checked = [], set()
    for n in g.nodes:
        if n.ast is None:
            continue
        for ex in _header_exprs(n):
            for name, use in _loads(ex):
                if name not in locals_:
                    continue
                checked.add(name)
                blocked = binders.get(name, set()) - {n.id}
                # an augmented assignment / self-referential binding reads before it binds
                reach = g.reachable(g.entry.id, blocked=blocked)
                if n.id not in reach:
                    continue
                if n.id in binders.get(name, set()) and not isinstance(n.ast, ast.AugAssign):
                    # x = f(x): the use precedes the binding of this very statement; reaching it unbound
                    # needs a path that avoids every *other* binder, which is what `reach` says
                    pass
                # correlated guards: some binding sits under conditions that all hold at the use
                use_conds = {(pf.src(t), pol) for t, pol, k in cfgm.conditions_at(n.ast if n.kind != "handler" else use)}
                if n.kind in ("test", "iter", "with"):
                    use_conds = {(pf.src(t), pol) for t, pol, k in cfgm.conditions_at(n.ast)}
                corr = False
                for bid in binders.get(name, ()):
                    if bid == n.id:
                        continue
                    bn = g.nodes[bid]
                    bconds = {(pf.src(t), pol) for t, pol, k in cfgm.conditions_at(bn.ast) if k == "enclosing"}
                    if bconds and bconds <= use_conds:
                        corr = True
                if corr:
                    continue
                findings.append((name, use, n))
    return checked, findings


EXTRACT_FUNCS = [
    (XE, "RBFEvaluator.__init__"), (XE, "AntisymRBFEvaluator.__init__"), (XE, "SpinRBFEvaluator.__init__"),
    (XE, "RBFEvaluator.__call__"),
    (MT, "get_mapped_gp_evaluator_simple"), (MT, "get_mapped_gp_evaluator_additive"),
    (MT, "get_mapped_gp_evaluator_linear"), (MT, "project_kernel_onto_grid"),
]


def rule_rbf_extract(chk, prog, tree):
    for rel, qual in EXTRACT_FUNCS:
        fn = er.anchor(prog, rel, qual)[1]
        checked, findings = possibly_undefined(fn)
        bad = {}
        for name, use, node in findings:
            bad.setdefault(name, (use, node))
        for name in sorted(checked):
            inst = "%s local `%s` bound on every path to its reads" % (qual, name)
            if name in bad:
                use, node = bad[name]
                st = node.ast
                binds = sorted({s.lineno for s, v, k in er.assigns_to(fn, name)})
                conds = [("%s%s" % ("" if pol else "not ", pf.src(t))) for t, pol, k in cfgm.conditions_at(st)]
                chk.violation("rbf-extract", rel, qual, pf.src(st).splitlines()[0][:120], use.lineno,
                              "`%s` is read here but a path from the function entry reaches this statement without "
                              "binding it (it is bound only at line(s) %s; conditions at the read: %s): "
                              "UnboundLocalError for that input" % (name, binds, conds or "none"), instance=inst)
            else:
                chk.ok("rbf-extract", inst)
    # _exps = 0.5 / length_scale**2
    fn = er.anchor(prog, XE, "RBFEvaluator.__init__")[1]
    # the exponent array: the attribute __init__ computes from the kernel's length scale
    # (directly, or through locals that hold the length scale: converted with np.asarray, broadcast with np.full)
    ls_locals = set()
    changed = True
    while changed:
        changed = False
        for n in pf.walk_no_nested(fn):
            if isinstance(n, ast.Assign) and len(n.targets) == 1 and isinstance(n.targets[0], ast.Name) \
                    and n.targets[0].id not in ls_locals \
                    and any((isinstance(x, ast.Attribute) and x.attr == "length_scale")
                            or (isinstance(x, ast.Name) and x.id in ls_locals) for x in ast.walk(n.value)) \
                    and isinstance(n.value, ast.Call) and pf.call_name(n.value) in (
                        "np.asarray", "np.array", "np.full", "np.atleast_1d", "np.broadcast_to", "np.ascontiguousarray",
                        "np.repeat", "np.tile"):
                ls_locals.add(n.targets[0].id)
                changed = True

    def _is_ls(x):
        return (isinstance(x, ast.Attribute) and x.attr == "length_scale") or (
            isinstance(x, ast.Name) and x.id in ls_locals)
    stores = [n for n in pf.walk_no_nested(fn) if isinstance(n, ast.Assign) and len(n.targets) == 1
              and pf.is_self_attr(n.targets[0])
              and any(_is_ls(x) for x in ast.walk(n.value))
              and not any(isinstance(x, ast.Call) and pf.call_name(x) == "len" for x in ast.walk(n.value))]
    if len(stores) != 1:
        raise core.AnalysisError("RBFEvaluator.__init__: expected exactly one attribute computed from length_scale")
    exps_attr = stores[0].targets[0].attr
    # the column selection is paired POSITIONALLY with the exponent array (kernel's length-scale order): the
    # index array must not be sorted / de-duplicated / permuted on its way into the attribute used for selection
    callfn = er.anchor(prog, XE, "RBFEvaluator.__call__")[1]
    xparam = callfn.args.args[1].arg
    sel = None
    for n in pf.walk_no_nested(callfn):
        if isinstance(n, ast.Subscript) and pf.base_name(n) == xparam:
            for y in ast.walk(n.slice):
                if pf.is_self_attr(y):
                    sel = y.attr
    if sel is not None:
        # every definition of the input array that reaches the native call carries the column selection: equal
        # column COUNTS do not make the selection the identity
        inst0 = "RBFEvaluator.__call__: the inputs are gathered with self.%s on every path to the native call" % sel
        bad0 = [st_ for st_, v_, k_ in er.assigns_to(callfn, xparam)
                if v_ is not None and not any(pf.is_self_attr(y, sel) for y in ast.walk(v_))]
        if bad0:
            chk.violation("rbf-extract", XE, "RBFEvaluator.__call__", pf.src(bad0[0]).splitlines()[0][:100],
                          bad0[0].lineno,
                          "on this path `%s` reaches the native kernel without `[..., self.%s]`: the control points and "
                          "exponents are in the selected/ordered feature space, so skipping the gather is only correct "
                          "when the selection is exactly arange(n), which an equal column count does not establish"
                          % (xparam, sel), instance=inst0)
        else:
            chk.ok("rbf-extract", inst0)
    inst = "RBFEvaluator: the selection index keeps the order of the kernel's length scales"
    if sel is None:
        chk.ok("rbf-extract", inst + " (no selection)", nontrivial=False)
    else:
        REORDER = {"np.unique", "numpy.unique", "np.sort", "numpy.sort", "sorted", "np.argsort", "np.lexsort", "set",
                   "frozenset", "np.flip", "reversed", "np.random.permutation"}
        todo, seen, bad = [], set(), None
        for n in pf.walk_no_nested(fn):
            if isinstance(n, ast.Assign) and any(pf.is_self_attr(t, sel) for t in n.targets):
                todo += [x.id for x in ast.walk(n.value) if isinstance(x, ast.Name)]
                for c_ in ast.walk(n.value):
                    if isinstance(c_, ast.Call) and pf.call_name(c_) in REORDER:
                        bad = (n, c_)
        while todo:
            nm = todo.pop()
            if nm in seen or nm == "np":
                continue
            seen.add(nm)
            for st_, v_, k_ in er.assigns_to(fn, nm):
                if v_ is None:
                    continue
                for c_ in ast.walk(v_):
                    if isinstance(c_, ast.Call) and (pf.call_name(c_) in REORDER or (
                            isinstance(c_.func, ast.Attribute) and c_.func.attr == "sort")):
                        bad = bad or (st_, c_)
                if isinstance(v_, ast.Name):
                    todo.append(v_.id)
                elif isinstance(v_, ast.Call) and v_.args and isinstance(v_.args[0], ast.Name) \
                        and pf.call_name(v_) in ("np.array", "np.asarray", "np.ascontiguousarray", "list", "np.unique",
                                                 "np.sort", "sorted"):
                    todo.append(v_.args[0].id)
            for st_ in pf.walk_no_nested(fn):
                if isinstance(st_, ast.Expr) and isinstance(st_.value, ast.Call) \
                        and isinstance(st_.value.func, ast.Attribute) and st_.value.func.attr == "sort" \
                        and pf.base_name(st_.value.func.value) == nm:
                    bad = bad or (st_, st_.value)
        if bad:
            st_, c_ = bad
            chk.violation("rbf-extract", XE, "RBFEvaluator.__init__", pf.src(st_).splitlines()[0][:110], st_.lineno,
                          "`%s` re-orders the index array that selects the input columns (self.%s), while the exponent "
                          "array self.%s stays in the order of the kernel's length scales: for a subset that is not "
                          "ascending and duplicate-free the exponents are attached to the wrong columns"
                          % (pf.src(c_)[:60], sel, exps_attr), instance=inst)
        else:
            chk.ok("rbf-extract", inst, detail="self.%s <- %s" % (sel, sorted(seen)))
    v = stores[0].value
    while isinstance(v, ast.Call) and pf.call_name(v) in ("np.ascontiguousarray", "np.asarray", "np.array") and v.args:
        v = v.args[0]
    lsc = [pf.src(n) for n in ast.walk(v) if _is_ls(n)]
    if not lsc:
        raise core.AnalysisError("the exponent array is not computed from a length_scale: %s" % pf.src(v))
    nz = en.Normaliser({x: "L" for x in lsc})
    # one exponent per selected feature: the native kernel reads exps[j] for every j < nfeat (nfeat = columns of
    # the control points = len(<selection index>)).  An anisotropic length scale is guarded by a raising length
    # comparison; an isotropic (scalar / size-1) one -- sklearn's default -- must be broadcast to len(index).
    if sel is not None:
        iloc = None
        for n in pf.walk_no_nested(fn):
            if isinstance(n, ast.Assign) and any(pf.is_self_attr(t, sel) for t in n.targets):
                nm = [x.id for x in ast.walk(n.value) if isinstance(x, ast.Name) and x.id != "np"]
                iloc = nm[0] if nm else None
        inst2 = "RBFEvaluator: the exponent array has one entry per selected feature"
        if iloc is None:
            raise core.AnalysisError("RBFEvaluator.__init__: local stored in self.%s not found" % sel)

        def len_of_index(e):
            return isinstance(e, ast.Call) and pf.call_name(e) == "len" and e.args and pf.src(e.args[0]) == iloc
        broadcast = any(isinstance(n, ast.Assign) and isinstance(n.value, ast.Call)
                        and pf.call_name(n.value) in ("np.full", "np.broadcast_to", "np.repeat", "np.tile")
                        and any(len_of_index(x) for x in ast.walk(n.value))
                        and any(_is_ls(x) for x in ast.walk(n.value))
                        and isinstance(n.targets[0], ast.Name) and n.targets[0].id in ls_locals
                        for n in pf.walk_no_nested(fn))
        guard = any(isinstance(n, ast.If) and cfgm._raises(n.body)
                    and any(len_of_index(x) for x in ast.walk(n.test))
                    and any(isinstance(x, ast.Call) and pf.call_name(x) == "len" and x.args and _is_ls(x.args[0])
                            for x in ast.walk(n.test))
                    for n in pf.walk_no_nested(fn))
        if broadcast:
            chk.ok("rbf-extract", inst2, detail="broadcast to len(%s)%s" % (iloc, " + raising length guard" if guard else ""))
        else:
            chk.violation("rbf-extract", XE, "RBFEvaluator.__init__", pf.src(stores[0]), stores[0].lineno,
                          "self.%s gets one entry per element of the kernel's length scale, but the native kernel reads "
                          "exps[j] for every j < nfeat = len(%s): an isotropic (scalar or one-element) length scale -- "
                          "sklearn's default -- is never broadcast to len(%s), so C reads past the end of the array"
                          % (exps_attr, iloc, iloc), instance=inst2)
    inst = "RBFEvaluator exponent array == 1/2 * L**-2"
    try:
        nf = nz.expr(v)
    except en.NotComparable as ex:
        raise core.AnalysisError("cannot normalise `%s`: %s" % (pf.src(v), ex))
    want = en.mul(en.const("1/2"), en.power(en.sym("L"), en.const(-2)))
    if nf == want:
        chk.ok("rbf-extract", inst, detail=pf.src(stores[0]))
    else:
        chk.violation("rbf-extract", XE, "RBFEvaluator.__init__", pf.src(stores[0]), stores[0].lineno,
                      "the C kernel evaluates exp(-sum_j exps[j]*(x_j-c_j)**2); to equal the RBF kernel "
                      "exp(-1/2 sum_j ((x_j-c_j)/L_j)**2) exps must be 1/2*L^-2, found %s" % en.show(nf),
                      instance=inst)
    # C side: the quadratic form
    nb = er.native_binding(prog.module(XE), prog.module(XE).cls("RBFEvaluator"))
    if nb is None:
        raise core.AnalysisError("RBFEvaluator binds no native function (<attr> = <lib>.<function>)")
    call = [n for n in pf.walk_no_nested(er.anchor(prog, XE, "RBFEvaluator.__call__")[1])
            if isinstance(n, ast.Call) and pf.is_self_attr(n.func, nb[0])]
    if len(call) != 1:
        raise core.AnalysisError("RBFEvaluator.__call__: native call not found")
    idx = [i for i, a in enumerate(call[0].args) if any(pf.is_self_attr(x, exps_attr) for x in ast.walk(a))]
    if len(idx) != 1:
        raise core.AnalysisError("self.%s is not passed exactly once to the native kernel" % exps_attr)
    tu = cfacts.TU(tree, MU_C)
    cfn = nb[1]
    params = tu.params(cfn)
    if idx[0] >= len(params):
        raise core.AnalysisError("%s has fewer parameters than the ctypes call" % cfn)
    pid = params[idx[0]]["id"]
    # follow exps into the helper that forms the exponent
    target = None
    for n in cfacts.walk(tu.body(cfn)):
        if n.get("kind") == "CallExpr":
            ks = cfacts.kids(n)
            callee = (cfacts.strip(ks[0]).get("referencedDecl") or {}).get("name")
            for i, a in enumerate(ks[1:]):
                refs = er._decl_refs(a)
                if pid in refs and callee in tu.funcs:
                    cps = tu.params(callee)
                    # the helper that *reads* exps into a scalar it returns (not the gradient helper)
                    if tu.func(callee).get("type", {}).get("qualType", "").startswith("double"):
                        target = (callee, cps[i]["id"], cps[i]["name"])
    if target is None:
        raise core.AnalysisError("%s: no double-valued helper receives the exps argument" % cfn)
    helper, hid, hname = target
    # structural match: an accumulation  acc += exps[j] * D * D  where D is one and the same difference of two
    # array elements (a scalar local initialised/assigned to it, or the difference written out twice), whatever
    # the locals are called and however they are qualified
    ok_quad = False
    hbody = tu.body(helper)
    diff_vars = set()
    for n in cfacts.walk(hbody):
        init = None
        if n.get("kind") == "VarDecl" and "*" not in n.get("type", {}).get("qualType", "") and cfacts.kids(n):
            init, vid = cfacts.strip(cfacts.kids(n)[0]), n["id"]
        elif n.get("kind") == "BinaryOperator" and n.get("opcode") == "=":
            l_, r_ = cfacts.kids(n)
            l_ = cfacts.strip(l_)
            if l_.get("kind") == "DeclRefExpr":
                init, vid = cfacts.strip(r_), l_["referencedDecl"]["id"]
        if init is not None and init.get("kind") == "BinaryOperator" and init.get("opcode") == "-" \
                and all(cfacts.strip(k_).get("kind") == "ArraySubscriptExpr" for k_ in cfacts.kids(init)):
            diff_vars.add(vid)

    def factors(e):
        e = cfacts.strip(e)
        if e.get("kind") == "BinaryOperator" and e.get("opcode") == "*":
            l_, r_ = cfacts.kids(e)
            return factors(l_) + factors(r_)
        return [e]
    for n in cfacts.walk(hbody):
        if n.get("kind") == "CompoundAssignOperator" and n.get("opcode") == "+=":
            fs = factors(cfacts.kids(n)[1])
            n_exps, dkeys, other = 0, [], 0
            for f_ in fs:
                if f_.get("kind") == "ArraySubscriptExpr" and er._decl_refs(cfacts.kids(f_)[0]) == [hid]:
                    n_exps += 1
                elif f_.get("kind") == "DeclRefExpr" and f_["referencedDecl"]["id"] in diff_vars:
                    dkeys.append(("v", f_["referencedDecl"]["id"]))
                elif f_.get("kind") == "BinaryOperator" and f_.get("opcode") == "-" \
                        and all(cfacts.strip(k_).get("kind") == "ArraySubscriptExpr" for k_ in cfacts.kids(f_)):
                    dkeys.append(("e", " ".join(tu.text_of(f_).split())))
                elif f_.get("kind") in ("IntegerLiteral", "FloatingLiteral"):
                    pass
                else:
                    other += 1
            if n_exps == 1 and other == 0 and len(dkeys) == 2 and dkeys[0] == dkeys[1]:
                ok_quad = True
    inst = "%s -> %s: exponent accumulates %s[j]*d*d" % (cfn, helper, hname)
    if ok_quad:
        chk.ok("rbf-extract", inst)
    else:
        raise core.AnalysisError("%s: no accumulation of the form acc += %s[j] * d * d (d one difference of two array "
                                 "elements) was recognised" % (helper, hname))


def rule_accumulate_shared(chk, tree):
    import importlib
    c04 = importlib.import_module("checks.c04")
    prog4 = pf.Program(tree, [c04.XE, c04.XE2])
    c04.rule_accumulate(chk, prog4, tree)


def mapping_function(prog, name):
    """a mapping function of map_tools.py with its private same-module helpers inlined (bounded depth), so
    that the rules keep reading one body after an "extract function" clean-up"""
    mod = prog.module(MT)
    fn = mod.func(name)
    try:
        return hinline.inline_helpers(fn, hinline.class_resolver(prog, mod, None), depth=2)
    except Exception as ex:  # the inliner is a convenience; the plain body is still analysable
        raise core.AnalysisError("cannot inline the private helpers of %s: %r" % (name, ex))


def alias_closure(fn, name):
    """names whose value `name` may simply be a copy of (x = y, and element-wise tuple assignments)"""
    seen, todo = set(), [name]
    while todo:
        x = todo.pop()
        if x in seen:
            continue
        seen.add(x)
        for st, v, k in er.assigns_to(fn, x):
            if k == "assign" and isinstance(v, ast.Name):
                todo.append(v.id)
    return seen


# ----------------------------------------------------------------------------
# rule 3: mapping dispatch
# ----------------------------------------------------------------------------
def _isinstance_classes(t, var=None):
    """isinstance(v, C) / isinstance(v, (A, B)) -> (v text, [class names]) or None"""
    if isinstance(t, tuple):  # ('not', expr) from an `if c: raise`: asserts the negation, no positive fact
        return None
    if isinstance(t, ast.Call) and pf.call_name(t) == "isinstance" and len(t.args) == 2:
        c = t.args[1]
        names = [pf.src(e) for e in c.elts] if isinstance(c, ast.Tuple) else [pf.src(c)]
        return pf.src(t.args[0]), names
    return None


def rule_dispatch(chk, prog):
    mt = prog.module(MT)
    kn = prog.module(KN)
    fn = mapping_function(prog, "get_mapped_gp_evaluator_additive")
    # the list of per-dimension factors is whatever is handed to project_kernel_onto_grid as 2nd argument;
    # the k0 ladder is the isinstance if/elif chain whose arms build that list (append loop, comprehension,
    # list(...) ...)
    klist = None
    for n in pf.walk_no_nested(fn):
        if isinstance(n, ast.Call) and pf.call_name(n) == "project_kernel_onto_grid" and len(n.args) >= 2:
            locs = {x.id for x in ast.walk(n.args[1]) if isinstance(x, ast.Name)}
            comp = {y.id for x in ast.walk(n.args[1]) if isinstance(x, ast.comprehension)
                    for y in ast.walk(x.target) if isinstance(y, ast.Name)}
            cand = [nm for nm in sorted(locs - comp) if er.assigns_to(fn, nm) and nm not in er.param_names(fn)]
            for nm in cand:
                if any(isinstance(v, (ast.List, ast.ListComp, ast.Call)) for _, v, _ in er.assigns_to(fn, nm)):
                    klist = klist or nm
    if klist is None:
        raise core.AnalysisError("get_mapped_gp_evaluator_additive: the factor list passed to "
                                 "project_kernel_onto_grid was not found")

    def builds_klist(node):
        for x in ast.walk(node):
            if isinstance(x, ast.Assign) and any(isinstance(t, ast.Name) and t.id == klist for t in x.targets):
                return True
            if isinstance(x, ast.AugAssign) and isinstance(x.target, ast.Name) and x.target.id == klist:
                return True
            if isinstance(x, ast.Call) and isinstance(x.func, ast.Attribute) and x.func.attr in ("append", "extend") \
                    and isinstance(x.func.value, ast.Name) and x.func.value.id == klist:
                return True
        return False
    ladder = None
    for n in pf.walk_no_nested(fn):
        if isinstance(n, ast.If) and _isinstance_classes(n.test) and any(builds_klist(b) for b in n.body) \
                and not (isinstance(pf.parent(n), ast.If) and n in pf.parent(n).orelse):
            ladder = n
    if ladder is None:
        raise core.AnalysisError("get_mapped_gp_evaluator_additive: no isinstance ladder builds `%s`" % klist)
    arms = []
    cur = ladder
    while True:
        ic = _isinstance_classes(cur.test)
        if ic is None:
            raise core.AnalysisError("k0 ladder arm is not an isinstance test: %s" % pf.src(cur.test))
        arms.append((ic[0], ic[1], cur.body))
        if len(cur.orelse) == 1 and isinstance(cur.orelse[0], ast.If):
            cur = cur.orelse[0]
            continue
        els = cur.orelse or None
        break
    var = arms[0][0]
    # accepted classes for `var`: isinstance tests / asserts on the names assigned to it
    accepted = []
    for n in pf.walk_no_nested(fn):
        t = er.asserted_stmt(n) if isinstance(n, (ast.Assert, ast.If)) else None
        if t is None and isinstance(n, ast.If) and n is not ladder and not builds_klist(n):
            t = n.test
        ic = _isinstance_classes(t) if t is not None else None
        if ic is None:
            continue
        who, names = ic
        # which names flow into `var`
        srcs = set()
        for nm in alias_closure(fn, var):
            srcs.add(nm)
            srcs |= {pf.src(v) for s, v, k in er.assigns_to(fn, nm) if v is not None}
        if who in srcs:
            accepted += names
    if not accepted:
        raise core.AnalysisError("no isinstance test constrains `%s` before the k0 ladder" % var)
    # concrete candidates: repo classes whose MRO contains an accepted class and that carry `indexes`
    # (the function reads arbf.indexes), i.e. have _SubsetMixin in their MRO
    # classes that carry `indexes` (the mapper reads arbf.indexes): a base class whose __init__ stores self.indexes
    index_carriers = set()
    for m0, c0 in prog.all_classes():
        init = pf.methods(c0).get("__init__")
        if init is not None and any(isinstance(n, ast.Assign) and any(pf.is_self_attr(t, "indexes") for t in n.targets)
                                    for n in pf.walk_no_nested(init)):
            index_carriers.add(c0.name)
    if not index_carriers:
        raise core.AnalysisError("no kernel class stores self.indexes")
    concrete = {}
    for m, c in prog.all_classes():
        if m.rel != KN:
            continue
        mro = [cc.name for _, cc in prog.mro(m, c)]
        if any(cc.name in index_carriers for _, cc in prog.mro(m, c)) and any(a in mro for a in accepted):
            concrete[c.name] = (m, c, mro)
    if len(concrete) < 3:
        raise core.AnalysisError("fewer than 3 subset kernel classes accepted by the additive mapper: %s" % sorted(concrete))
    base = kn.cls("DiffAdditiveMixin")
    for cname, (m, c, mro) in sorted(concrete.items()):
        inst = "get_mapped_gp_evaluator_additive serves %s" % cname
        arm = next(((names, body) for _, names, body in arms if any(x in mro for x in names)), None)
        if arm is None:
            if els is not None and cfgm._raises(els):
                chk.violation("dispatch-total", MT, "get_mapped_gp_evaluator_additive", "k0 ladder for %s" % cname,
                              ladder.lineno, "kernel class %s passes the isinstance checks at the top of the "
                              "function but no arm of the k0 ladder serves it (it reaches `%s`)" % (
                                  cname, pf.src(els[-1])), instance=inst)
            else:
                chk.violation("dispatch-total", MT, "get_mapped_gp_evaluator_additive", "k0 ladder for %s" % cname,
                              ladder.lineno, "kernel class %s is accepted but matches no arm of the k0 ladder and "
                              "nothing rejects it: k0s stays empty" % cname, instance=inst)
            continue
        names, body = arm
        calls = [n for st in body for n in ast.walk(st) if isinstance(n, ast.Call) and isinstance(n.func, ast.Attribute)
                 and pf.src(n.func.value) == var]
        bad = False
        for cl in calls:
            r = prog.find_method(m, c, cl.func.attr)
            if r is None:
                continue  # sklearn / attribute: not resolvable here
            fnr = r[2]
            if r[1] is base and er.raises_only(fnr.body):
                bad = True
                chk.violation("dispatch-total", MT, "get_mapped_gp_evaluator_additive",
                              "%s for %s" % (pf.src(cl.func), cname), cl.lineno,
                              "for kernel class %s, `%s` resolves to DiffAdditiveMixin.%s, which raises "
                              "NotImplementedError: the class is accepted by the mapper but cannot be mapped"
                              % (cname, pf.src(cl.func), cl.func.attr), instance=inst)
        if not bad:
            chk.ok("dispatch-total", inst, detail="arm isinstance(%s, %s)" % (var, "/".join(names)))
    # every admitted class must survive the branch that admits it and the ladder arm it takes
    top = [n for n in fn.body if isinstance(n, ast.If) and _isinstance_classes(n.test)]
    if top:
        t0 = top[0]
        # repo-defined instance attributes: name -> classes whose methods store self.<name>
        stored = {}
        for m0, c0 in prog.all_classes():
            for f0 in pf.methods(c0).values():
                for x in pf.walk_no_nested(f0):
                    if pf.is_self_attr(x) and isinstance(x.ctx, ast.Store):
                        stored.setdefault(x.attr, set()).add(c0.name)

        def has_attr(mod_, cls_, attr):
            for m1, c1 in prog.mro(mod_, cls_):
                if attr in pf.methods(c1) or attr in pf.class_attrs(c1) or c1.name in stored.get(attr, ()):
                    return True
            return False
        branches = []
        ic = _isinstance_classes(t0.test)
        branches.append(("the branch `if %s`" % pf.src(t0.test)[:60], ic[1], t0.body, alias_closure(fn, var) | {ic[0]}))
        for st in t0.orelse:
            a_ = er.asserted_stmt(st) if isinstance(st, (ast.Assert, ast.If)) else None
            ic2 = _isinstance_classes(a_) if a_ is not None else None
            bound_here = {var} | {y.targets[0].id for st_ in t0.orelse for y in ast.walk(st_)
                                  if isinstance(y, ast.Assign) and len(y.targets) == 1
                                  and isinstance(y.targets[0], ast.Name)
                                  and y.targets[0].id in alias_closure(fn, var)}
            if ic2 and ic2[0] in bound_here:
                branches.append(("the product branch (`%s`)" % pf.src(st)[:60], ic2[1], t0.orelse, alias_closure(fn, var)))
        for label, names, body, dnames in branches:
            for cn in names:
                rc = prog.resolve_class(kn, cn) or prog.resolve_class(mt, cn)
                if rc is None:
                    continue
                m1, c1 = rc
                mro1 = [cc.name for _, cc in prog.mro(m1, c1)]
                inst = "get_mapped_gp_evaluator_additive: an instance of %s survives %s" % (cn, label)
                problem = None
                # (i) attributes read on the dispatched kernel in the admitting branch
                for st in body:
                    for x in ast.walk(st):
                        if isinstance(x, ast.Attribute) and isinstance(x.ctx, ast.Load) and isinstance(x.value, ast.Name) \
                                and x.value.id in dnames and x.attr in stored and not has_attr(m1, c1, x.attr) \
                                and not isinstance(pf.parent(x), ast.Call):
                            problem = problem or (x, "`%s` is read, but %s (admitted by the isinstance test) has no "
                                                     "attribute `%s`; only %s define it" % (
                                                         pf.src(x), cn, x.attr, sorted(stored[x.attr])[:4]))
                # (ii) asserts in the ladder arm that contradict what the admitting branch bound
                arm = next(((nm2, b2) for _, nm2, b2 in arms if any(y in mro1 for y in nm2)), None)
                if arm is not None:
                    for st in arm[1]:
                        a_ = er.asserted_stmt(st) if isinstance(st, (ast.Assert, ast.If)) else None
                        if isinstance(a_, ast.Compare) and isinstance(a_.ops[0], ast.Is) and isinstance(a_.left, ast.Name) \
                                and isinstance(a_.comparators[0], ast.Constant) and a_.comparators[0].value is None:
                            al = alias_closure(fn, a_.left.id)
                            for st2 in body:
                                for y in ast.walk(st2):
                                    if isinstance(y, ast.Assign) and len(y.targets) == 1 and isinstance(y.targets[0], ast.Name) \
                                            and y.targets[0].id in al and not (
                                                isinstance(y.value, ast.Constant) and y.value.value is None) \
                                            and not isinstance(y.value, ast.Name):
                                        problem = problem or (st, "the arm taken for %s asserts `%s`, but %s binds it "
                                                                  "with `%s`: the assertion fails for every such kernel"
                                                              % (cn, pf.src(a_), label, pf.src(y)))
                if problem:
                    node, why = problem
                    chk.violation("dispatch-total", MT, "get_mapped_gp_evaluator_additive",
                                  pf.src(node).splitlines()[0][:100], node.lineno,
                                  "%s: a kernel class the function admits cannot be mapped" % why, instance=inst)
                else:
                    chk.ok("dispatch-total", inst)
    # top-level split on the kernel type must reject everything else
    inst = "get_mapped_gp_evaluator_additive rejects other kernel types"
    if top and top[0].orelse and any(isinstance(s, ast.Raise) or _isinstance_classes(er.asserted_stmt(s))
                                     for s in top[0].orelse):
        chk.ok("dispatch-total", inst, nontrivial=False)
    else:
        chk.violation("dispatch-total", MT, "get_mapped_gp_evaluator_additive", "top-level kernel type split",
                      fn.lineno, "the else branch of the kernel-type test no longer checks the kernel type")
    # project_kernel_onto_grid: ladder on N is total
    pk = mt.func("project_kernel_onto_grid")
    lad = [n for n in pk.body if isinstance(n, ast.If)]
    inst = "project_kernel_onto_grid ladder on the number of dimensions ends in raise"
    if not lad:
        raise core.AnalysisError("project_kernel_onto_grid: ladder on N vanished")
    cur = lad[-1]
    while len(cur.orelse) == 1 and isinstance(cur.orelse[0], ast.If):
        cur = cur.orelse[0]
    checked, findings = possibly_undefined(pk)
    if findings:
        name, use, node = findings[0]
        chk.violation("dispatch-total", MT, "project_kernel_onto_grid", pf.src(node.ast).splitlines()[0], use.lineno,
                      "`%s` may be unbound: a dimension count matches no arm and nothing raises" % name, instance=inst)
    else:
        chk.ok("dispatch-total", inst)


# ----------------------------------------------------------------------------
# rule 4: spline set accumulation
# ----------------------------------------------------------------------------
def rule_spline(chk, prog):
    mod, fn = er.anchor(prog, XE, "SplineSetEvaluator.__call__")
    a = [x.arg for x in fn.args.args]
    xname, res, dres = a[1], a[2], a[3]
    g = cfgm.CFG(fn)
    bad, adds, dele = er.accumulate_facts(fn, [res, dres])
    for st, b, why in bad:
        chk.violation("spline-accumulate", XE, "SplineSetEvaluator.__call__", pf.src(st), st.lineno, why,
                      instance="SplineSetEvaluator.__call__ %s accumulates" % b)
    # const exactly once
    cnodes = []
    for n in g.nodes:
        st = n.ast
        if n.kind == "stmt" and isinstance(st, (ast.Assign, ast.AugAssign)) \
                and any(pf.is_self_attr(x, "const") for x in ast.walk(st.value)):
            t = st.targets[0] if isinstance(st, ast.Assign) else st.target
            if pf.base_name(t) == res:
                cnodes.append(n)
    inst = "SplineSetEvaluator.__call__ adds self.const exactly once"
    if not cnodes:
        chk.violation("spline-accumulate", XE, "SplineSetEvaluator.__call__", "self.const", fn.lineno,
                      "the constant term of the mapped kernel (order-0 term) is never added to `%s`" % res,
                      instance=inst)
    else:
        ids = {n.id for n in cnodes}
        ok, wit = g.must_pass(lambda node: node.id in ids)
        twice = None
        for n in cnodes:
            after = set()
            for s in g.succ[n.id]:
                after |= g.reachable(s)
            if after & ids:
                twice = n
        if not ok:
            lines = [getattr(g.nodes[i].ast, "lineno", "?") for i in wit if g.nodes[i].ast is not None]
            chk.violation("spline-accumulate", XE, "SplineSetEvaluator.__call__", "self.const", fn.lineno,
                          "a path returns without adding self.const to `%s` (through lines %s)" % (res, lines[:8]),
                          instance=inst)
        elif twice is not None:
            chk.violation("spline-accumulate", XE, "SplineSetEvaluator.__call__", pf.src(twice.ast),
                          twice.ast.lineno, "self.const can be added more than once on one path (in a loop or "
                          "twice in sequence)", instance=inst)
        else:
            chk.ok("spline-accumulate", inst, detail="; ".join(pf.src(n.ast) for n in cnodes))
    # the term loop
    loops = [n for n in fn.body if isinstance(n, ast.For)]
    calls = [c for l in loops for c in ast.walk(l) if isinstance(c, ast.Call) and pf.call_name(c) == "get_vec_eval"]
    if len(calls) != 1:
        raise core.AnalysisError("SplineSetEvaluator.__call__: expected one get_vec_eval call inside the term loop")
    loop = [l for l in loops if any(c is calls[0] for c in ast.walk(l))][0]
    call = calls[0]
    # y, dy = get_vec_eval(grid, coeffs, X1[:, K], N)
    ust = pf.enclosing(call, (ast.Assign,))
    if ust is None or not isinstance(ust.targets[0], ast.Tuple) or len(ust.targets[0].elts) != 2 or len(call.args) < 3:
        raise core.AnalysisError("get_vec_eval result is not unpacked as `y, dy = ...`")
    yname, dyname = (e.id for e in ust.targets[0].elts)
    xarg = call.args[2]
    if not (isinstance(xarg, ast.Subscript) and pf.base_name(xarg) == xname and isinstance(xarg.slice, ast.Tuple)
            and len(xarg.slice.elts) == 2):
        raise core.AnalysisError("get_vec_eval is not fed `%s[:, <index set>]`" % xname)
    cols = pf.src(xarg.slice.elts[1])
    radd = [s for s in adds[res] if any(s is x for x in ast.walk(loop))]
    dadd = [s for s in adds[dres] if any(s is x for x in ast.walk(loop))]
    inst = "SplineSetEvaluator.__call__ term value accumulated"
    if len(radd) == 1 and yname in er.names_in(radd[0].value):
        chk.ok("spline-accumulate", inst, detail=pf.src(radd[0]))
    else:
        chk.violation("spline-accumulate", XE, "SplineSetEvaluator.__call__", "term value", loop.lineno,
                      "the loop over terms does not add `%s * scale` to `%s` exactly once per term" % (yname, res),
                      instance=inst)
    inst = "SplineSetEvaluator.__call__ term gradient accumulated into the columns it was evaluated on"
    if len(dadd) == 1 and dyname in er.names_in(dadd[0].value):
        t = dadd[0].target
        tcols = pf.src(t.slice.elts[1]) if isinstance(t, ast.Subscript) and isinstance(t.slice, ast.Tuple) \
            and len(t.slice.elts) == 2 else None
        if tcols != cols:
            chk.violation("spline-accumulate", XE, "SplineSetEvaluator.__call__", pf.src(dadd[0]), dadd[0].lineno,
                          "the spline term is evaluated on columns `%s` of %s but its gradient is added to columns "
                          "`%s` of %s" % (cols, xname, tcols, dres), instance=inst)
        else:
            chk.ok("spline-accumulate", inst, detail=pf.src(dadd[0]))
    else:
        chk.violation("spline-accumulate", XE, "SplineSetEvaluator.__call__", "term gradient", loop.lineno,
                      "the loop over terms does not add `%s * scale` to `%s[:, %s]` exactly once per term" % (
                          dyname, dres, cols), instance=inst)
    inst = "SplineSetEvaluator.__call__ same scale for value and gradient"
    if len(radd) == 1 and len(dadd) == 1:
        def scale_of(v, nm):
            if isinstance(v, ast.BinOp) and isinstance(v.op, ast.Mult):
                l, r = v.left, v.right
                if isinstance(l, ast.Name) and l.id == nm:
                    return pf.src(r)
                if isinstance(r, ast.Name) and r.id == nm:
                    return pf.src(l)
            if isinstance(v, ast.Name) and v.id == nm:
                return "1"
            return None
        s1, s2 = scale_of(radd[0].value, yname), scale_of(dadd[0].value, dyname)
        if s1 is None or s2 is None:
            chk.ok("spline-accumulate", inst + " (not comparable)", nontrivial=False)
            chk.note("spline-accumulate", XE, "increments are not of the form <term> * <scale>")
        elif s1 != s2:
            chk.violation("spline-accumulate", XE, "SplineSetEvaluator.__call__", pf.src(dadd[0]), dadd[0].lineno,
                          "the value of a term is scaled by `%s` but its gradient by `%s`" % (s1, s2), instance=inst)
        else:
            chk.ok("spline-accumulate", inst, detail="scale %s" % s1)


# ----------------------------------------------------------------------------
# rule 7: subset positions vs feature indices in the mapping functions
# ----------------------------------------------------------------------------
class IndexSorts:
    """Two-sorted typing of the integer indices of one mapping function.
       F   index of a feature (column of the full descriptor matrix X, entry of feature_list)
       S   position in the gathered subset (column of D = X[:, inds], entry of dims / grid / k0s ..)
    `np.arange(X.shape[1])[...]`, and whatever is sliced / appended / copied from it, is an array OF
    feature indices (its own positions are subset positions); `np.arange(len(<such array>))`,
    `range(D.shape[1])`, `range(len(inds))` produce subset positions; `inds[i]` converts S -> F."""

    KEEP_METHODS = {"copy", "astype", "tolist", "ravel", "flatten"}
    KEEP_CALLS = {"list", "tuple", "np.array", "np.asarray", "numpy.array", "sorted"}
    JOIN_CALLS = {"np.append", "np.concatenate", "np.hstack", "numpy.append"}

    def __init__(self, fn):
        self.fn = fn
        self.params = set(er.param_names(fn))
        self.gathered = {}   # local D -> parameter X it was gathered from
        self.env = {}        # name -> set of sorts {'Farr','Sarr','F','S'}
        self.derived = {}    # local container -> the container it is an element-wise image of
        for _ in range(4):
            self._pass()

    # sizes ---------------------------------------------------------------
    def size_sort(self, e, at):
        """'F' for the size of the feature axis, 'S' for the size of the subset, else None"""
        if isinstance(e, ast.Subscript) and isinstance(e.value, ast.Attribute) and e.value.attr == "shape" \
                and isinstance(e.slice, ast.Constant) and e.slice.value in (1, -1) and isinstance(e.value.value, ast.Name):
            nm = e.value.value.id
            if nm in self.gathered:
                return "S"
            if nm in self.params:
                return "F"      # confirmed when the same parameter is gathered: D = X[:, <feature indices>]
            return None
        if isinstance(e, ast.Call) and pf.call_name(e) == "len" and e.args:
            srt = self.sort(e.args[0], at)
            return "S" if srt in ("Farr", "Sarr") else None
        if isinstance(e, ast.Name):
            d = er.reaching_assign(self.fn, e.id, at)
            if d is not None:
                return self.size_sort(d.value, d)
        return None

    # sorts of index-valued expressions ------------------------------------------
    def _iter_elem_sort(self, it, at):
        srt = self.sort(it, at)
        if srt not in ("Farr", "Sarr"):
            return None
        if isinstance(it, ast.Call) and (pf.call_name(it) or "").split(".")[-1] in ("combinations", "product"):
            return srt           # tuples of indices
        return srt[0]

    def _loop_binding(self, name, at):
        """sort given to `name` by the innermost enclosing for-loop / comprehension that binds it;
        (True, sort) when such a binder exists"""
        child, par = at, pf.parent(at)
        while par is not None and par is not self.fn:
            if isinstance(par, ast.For) and isinstance(par.target, ast.Name) and par.target.id == name \
                    and any(child is s for s in par.body):
                return True, self._iter_elem_sort(par.iter, par)
            if isinstance(par, (ast.ListComp, ast.GeneratorExp, ast.SetComp, ast.DictComp)):
                for gen in par.generators:
                    if isinstance(gen.target, ast.Name) and gen.target.id == name:
                        return True, self._iter_elem_sort(gen.iter, par)
            child, par = par, pf.parent(par)
        return False, None

    def sort(self, e, at):
        if isinstance(e, ast.Name):
            found, srt = self._loop_binding(e.id, at)
            if found:
                return srt
            ss = self.env.get(e.id, set())
            return next(iter(ss)) if len(ss) == 1 else None
        if isinstance(e, ast.Call):
            cn = pf.call_name(e) or ""
            if cn in ("np.arange", "numpy.arange", "range") and len(e.args) == 1:
                z = self.size_sort(e.args[0], at)
                return {"F": "Farr", "S": "Sarr"}.get(z)
            if isinstance(e.func, ast.Attribute) and e.func.attr in self.KEEP_METHODS:
                return self.sort(e.func.value, at)
            if cn in self.KEEP_CALLS and e.args:
                return self.sort(e.args[0], at)
            if cn in self.JOIN_CALLS and e.args:
                parts = e.args[0].elts if isinstance(e.args[0], (ast.List, ast.Tuple)) and len(e.args) == 1 else e.args[:2]
                ss = {self.sort(p, at) for p in parts} - {None}
                return next(iter(ss)) if len(ss) == 1 else None
            if cn in ("combinations", "itertools.combinations", "itertools.product", "product") and e.args:
                return self.sort(e.args[0], at)   # tuples of the same kind of index
            return None
        if isinstance(e, ast.BinOp) and isinstance(e.op, ast.Add):
            # len(sinds) + np.arange(len(ainds)): positions shifted within the subset
            for a, b in ((e.left, e.right), (e.right, e.left)):
                if self.sort(a, at) == "Sarr" and isinstance(b, ast.Call) and pf.call_name(b) == "len":
                    return "Sarr"
            return None
        if isinstance(e, ast.Subscript):
            base = self.sort(e.value, at)
            if base in ("Farr", "Sarr"):
                i = self.sort(e.slice, at) if not isinstance(e.slice, (ast.Slice, ast.Tuple)) else None
                if i in ("S", "F"):
                    return base[0]      # an element: a single feature index / subset position
                return base             # a sub-array of the same kind
            return None
        return None

    def _bind(self, name, srt):
        if srt:
            self.env.setdefault(name, set()).add(srt)

    def container_root(self, e):
        """The container whose positions `e` shares: itself, or -- for a local that is an element-wise image
        of another container (an attribute/property of it, a comprehension over it, list()/np.array() of it,
        a full slice) -- that container.  Returns the text of the root."""
        if isinstance(e, ast.Name) and e.id in self.derived:
            return self.derived[e.id]
        return pf.src(e)

    def _image_of(self, v):
        """root container text if the value `v` keeps the positions of another container"""
        if isinstance(v, ast.Attribute) and isinstance(v.value, ast.Name) \
                and v.attr not in ("shape", "size", "ndim", "dtype", "T"):
            return self.container_root(v.value)
        if isinstance(v, ast.Call):
            cn = pf.call_name(v) or ""
            if (cn in self.KEEP_CALLS or cn in ("np.asarray", "np.stack")) and v.args:
                return self._image_of(v.args[0]) or (
                    self.container_root(v.args[0]) if isinstance(v.args[0], ast.Name) else None)
            if isinstance(v.func, ast.Attribute) and v.func.attr in self.KEEP_METHODS:
                return self._image_of(v.func.value) or (
                    self.container_root(v.func.value) if isinstance(v.func.value, ast.Name) else None)
        if isinstance(v, (ast.ListComp, ast.GeneratorExp)) and len(v.generators) == 1 \
                and not v.generators[0].ifs and isinstance(v.generators[0].iter, ast.Name) \
                and isinstance(v.generators[0].target, ast.Name):
            # [g(f) for f in C]: position k of the result belongs to position k of C
            tgt = v.generators[0].target.id
            if any(isinstance(x, ast.Name) and x.id == tgt for x in ast.walk(v.elt)):
                return self.container_root(v.generators[0].iter)
        if isinstance(v, ast.Subscript) and isinstance(v.value, ast.Name) and isinstance(v.slice, ast.Slice) \
                and v.slice.lower is None and v.slice.upper is None and v.slice.step is None:
            return self.container_root(v.value)
        return None

    def _pass(self):
        fn = self.fn
        pairs = []
        for n in ast.walk(fn):
            if isinstance(n, ast.Assign) and len(n.targets) == 1:
                tg, vl = n.targets[0], n.value
                if isinstance(tg, ast.Name):
                    pairs.append((n, tg.id, vl))
                elif isinstance(tg, (ast.Tuple, ast.List)) and isinstance(vl, (ast.Tuple, ast.List)) \
                        and len(tg.elts) == len(vl.elts):
                    pairs += [(n, e.id, w) for e, w in zip(tg.elts, vl.elts) if isinstance(e, ast.Name)]
        for n, t, v in pairs:
            if True:
                # D = X[:, J] with J an array of feature indices
                if isinstance(v, ast.Subscript) and isinstance(v.value, ast.Name) and v.value.id in self.params \
                        and isinstance(v.slice, ast.Tuple) and len(v.slice.elts) == 2 \
                        and self.sort(v.slice.elts[1], n) == "Farr":
                    self.gathered[t] = v.value.id
                self._bind(t, self.sort(v, n))
                root = self._image_of(v)
                if root is not None and root != t and len(er.assigns_to(fn, t)) == 1:
                    self.derived[t] = root

    # uses -----------------------------------------------------------------
    def uses(self):
        """(container text, axis) -> list of (sort 'S'|'F', node)"""
        out = {}
        for n in ast.walk(self.fn):
            if not isinstance(n, ast.Subscript) or not isinstance(n.value, (ast.Name, ast.Attribute)):
                continue
            elts = n.slice.elts if isinstance(n.slice, ast.Tuple) else [n.slice]
            for ax, ix in enumerate(elts):
                if isinstance(ix, ast.Slice):
                    ix = ix.lower
                    if ix is None:
                        continue
                srt = self.sort(ix, n)
                if srt is None:
                    continue
                out.setdefault((self.container_root(n.value), ax), []).append((srt[0], n))
        return out


def rule_index_space(chk, prog):
    mt = prog.module(MT)
    funcs = []
    for name in mt.functions:
        fn = mapping_function(prog, name)
        ix = IndexSorts(fn)
        if ix.gathered:
            funcs.append((name, fn, ix))
    if len(funcs) < 2:
        raise core.AnalysisError("fewer than 2 mapping functions gather a feature subset `D = X[:, inds]` in %s" % MT)
    groups = {}
    for name, fn, ix in funcs:
        for (key, ax), lst in ix.uses().items():
            root = key.split(".")[0].split("[")[0]
            shared = root in ix.params          # caller-provided containers mean the same thing in every function
            gk = ("*" if shared else name, key, ax)
            for srt, node in lst:
                groups.setdefault(gk, []).append((srt, node, name, shared, ix))
    for (scope, key, ax), lst in sorted(groups.items(), key=lambda kv: (kv[0][1], kv[0][0], kv[0][2])):
        sorts = {x[0] for x in lst}
        where = "all mapping functions" if scope == "*" else scope
        inst = "%s: axis %d of `%s` is indexed in one index space" % (where, ax, key)
        if len(sorts) == 1:
            chk.ok("index-space", inst, detail="%s (%d use(s))" % (
                {"S": "subset positions", "F": "feature indices"}[next(iter(sorts))], len(lst)))
            continue
        shared = lst[0][3]
        gathered_from = set()
        for x in lst:
            gathered_from |= set(x[4].gathered.values())
        if shared or key in gathered_from:
            blame = [x for x in lst if x[0] == "S"]   # a caller-provided container cannot be in subset order:
        else:                                         # the subset is only formed inside the function
            ns = sum(1 for x in lst if x[0] == "S")
            blame = [x for x in lst if x[0] == ("S" if ns * 2 < len(lst) else "F")]
        srt, node, fname, _, _ = blame[0]
        other = next(x for x in lst if x[0] != srt)
        names = {"S": "a position in the gathered subset", "F": "a feature index"}
        chk.violation("index-space", MT, fname, pf.src(node), node.lineno,
                      "`%s` is indexed here by %s, but by %s in `%s` (%s): the two index spaces coincide only when the "
                      "subset is the leading block of features; %s" % (
                          key, names[srt], names[other[0]], pf.src(other[1]), other[2],
                          "convert with `inds[...]`" if srt == "S" else "index with the loop position instead"),
                      instance=inst)
    chk.count("mapping functions typed", len(funcs))


# ----------------------------------------------------------------------------
# rule 8: the weight vector pairs with the control-point axis of X
# ----------------------------------------------------------------------------
def rule_weight_axis(chk, prog):
    """In the mapping functions (kernel, X, alpha, ...) X holds one control point per row and one feature per
    column (the feature axis is the one that is gathered / enumerated as np.arange(X.shape[1])); alpha holds
    one weight per control point.  Any comparison of alpha's size with a size of X must use X.shape[0]."""
    mt = prog.module(MT)
    n = 0
    for name in mt.functions:
        fn0 = mt.functions[name]
        ps = er.param_names(fn0)
        if "X" not in ps or "alpha" not in ps:
            continue
        fn = mapping_function(prog, name)
        n += 1

        def x_axis(e, at, depth=0):
            """k if e is X.shape[k] (directly or through locals), else None"""
            if isinstance(e, ast.Subscript) and isinstance(e.value, ast.Attribute) and e.value.attr == "shape" \
                    and pf.src(e.value.value) == "X" and isinstance(e.slice, ast.Constant):
                return e.slice.value
            if isinstance(e, ast.Call) and pf.call_name(e) == "len" and e.args and pf.src(e.args[0]) == "X":
                return 0
            if isinstance(e, ast.Name) and depth < 3:
                d = er.reaching_assign(fn, e.id, at)
                if d is not None:
                    return x_axis(d.value, d, depth + 1)
            return None

        def is_alpha_size(e):
            s_ = pf.src(e)
            return s_ in ("alpha.size", "len(alpha)", "alpha.shape[0]", "alpha.shape[-1]")

        found = False
        for c in pf.walk_no_nested(fn):
            if not (isinstance(c, ast.Compare) and len(c.ops) == 1 and isinstance(c.ops[0], (ast.Eq, ast.NotEq))):
                continue
            l, r = c.left, c.comparators[0]
            for a_, b_ in ((l, r), (r, l)):
                if is_alpha_size(a_):
                    k = x_axis(b_, c)
                    if k is None:
                        continue
                    found = True
                    inst = "%s: alpha is sized against the control-point axis of X" % name
                    if k in (0, -2):
                        chk.ok("weight-axis", inst, detail=pf.src(c))
                    else:
                        chk.violation("weight-axis", MT, name, pf.src(c), c.lineno,
                                      "`%s` compares the number of weights with X.shape[%s], the number of FEATURES; "
                                      "alpha has one weight per control point (row of X), so the check passes only "
                                      "for square X and rejects valid models otherwise" % (pf.src(c), k), instance=inst)
        if not found:
            chk.ok("weight-axis", "%s: no size comparison between alpha and X" % name, nontrivial=False)
    if n < 2:
        raise core.AnalysisError("fewer than 2 mapping functions take (X, alpha) in %s" % MT)


# ----------------------------------------------------------------------------
# rule 9: the spline grid covers the declared bounds of the feature map
# ----------------------------------------------------------------------------
def rule_grid_extent(chk, prog):
    """The mapping functions pass `bound=<feature map>.bounds` to the helper that lays out one grid dimension.
    When a bound is given, the extent returned by that helper must be exactly the bound: mixing it with the
    range of the control points (max/min with np.min(x)/np.max(x)) leaves parts of the declared feature domain
    outside the spline."""
    mt = prog.module(MT)
    helpers = {}
    for name in mt.functions:
        for c in ast.walk(mt.functions[name]):
            if isinstance(c, ast.Call) and isinstance(c.func, ast.Name) and c.func.id in mt.functions:
                for kw in c.keywords:
                    if kw.arg and any(isinstance(x, ast.Attribute) and x.attr == "bounds" for x in ast.walk(kw.value)):
                        helpers[c.func.id] = kw.arg
    if not helpers:
        raise core.AnalysisError("no mapping function passes `<map>.bounds` to a grid-layout helper")
    for hname, bparam in sorted(helpers.items()):
        fn = mt.functions[hname]
        rets = [n for n in pf.walk_no_nested(fn) if isinstance(n, ast.Return)]
        if len(rets) != 1 or not isinstance(rets[0].value, ast.Tuple) or len(rets[0].value.elts) < 2 \
                or not all(isinstance(e, ast.Name) for e in rets[0].value.elts[:2]):
            raise core.AnalysisError("%s: expected `return (lo, hi, ...)` of names" % hname)
        lo, hi = (e.id for e in rets[0].value.elts[:2])
        inst = "%s: with a bound given, the grid extent (%s, %s) is the bound itself" % (hname, lo, hi)
        problems = []
        for nm, k in ((lo, 0), (hi, 1)):
            # definitions of the extent that can reach the return when `bound is not None`
            g = cfgm.CFG(fn)
            rnode = g.node_of(rets[0])
            ok_def = False
            for d in er.reaching_defs(g, nm, rnode):
                if d is None:
                    continue
                conds = cfgm.conditions_at(d.ast)
                under = any(pol and isinstance(t, ast.Compare) and pf.src(t.left) == bparam
                            and isinstance(t.ops[0], ast.IsNot) for t, pol, kk in conds)
                if not under:
                    # the unconditional data-driven default; it must be overwritten when a bound is given
                    continue
                vals = [v for s_, v, kk in er.assigns_to(fn, nm) if s_ is d.ast]
                v = vals[0] if vals else None
                if v is not None and er.names_in(v) <= {bparam}:
                    ok_def = True
                else:
                    problems.append((d.ast, nm))
            if not ok_def and not problems:
                problems.append((rets[0], nm))
        # the number of grid points grows with the density: no int()/floor truncation may be applied to the
        # extent/length-scale ratio before it is multiplied by the density
        dens = next((p_ for p_ in er.param_names(fn) if "density" in p_), None)
        if dens is not None:
            trunc = set()
            for n_ in pf.walk_no_nested(fn):
                if isinstance(n_, ast.Assign) and len(n_.targets) == 1 and isinstance(n_.targets[0], ast.Name) \
                        and isinstance(n_.value, ast.Call) and pf.call_name(n_.value) in (
                            "int", "np.floor", "math.floor", "round", "np.round", "np.rint") \
                        and dens not in er.names_in(n_.value):
                    trunc.add(n_.targets[0].id)
            inst3 = "%s: the grid size is truncated only after the density factor" % hname
            bad3 = None
            for n_ in pf.walk_no_nested(fn):
                if isinstance(n_, ast.BinOp) and isinstance(n_.op, ast.Mult):
                    sides = (n_.left, n_.right)
                    for a_, b_ in (sides, sides[::-1]):
                        if isinstance(a_, ast.Name) and a_.id == dens and (
                                (isinstance(b_, ast.Name) and b_.id in trunc) or (
                                    isinstance(b_, ast.Call) and pf.call_name(b_) in ("int", "np.floor", "math.floor")
                                    and dens not in er.names_in(b_))):
                            bad3 = n_
            if bad3 is not None:
                chk.violation("grid-extent", MT, hname, pf.src(bad3), bad3.lineno,
                              "`%s` multiplies the density by a quantity that was already truncated to an integer: the "
                              "number of grid points per length scale is no longer `%s` (a range shorter than one "
                              "length scale gets the minimum grid whatever the density)" % (pf.src(bad3), dens),
                              instance=inst3)
            else:
                chk.ok("grid-extent", inst3)
        if problems:
            st, nm = problems[0]
            chk.violation("grid-extent", MT, hname, pf.src(st).splitlines()[0][:110], st.lineno,
                          "when `%s` is given, `%s` must be taken from it alone, but it is computed from other "
                          "quantities (the range of the control points): the spline grid no longer covers the "
                          "declared bounds of the feature map, and inputs inside the bounds but outside the "
                          "training range are extrapolated" % (bparam, nm), instance=inst)
        else:
            chk.ok("grid-extent", inst)


# ----------------------------------------------------------------------------
# rule 6: order-n scale multiplies the terms of order n
# ----------------------------------------------------------------------------
def _comb(n, k):
    out = 1
    for i in range(k):
        out = out * (n - i) // (i + 1)
    return out


def _fold_int(e, env):
    """integer arithmetic on literals and the names in env (constant folding only)"""
    if isinstance(e, ast.Constant) and isinstance(e.value, int) and not isinstance(e.value, bool):
        return e.value
    if isinstance(e, ast.Name):
        return env.get(e.id)
    if isinstance(e, ast.UnaryOp) and isinstance(e.op, ast.USub):
        v = _fold_int(e.operand, env)
        return None if v is None else -v
    if isinstance(e, ast.BinOp):
        a, b = _fold_int(e.left, env), _fold_int(e.right, env)
        if a is None or b is None:
            return None
        if isinstance(e.op, ast.Add):
            return a + b
        if isinstance(e.op, ast.Sub):
            return a - b
        if isinstance(e.op, ast.Mult):
            return a * b
        if isinstance(e.op, ast.FloorDiv):
            return a // b if b else None
    return None


def rule_scale_order(chk, prog):
    kn, mt = prog.module(KN), prog.module(MT)
    # (a) arbf_args lays the scales out as [s0] + [s1]*C(n,1) + [s2]*C(n,2) + ...
    fa = kn.func("arbf_args")
    base = fa.args.args[0].arg
    rets = [n for n in pf.walk_no_nested(fa) if isinstance(n, ast.Return)]
    if len(rets) != 1 or not isinstance(rets[0].value, ast.Tuple):
        raise core.AnalysisError("arbf_args: expected a single tuple return")
    ret_names = [pf.src(e) for e in rets[0].value.elts]
    if "scale" not in ret_names:
        raise core.AnalysisError("arbf_args no longer returns a local named `scale`")
    spos = ret_names.index("scale")
    binds = er.assigns_to(fa, "scale")
    first = [b for b in binds if b[2] == "assign"]
    if len(first) != 1 or not (isinstance(first[0][1], ast.List) and len(first[0][1].elts) == 1
                               and pf.src(first[0][1].elts[0]) == "%s.scale[0]" % base):
        raise core.AnalysisError("arbf_args: `scale` is no longer initialised as [%s.scale[0]]" % base)
    ndim_name = None
    for st, v, k in er.assigns_to(fa, "ndim"):
        ndim_name = "ndim"
    blocks = [b for b in binds if b[2] == "aug"]
    expect = 1
    for st, v, k in sorted(blocks, key=lambda b: b[0].lineno):
        inst = "arbf_args: order-%d scale repeated C(ndim, %d) times" % (expect, expect)
        ok = isinstance(st.op, ast.Add) and isinstance(v, ast.BinOp) and isinstance(v.op, ast.Mult) \
            and isinstance(v.left, ast.List) and len(v.left.elts) == 1
        if not ok:
            raise core.AnalysisError("arbf_args: unrecognised scale block `%s`" % pf.src(st))
        elt = v.left.elts[0]
        idx = elt.slice.value if (isinstance(elt, ast.Subscript) and isinstance(elt.slice, ast.Constant)
                                  and pf.src(elt.value) == "%s.scale" % base) else None
        counts = []
        for nd in range(1, 9):
            c = _fold_int(v.right, {ndim_name or "ndim": nd})
            if c is None:
                raise core.AnalysisError("arbf_args: cannot fold the repeat count `%s`" % pf.src(v.right))
            counts.append(c)
        want = [_comb(nd, expect) for nd in range(1, 9)]
        guard = [pf.src(t) for t, pol, kk in cfgm.conditions_at(st) if pol]
        if idx != expect or counts != want or ("order > %d" % (expect - 1)) not in guard:
            chk.violation("scale-order", KN, "arbf_args", pf.src(st), st.lineno,
                          "the %d-th block of the per-term scale list must be [%s.scale[%d]] * C(ndim, %d) under "
                          "`order > %d` (one entry per index set of size %d, in itertools.combinations order); found "
                          "scale index %r, counts %s for ndim=1..8 (expected %s), guards %s"
                          % (expect, base, expect, expect, expect - 1, expect, idx, counts, want, guard), instance=inst)
        else:
            chk.ok("scale-order", inst)
        expect += 1
    if expect < 3:
        raise core.AnalysisError("arbf_args: fewer than two order blocks found")
    # (b)+(c) the mapper enumerates index sets by ascending size and uses scale[0] for the empty set
    fm = mapping_function(prog, "get_mapped_gp_evaluator_additive")
    g = cfgm.CFG(fm)
    unpack = []       # statements that take the scale list from arbf_args
    scale_names = set()
    for st in pf.walk_no_nested(fm):
        if isinstance(st, ast.Assign) and isinstance(st.value, ast.Call) and pf.call_name(st.value) == "arbf_args" \
                and isinstance(st.targets[0], (ast.Tuple, ast.List)):
            tgt = st.targets[0]
            if spos < len(tgt.elts) and isinstance(tgt.elts[spos], ast.Name):
                scale_names.add(tgt.elts[spos].id)
                unpack.append(st)
            else:
                chk.violation("scale-order", MT, "get_mapped_gp_evaluator_additive", pf.src(st), st.lineno,
                              "the result of arbf_args(...) is not unpacked with the scale list at position %d" % spos)
    if not unpack:
        raise core.AnalysisError("the additive mapper no longer takes the scale list from arbf_args")

    def lineage_ok(name, node, depth=0):
        """every definition of `name` reaching `node` is the arbf_args unpack or a plain copy of a name whose
        own reaching definitions are"""
        for d in er.reaching_defs(g, name, node):
            if d is None:
                return d, False
            if d.ast in unpack:
                continue
            src = [v for s_, v, k_ in er.assigns_to(fm, name) if s_ is d.ast]
            if depth < 4 and len(src) == 1 and isinstance(src[0], ast.Name) and src[0].id != name:
                bad, ok = lineage_ok(src[0].id, d, depth + 1)
                if ok:
                    continue
                return (bad if bad is not None else d), False
            return d, False
        return None, True
    loops = [n for n in pf.walk_no_nested(fm) if isinstance(n, ast.For) and isinstance(n.iter, ast.Call)
             and pf.call_name(n.iter) == "combinations"]
    if len(loops) != 1:
        raise core.AnalysisError("the additive mapper: expected one loop over itertools.combinations")
    inner = loops[0]
    outer = pf.parent(inner)
    inst = "additive mapper enumerates index sets by ascending order"
    if isinstance(outer, ast.For) and isinstance(outer.target, ast.Name) and pf.src(outer.iter) == "range(order + 1)" \
            and len(inner.iter.args) == 2 and pf.src(inner.iter.args[1]) == outer.target.id:
        chk.ok("scale-order", inst, detail="for %s in %s: for ... in %s" % (outer.target.id, pf.src(outer.iter),
                                                                        pf.src(inner.iter)))
    else:
        chk.violation("scale-order", MT, "get_mapped_gp_evaluator_additive", pf.src(inner.iter), inner.lineno,
                      "index sets must be generated as `for o in range(order + 1): combinations(<dims>, o)` to match "
                      "the layout of arbf_args' scale list")
    # reads of scale[<const>] inside the term loop
    uses = []
    for n in ast.walk(outer if isinstance(outer, ast.For) else inner):
        if isinstance(n, ast.Subscript) and isinstance(n.value, ast.Name) \
                and (n.value.id in scale_names or alias_closure(fm, n.value.id) & scale_names) \
                and isinstance(n.ctx, ast.Load) and isinstance(n.slice, ast.Constant):
            uses.append(n)
    if not uses:
        raise core.AnalysisError("the additive mapper no longer reads scale[0] for the constant term")
    for u in uses:
        node = g.stmt_of_expr(u)
        st = node.ast
        conds = [pf.src(t) for t, pol, k in cfgm.conditions_at(st) if pol]
        inst = "additive mapper: `%s` refers to arbf_args' layout" % pf.src(st)[:60]
        d, okl = lineage_ok(u.value.id, node)
        foreign = [] if okl else [d]
        if foreign:
            chk.violation("scale-order", MT, "get_mapped_gp_evaluator_additive", pf.src(st), st.lineno,
                          "`%s` is meant to pick entry %d of the scale list laid out by arbf_args (entry 0 = order-0 "
                          "scale for the empty index set), but `scale` may have been rebound by `%s` (line %s) before "
                          "this read, which shifts every position" % (
                              pf.src(u), u.slice.value, pf.src(d.ast) if d is not None else "<unbound>",
                              d.ast.lineno if d is not None else "?"), instance=inst)
        elif u.slice.value == 0 and not any("len(" in c and "== 0" in c for c in conds):
            chk.violation("scale-order", MT, "get_mapped_gp_evaluator_additive", pf.src(st), st.lineno,
                          "scale[0] (order-0 scale) is used outside the empty-index-set branch", instance=inst)
        else:
            chk.ok("scale-order", inst)


# ----------------------------------------------------------------------------
# rule 5: gradient pairing in the C kernels
# ----------------------------------------------------------------------------
def rule_grad_pairing(chk, prog, tree):
    xe = prog.module(XE)
    bound = {}
    for cname, cls in xe.classes.items():
        nb = er.native_binding(xe, cls)
        if nb is not None:
            bound[nb[1]] = cname
    if len(bound) < 3:
        raise core.AnalysisError("fewer than 3 evaluator classes bind a native kernel through `_fn`")
    tu = cfacts.TU(tree, MU_C)
    for b in bound:
        tu.func(b)  # vanished anchor => AnalysisError
    kernels = sorted(set(bound) | {f for f in tu.funcs if f.startswith("evaluate_se_kernel")})
    for fn in kernels:
        r = er.c_grad_pairing(tu, fn)
        live = fn in bound
        who = "%s (used by %s)" % (fn, bound[fn]) if live else "%s (not bound to any evaluator class)" % fn
        if not r["calls"]:
            raise core.AnalysisError("%s: no gradient helper call found" % fn)
        for line, text, ok, why in r["calls"]:
            inst = "%s: %s pairs the gradient with a term of its factor" % (fn, text[:90])
            if ok:
                chk.ok("grad-pairing", inst)
            elif live:
                chk.violation("grad-pairing", MU_C_REL, fn, text, line,
                              "%s: the returned gradient is not the gradient of the returned value" % why,
                              instance=inst)
            else:
                chk.ok("grad-pairing", inst + " [dead code, noted]", nontrivial=False)
                chk.note("grad-pairing", "%s:%s" % (MU_C_REL, fn),
                         "line %d `%s`: %s. The function is exported but no evaluator class binds it, so this is "
                         "unreachable from Python today" % (line, text[:80], why))
        for line, text, why in r.get("skips", []):
            inst = "%s: no (sample, control point) pair is skipped on a condition on the sample" % fn
            if live:
                chk.violation("grad-pairing", MU_C_REL, fn, text, line,
                              "%s: the value may vanish there, but its gradient with respect to the sample does not; "
                              "the skip also drops the derivative stores" % why, instance=inst)
            else:
                chk.note("grad-pairing", "%s:%s" % (MU_C_REL, fn), "line %d: %s" % (line, why))
        if not r.get("skips") and live:
            chk.ok("grad-pairing", "%s: no (sample, control point) pair is skipped on a condition on the sample" % fn)
        inst = "%s: every exponent term of the accumulated factors is differentiated" % fn
        if r["missing"] and live:
            line, text, term = r["missing"][0]
            chk.violation("grad-pairing", MU_C_REL, fn, "%s: %s" % (text, term), line,
                          "the factor accumulated by `%s` depends on %s, but no gradient helper call differentiates "
                          "that term: the gradient misses a contribution" % (text, term), instance=inst)
        elif r["missing"]:
            chk.ok("grad-pairing", inst + " [dead code, noted]", nontrivial=False)
        else:
            chk.ok("grad-pairing", inst, detail="%d term(s)" % r["n_terms"])
    chk.count("C kernels read", len(kernels))


# ----------------------------------------------------------------------------
def _analyse_own(chk):
    tree = chk.tree
    prog = pf.Program(tree, [KN, MT, XE])
    chk.rule("k0-factor", "get_k0_for_mapping and the kernel's own k0 have the same normal form")
    chk.rule("rbf-extract", "no possibly-unbound local in the extraction code; _exps == 1/2 L^-2; C quadratic form")
    chk.rule("dispatch-total", "every accepted additive kernel class is served by a non-raising arm")
    chk.rule("spline-accumulate", "const once; terms accumulated with +=, same columns, same scale")
    chk.guard(rule_k0_factor, prog)
    chk.guard(rule_rbf_extract, prog, tree)
    chk.guard(rule_dispatch, prog)
    chk.guard(rule_spline, prog)
    chk.rule("index-space", "mapping functions: no container is indexed both by subset positions and by feature "
                            "indices (two-sorted index typing; caller-provided containers are feature-indexed)")
    chk.guard(rule_index_space, prog)
    chk.floor("index-space", 6, "containers indexed by a typed index in the two mapping functions")
    chk.rule("weight-axis", "mapping functions: alpha (one weight per control point) is sized against X.shape[0]")
    chk.guard(rule_weight_axis, prog)
    chk.floor("weight-axis", 2, "mapping functions taking (X, alpha)")
    chk.rule("grid-extent", "the grid-layout helper returns the declared bounds as extent whenever a bound is given")
    chk.guard(rule_grid_extent, prog)
    chk.floor("grid-extent", 1, "get_dim")
    # mapped evaluators accumulate into the shared res/dres, in Python and in C (rules of C04, same code)
    chk.rule("accumulate-py", "FuncEvaluator.__call__ writes res/dres only by += / -= or checked delegation")
    chk.rule("accumulate-c", "C kernels behind the native evaluators write out/outd only by compound assignment")
    chk.guard(rule_accumulate_shared, tree)
    chk.floor("accumulate-c", 3, "3 native kernels")
    chk.rule("scale-order", "arbf_args lays out one scale per index set by ascending order; the mapper reads that "
                            "layout unshifted")
    chk.guard(rule_scale_order, prog)
    chk.floor("scale-order", 2, "order blocks of arbf_args + loop order + scale[0] read")
    chk.rule("grad-pairing", "C kernels: each gradient call differentiates a term of the factor it is given, in the "
                             "matching channel, and no term is left out")
    chk.guard(rule_grad_pairing, prog, tree)
    chk.floor("grad-pairing", 5, "gradient calls and completeness obligations of the 3 bound kernels")
    chk.floor("k0-factor", 2, "3 additive kernels")
    chk.floor("rbf-extract", 25, "locals of the extraction/mapping functions + _exps + C quadratic form")
    chk.floor("dispatch-total", 2, "3 subset additive kernel classes + type split + grid ladder")
    chk.floor("spline-accumulate", 2, "const, value, gradient columns, scale")
    chk.assumptions += [
        "sklearn's RBF is exp(-1/2 sum_j ((x_j - y_j)/length_scale_j)**2) (frozen reference)",
        "indexes that only insert axes ([:, None], [np.newaxis, :, :]) do not change the per-dimension factor",
        "length scales and alpha are > 0 (abs(a / L) = abs(a) / L); normal forms that differ but contain abs/sign/"
        "sqrt/trigonometric atoms are reported as not comparable, never as a violation",
    ]
    chk.not_decided += [
        "numerical agreement of the mapped evaluator with the GP sum; spline error vs grid density",
        "units of dk0 (the degree engine is not part of this check)",
        "ordering of arbf_args scales vs itertools.combinations index sets",
    ]


def analyse(chk):
    _analyse_own(chk)
    chk.guard(lambda c_: core.include_findings(c_, 'C09', files=['ciderpress/dft/xc_evaluator'], rules=['hidden-write'],
                                               why='a mapped evaluator that rescales the model\'s own weight array in place changes the function it was mapped from'))
    chk.guard(lambda c_: core.include_findings(c_, 'C10', files=['ciderpress/lib/mod_cider/model_utils.c'], rules=None,
                                               why='a data race in the C evaluators breaks agreement with the kernel sum'))


def _fuse_spin_gradient_wrong(text):
    a = text.find("            _add_deriv(outd_a + iloc, xin_a + iloc, xctrl_a + cloc, exps, aabb,")
    b = text.find("void evaluate_se_kernel_spin_v2")
    if a < 0 or b < a:
        return None
    end = text.rfind("        }\n    }\n}\n", a, b)
    if end < 0:
        return None
    fused = ("            for (int j = 0; j < nfeat; j++) {\n"
             "                double xa = xin_a[iloc + j];\n                double xb = xin_b[iloc + j];\n"
             "                double ca = xctrl_a[cloc + j];\n                double cb = xctrl_b[cloc + j];\n"
             "                outd_a[iloc + j] += 2 * exps[j] * (aabb * (ca - xa) + abba * (cb - xa));\n"
             "                outd_b[iloc + j] += 2 * exps[j] * (aabb * (cb - xb) + abba * (ca - xa));\n"
             "            }\n")
    return text[:a] + fused + text[end:]


def _bounds_alias(text):
    a = "    D = X[:, inds]\n    N = D.shape[1]\n    for i in range(N):\n        density = srbf_density"
    b = "                density=density,\n                bound=feature_list[inds[i]].bounds,"
    if text.count(a) != 1 or text.count(b) != 1:
        return None
    text = text.replace(a, "    D = X[:, inds]\n    N = D.shape[1]\n    bounds = [f.bounds for f in feature_list]\n"
                           "    for i in range(N):\n        density = srbf_density")
    return text.replace(b, "                density=density,\n                bound=bounds[i],")


def _shift_scale_early(text):
    late = "    if len(sinds) == 0:\n        scale = scale[1:]\n        return scale, ind_sets, spline_grids, coeff_sets, const\n"
    anchor = "    D = X[:, inds]\n    N = D.shape[1]\n    for i in range(N):\n        density = srbf_density"
    if text.count(late) != 1 or text.count(anchor) != 1:
        return None
    text = text.replace(late, "    if len(sinds) == 0:\n        return scale, ind_sets, spline_grids, coeff_sets, const\n")
    return text.replace(anchor, "    if len(sinds) == 0:\n        scale = scale[1:]\n" + anchor)


def mutants(tree):
    return [
        Mutant("AddLLRBF mapping: parentheses dropped", KN,
               "        diff = (X[:, np.newaxis] - Y[np.newaxis, :]) / lscale\n        dot = (X[:, np.newaxis] * Y[np.newaxis, :]) / (self.alpha * lscale**2)",
               "        diff = X[:, np.newaxis] - Y[np.newaxis, :] / lscale\n        dot = (X[:, np.newaxis] * Y[np.newaxis, :]) / (self.alpha * lscale**2)",
               expect="k0-factor"),
        Mutant("AddLLRBF mapping: lscale**2 -> lscale", KN,
               "dot = (X[:, np.newaxis] * Y[np.newaxis, :]) / (self.alpha * lscale**2)",
               "dot = (X[:, np.newaxis] * Y[np.newaxis, :]) / (self.alpha * lscale)", expect="k0-factor"),
        Mutant("AddRQ mapping: lscale**2 -> lscale", KN,
               "        diff = X[:, np.newaxis] - Y[np.newaxis, :]\n        inv_scale = 1.0 / (2 * self.alpha * lscale**2)",
               "        diff = X[:, np.newaxis] - Y[np.newaxis, :]\n        inv_scale = 1.0 / (2 * self.alpha * lscale)",
               expect="k0-factor"),
        Mutant("AddRQ mapping: exponent sign", KN,
               "        inv_scale = 1.0 / (2 * self.alpha * lscale**2)\n        return (1 + diff * diff * inv_scale) ** (-self.alpha)",
               "        inv_scale = 1.0 / (2 * self.alpha * lscale**2)\n        return (1 + diff * diff * inv_scale) ** (-1 - self.alpha)",
               expect="k0-factor"),
        Mutant("RBFEvaluator exps: length_scale**2 -> length_scale", XE, "0.5 / length_scale**2)",
               "0.5 / length_scale)", expect="rbf-extract"),
        Mutant("RBFEvaluator exps: 0.5 -> 1.0", XE, "0.5 / length_scale**2)", "1.0 / length_scale**2)",
               expect="rbf-extract"),
        Mutant("RBFEvaluator scale only set for products", XE,
               "            assert isinstance(kernel, DiffRBF)\n            scale = 1.0\n        X1ctrl = np.asarray(X1ctrl)",
               "            assert isinstance(kernel, DiffRBF)\n        X1ctrl = np.asarray(X1ctrl)", expect="rbf-extract"),
        Mutant("simple mapper: inds only for subset kernels", MT,
               "    inds = np.arange(N)\n    if isinstance(rbf.k2, SubsetRBF):\n        inds = inds[rbf.k2.indexes]",
               "    if isinstance(rbf.k2, SubsetRBF):\n        inds = np.arange(N)[rbf.k2.indexes]", expect="rbf-extract"),
        Mutant("k0 ladder serves only DiffARBFV2", MT, "    elif isinstance(arbf, DiffAdditiveMixin):\n        for i in range(D.shape[1]):",
               "    elif isinstance(arbf, DiffARBFV2):\n        for i in range(D.shape[1]):", expect="dispatch-total"),
        Mutant("AddRQ loses get_k0_for_mapping", KN,
               "    def get_k0_for_mapping(self, X, Y, lscale):\n        diff = X[:, np.newaxis] - Y[np.newaxis, :]\n        inv_scale",
               "    def get_k0_for_mapping_(self, X, Y, lscale):\n        diff = X[:, np.newaxis] - Y[np.newaxis, :]\n        inv_scale",
               expect="dispatch-total"),
        Mutant("grid projection: else raise removed", MT, "    else:\n        raise ValueError(\"Order too high!\")\n", "",
               expect="dispatch-total"),
        Mutant("spin kernel: beta gradient of the direct term around the alpha control point", MU_C_REL,
               "_add_deriv(outd_b + iloc, xin_b + iloc, xctrl_b + cloc, exps, aabb,",
               "_add_deriv(outd_b + iloc, xin_b + iloc, xctrl_a + cloc, exps, aabb,", expect="grad-pairing"),
        Mutant("spin kernel: exchange-term gradient accumulated into the other channel", MU_C_REL,
               "_add_deriv(outd_a + iloc, xin_a + iloc, xctrl_b + cloc, exps, abba,",
               "_add_deriv(outd_b + iloc, xin_a + iloc, xctrl_b + cloc, exps, abba,", expect="grad-pairing"),
        Mutant("spin kernel: one gradient contribution dropped", MU_C_REL,
               "            _add_deriv(outd_a + iloc, xin_a + iloc, xctrl_b + cloc, exps, abba,\n                       nfeat);\n",
               "", expect="grad-pairing"),
        Mutant("plain kernel: gradient taken with the antisym offsets", MU_C_REL,
               "_add_deriv(outd + iloc, xin + iloc, xctrl + cloc, exps, tot, nfeat);",
               "_add_deriv(outd + iloc, xin + iloc, xctrl + iloc, exps, tot, nfeat);", expect="grad-pairing"),
        Mutant("spin kernel: fused inline gradient loop with a wrong operand", MU_C_REL, fn=_fuse_spin_gradient_wrong,
               expect="grad-pairing"),
        Mutant("additive mapper: bounds looked up by subset position", MT, "bound=feature_list[inds[i]].bounds,",
               "bound=feature_list[i].bounds,", count=2, expect="index-space"),
        Mutant("simple mapper: bounds looked up by subset position", MT, "bound=feature_list[inds[i]].bounds,",
               "bound=feature_list[i].bounds,", count=1, expect="index-space"),
        Mutant("simple mapper: length scale looked up by feature index", MT,
               "                D[:, i],\n                length_scale[i],\n                density=rbf_density,",
               "                D[:, i],\n                length_scale[inds[i]],\n                density=rbf_density,",
               expect="index-space"),
        Mutant("additive mapper: grid dimension taken from the ungathered matrix", MT,
               "                D[:, i],\n                length_scale[i],\n                density=density,",
               "                X[:, i],\n                length_scale[i],\n                density=density,",
               expect="index-space"),
        Mutant("additive mapper: bounds taken from a derived list by subset position", MT, fn=_bounds_alias,
               expect="index-space"),
        Mutant("linear mapper: weights sized against the feature axis", MT, "assert X.shape[0] == alpha.size",
               "assert X.shape[1] == alpha.size", expect="weight-axis"),
        Mutant("RBFEvaluator: selection index sorted, exponents left in kernel order", XE,
               "            indexes = np.arange(X1ctrl.shape[-1])[kernel.indexes]\n",
               "            indexes = np.arange(X1ctrl.shape[-1])[kernel.indexes]\n            indexes = np.unique(indexes)\n",
               expect="rbf-extract"),
        Mutant("get_dim: bounds intersected with the control-point range", MT,
               "        mini, maxi = bound[0], bound[1]\n", "        mini = max(mini, bound[0])\n        maxi = min(maxi, bound[1])\n",
               expect="grid-extent"),
        Mutant("get_dim: upper bound ignored", MT, "        mini, maxi = bound[0], bound[1]\n", "        mini = bound[0]\n",
               expect="grid-extent"),
        Mutant("C kernel assigns instead of accumulating", MU_C_REL, "out[i] += tot;", "out[i] = tot;",
               expect="accumulate-c"),
        Mutant("RBFEvaluator: isotropic length scale no longer broadcast to one exponent per feature", XE,
               "            length_scale = np.full(len(indexes), length_scale.ravel()[0])\n", "            pass\n",
               expect="rbf-extract"),
        Mutant("additive mapper: plain additive kernels admitted but `.indexes` read unconditionally", MT,
               "ainds = np.arange(N)[getattr(arbf, \"indexes\", slice(None))]", "ainds = np.arange(N)[arbf.indexes]",
               expect="dispatch-total"),
        Mutant("additive mapper: mixin arm asserts there is no SubsetRBF prefactor", MT,
               "    elif isinstance(arbf, DiffAdditiveMixin):\n        for i in range(D.shape[1]):",
               "    elif isinstance(arbf, DiffAdditiveMixin):\n        assert srbf is None\n        for i in range(D.shape[1]):",
               expect="dispatch-total"),
        Mutant("get_dim: range truncated to whole length scales before the density factor", MT,
               "    ran = maxi - mini\n    ngrid = max(int(density * ran / length_scale) + 1, 3)",
               "    nscale = int((maxi - mini) / length_scale)\n    ngrid = max(int(density * nscale) + 1, 3)",
               expect="grid-extent"),
        Mutant("RBFEvaluator.__call__: gather skipped when the column counts agree", XE,
               "        X1 = np.ascontiguousarray(X1[..., self._indexes])\n",
               "        if self._nfeat == full_shape[-1]:\n            X1 = np.ascontiguousarray(X1)\n        else:\n            X1 = np.ascontiguousarray(X1[..., self._indexes])\n",
               expect="rbf-extract"),
        Mutant("antisym kernel: pair skipped when the first two sample features coincide", MU_C_REL,
               "            double fac = _evaluate_se(xi + 2, xc + 2, exps + 1, nfeat - 2);",
               "            if (xi[0] == xi[1] || xc[0] == xc[1]) {\n                continue;\n            }\n            double fac = _evaluate_se(xi + 2, xc + 2, exps + 1, nfeat - 2);",
               expect="grad-pairing"),
        Mutant("mapper: scale shifted before the constant term is formed", MT, fn=_shift_scale_early,
               expect="scale-order"),
        Mutant("arbf_args: order-2 block uses the order-1 scale", KN,
               "scale += [arbf_base.scale[2]] * (ndim * (ndim - 1) // 2)\n    if order > 2:",
               "scale += [arbf_base.scale[1]] * (ndim * (ndim - 1) // 2)\n    if order > 2:", expect="scale-order"),
        Mutant("arbf_args: order-2 block has ndim*(ndim+1)/2 entries", KN,
               "scale += [arbf_base.scale[2]] * (ndim * (ndim - 1) // 2)\n    if order > 2:",
               "scale += [arbf_base.scale[2]] * (ndim * (ndim + 1) // 2)\n    if order > 2:", expect="scale-order"),
        Mutant("mapper: index sets enumerated by descending order", MT, "for o in range(order + 1):",
               "for o in range(order, -1, -1):", expect="scale-order"),
        Mutant("spline gradient overwritten", XE, "dres[:, ind_set] += dy * self.scale[t]", "dres[:, ind_set] = dy * self.scale[t]",
               expect="spline-accumulate"),
        Mutant("spline const added inside the term loop", XE,
               "            res[:] += y * self.scale[t]\n", "            res[:] += y * self.scale[t] + self.const\n",
               expect="spline-accumulate"),
        Mutant("spline const not added to a passed buffer", XE, "        else:\n            res[:] += self.const\n", "",
               expect="spline-accumulate"),
        Mutant("spline gradient unscaled", XE, "dres[:, ind_set] += dy * self.scale[t]", "dres[:, ind_set] += dy",
               expect="spline-accumulate"),
        Mutant("spline gradient into wrong columns", XE, "dres[:, ind_set] += dy * self.scale[t]",
               "dres[:, : len(ind_set)] += dy * self.scale[t]", expect="spline-accumulate"),
    ]


if __name__ == "__main__":
    sys.exit(core.main(PROP, analyse, mutants, __doc__))
