"""
Demo: LCAONLDFGenerator.get_features_and_occ_derivs (the forward-mode feature
Jacobian used for occupation derivatives) is wrong whenever the theta exponent
depends on the density gradient (theta_params[1] = grad_mul != 0).

Three independent checks of  J . drho  (J = d feat / d rho_data):
  (a) central finite difference of the features,
  (b) transpose test against the reverse-mode routine get_potential:
          <c, J drho> == <J^T c, drho>,
  (c) the routine under test: occd returned by get_features_and_occ_derivs.
With grad_mul = 0 all three agree (control); with grad_mul = 0.3 (c) is off
by many orders of magnitude on the current code.

Run:  PYTHONPATH=/tmp/hunt/H5 /venv/bin/python demo.py
"""
import sys

import cider_build  # noqa: F401  (compiles libmcider and patches load_library)
import numpy as np
from pyscf import dft, gto

from ciderpress.dft.settings import NLDFSettingsVJ
from ciderpress.pyscf.gen_cider_grid import CiderGrids
from ciderpress.pyscf.nldf_convolutions import PyscfNLDFGenerator

mol = gto.M(atom="H 0 0 0; F 0 0.1 0.9", basis="def2-svp", verbose=0)
ks = dft.RKS(mol)
ks.xc = "PBE"
ks.kernel()
dm = ks.make_rdm1()
mo = ks.mo_coeff
# density response of the HOMO occupation
P = np.outer(mo[:, 4], mo[:, 4])

grids = CiderGrids(mol, lmax=6)
grids.level = 0
grids.build(with_non0tab=True)
ni = dft.numint.NumInt()
ao = ni.eval_ao(mol, grids.coords, deriv=1)
rho = ni.eval_rho(mol, ao, dm, xctype="MGGA", with_lapl=False)
drho = ni.eval_rho(mol, ao, P, xctype="MGGA", with_lapl=False)
mask = rho[0] > 1e-6  # compare where the density is not negligible
rng = np.random.default_rng(0)

failed = False
for grad_mul in [0.0, 0.3]:
    settings = NLDFSettingsVJ(
        "MGGA", [1.0, grad_mul, 0.03125], "one", ["se"], [[2.0, 0.0, 0.04]]
    )
    gen = PyscfNLDFGenerator.from_mol_and_settings(
        mol,
        grids.grids_indexer,
        1,
        settings,
        plan_type="spline",
        interpolator_type="train_gen",
    )
    gen.interpolator.set_coords(grids.coords)
    feat, occd = gen.get_features_and_occ_derivs(rho, drho[None])
    occd = occd[0]

    # (a) finite difference
    h = 1e-4
    fp = gen.get_features_and_occ_derivs(rho + h * drho, np.empty(0))[0]
    fm = gen.get_features_and_occ_derivs(rho - h * drho, np.empty(0))[0]
    fd = (fp - fm) / (2 * h)

    # (b) transpose test with the reverse-mode routine
    c = rng.normal(size=feat.shape) * grids.weights * mask
    gen.get_features(rho)
    vrho = gen.get_potential(c)
    vjp = np.sum(vrho * drho)
    jvp = np.sum(c * occd)
    jvp_fd = np.sum(c * fd)

    err_fd = np.abs(occd - fd)[:, mask].max() / np.abs(fd)[:, mask].max()
    err_t = abs(jvp - vjp) / abs(vjp)
    print("theta grad_mul = %.1f" % grad_mul)
    print("   max |d feat| from finite differences : %.6e" % np.abs(fd)[:, mask].max())
    print("   max |d feat| from occ-derivative code: %.6e" % np.abs(occd)[:, mask].max())
    print("   max |occd - fd| / max|fd|            : %.3e  (expected < 1e-3)" % err_fd)
    print("   <c, J drho>  fd=% .8e  occd=% .8e" % (jvp_fd, jvp))
    print("   <J^T c, drho> (get_potential)        =% .8e" % vjp)
    print("   |<c,J drho> - <J^T c,drho>|/|..|     : %.3e  (expected < 1e-6)" % err_t)
    if err_fd > 1e-3 or err_t > 1e-6:
        failed = True
        print("   --> MISMATCH")

if failed:
    print("FAIL: get_features_and_occ_derivs is not the Jacobian of get_features")
    sys.exit(1)
print("OK")
