"""C09: an NLDFNumInt that has been used once keeps its NLDF feature generator when the
grid it is called with has CHANGED, as long as the Grids *object* is the same.

NLDFNumInt.initialize_feature_generators (and its twin in NLDFNLOFNumInt) rebuild
self.nldfgen only if `self.grids != grids` / `self.mol != mol`; neither class defines
__eq__, so this is an identity test.  The usual PySCF way to change a grid is in place
(grids.level = ...; grids.build(), or mol.set_geom_(...); grids.build()).  The
generator caches the AtomicGridsIndexer (atomic weights, index map) and the interpolator
coordinates of the OLD grid, so the next nr_rks/nr_uks either
  * silently returns a different exc / vmat than a fresh calculator (same number of
    points: other Becke scheme, other geometry), or
  * crashes with a shape error (other number of points).
Stock pyscf NumInt objects are stateless and handle all of these.

Expected: used calculator == fresh calculator for every (mol, grids, dm).
"""
import os
import sys

HERE = os.path.dirname(os.path.abspath(__file__))
sys.path.insert(0, os.path.join(HERE, "..", "common"))
sys.path.insert(0, HERE)
os.environ.setdefault("OMP_NUM_THREADS", "2")
import cider_env

cider_env.install(need_c=True)

import warnings

import numpy as np
from pyscf import dft, gto

warnings.filterwarnings("ignore")

from synth import make_model

from ciderpress.dft.settings import NLDFSettingsVJ
from ciderpress.pyscf.gen_cider_grid import CiderGrids
from ciderpress.pyscf.nldf_convolutions import PySCFNLDFInitializer
from ciderpress.pyscf.numint import NLDFNumInt

GEOM1 = "O 0 0 0; H 0 0.757 0.587; H 0 -0.757 0.587"
GEOM2 = "O 0 0 0; H 0 0.900 0.700; H 0 -0.700 0.500"
mol = gto.M(atom=GEOM1, basis="6-31g", verbose=0)
grids = CiderGrids(mol)
grids.level = 0
grids.build(with_non0tab=True)

theta = [1.0, 0.0, 0.03125]
feat_params = [[1.0, 0.0, 0.03125], [2.0, 0.0, 0.03125]]
nldf_settings = NLDFSettingsVJ("MGGA", theta, "one", ["se", "se_ar2"], feat_params)
mlxc = make_model(nldf=nldf_settings)  # small synthetic CIDER model (random GP weights)


def new_ni():
    ni = NLDFNumInt(mlxc, "0.5*GGA_X_PBE + GGA_C_PBE",
                    PySCFNLDFInitializer(nldf_settings), None, xmix=0.5)
    ni.build(mol)
    return ni


mf = dft.RKS(mol)
mf.xc = "PBE"
mf.grids = grids
mf.kernel()
dm = mf.make_rdm1()

used = new_ni()
n0, e0, v0 = used.nr_rks(mol, grids, "PBE", dm)
n0b, e0b, v0b = used.nr_rks(mol, grids, "PBE", dm)
print("grid 0: %d points; repeated call on the used object: dE = %.1e, max|dV| = %.1e"
      % (grids.weights.size, e0b - e0, abs(v0b - v0).max()))

ok = True


def compare(label):
    global ok
    nf, ef, vf = new_ni().nr_rks(mol, grids, "PBE", dm)
    try:
        nu, eu, vu = used.nr_rks(mol, grids, "PBE", dm)
    except Exception as e:
        ok = False
        print("%-46s %5d points: fresh exc = %.10f, USED object raised %s: %s"
              % (label, grids.weights.size, ef, type(e).__name__, str(e)[:60]))
        return
    de, dv = eu - ef, abs(vu - vf).max()
    print("%-46s %5d points: fresh exc = %.10f, used exc = %.10f, dE = %.2e, max|dV| = %.2e"
          % (label, grids.weights.size, ef, eu, de, dv))
    if abs(de) > 1e-9 or dv > 1e-9:
        ok = False


# 1. other partitioning scheme, rebuilt in place (same points, different weights)
grids.becke_scheme = dft.gen_grid.stratmann
grids.build(with_non0tab=True)
compare("becke_scheme changed, grids.build()")

# 2. geometry changed in place, grid rebuilt in place (same number of points)
mol.set_geom_(GEOM2)
grids.build(with_non0tab=True)
compare("mol.set_geom_(...), grids.build()")

# 3. finer grid, rebuilt in place (different number of points)
grids.level = 1
grids.build(with_non0tab=True)
compare("grids.level = 1, grids.build()")

print("expected: dE = 0 and max|dV| = 0 (to round-off) in every line")
sys.exit(0 if ok else 1)
