import sys, os, ctypes
sys.path.insert(0, os.path.dirname(os.path.abspath(__file__)))
import patch_load
import numpy as np
from pyscf import gto
from ciderpress.pyscf.sdmx import eval_conv_sh
gomp = ctypes.CDLL("libgomp.so.1")
mol = gto.M(atom="O 0 0 0; H 0 0 40.0", unit="Bohr", basis="roos-dz", spin=1, verbose=0)
print(mol._bas)
rng = np.random.default_rng(0)
ng = 56*8
coords = np.array([0,0,40.0]) + rng.normal(size=(ng,3))*0.7
alphas = np.array([0.05, 0.2, 0.8, 3.2]); norms = np.ones(4)
plan = (alphas, norms, "gauss_diff")
from pyscf.gto.eval_gto import make_screen_index
tab = make_screen_index(mol, np.asfortranarray(coords), (0, mol.nbas), 1e-13)
print(tab)
def run(nt, cutoff):
    gomp.omp_set_num_threads(nt)
    nrf = int(mol._bas[:,3].sum())
    buf = np.full(4*nrf*ng + 8*ng, 7.0)
    res = eval_conv_sh(plan, mol, coords, deriv=0, cutoff=cutoff, out=buf)
    return np.array(res), buf[4*nrf*ng:].copy()
ref, pad = run(1, None)
r1, pad1 = run(1, 1e-13)
print("nrf", ref.shape, "pad touched (1 thread)", (pad1!=7.0).sum())
print("1thr screened vs unscreened max diff per rf", np.abs(r1-ref).max(axis=1))
for nt in [2,4,8,16]:
    for rep in range(3):
        r, p = run(nt, 1e-13)
        d = np.abs(r-r1).max(axis=1)
        print(nt, rep, "max diff vs 1 thread per (alpha, rf):", np.argwhere(d>0).tolist(), d.max())
