import sys, os, ctypes
sys.path.insert(0, os.path.dirname(__file__))
import cider_env; lib = cider_env.install()
import numpy as np
from pyscf.dft import gen_grid
from pyscf.dft.gen_grid import LEBEDEV_ORDER
def ylm_c(lmax, r):
    nlm=(lmax+1)**2; n=r.shape[0]
    out=np.zeros((n,nlm)); r=np.ascontiguousarray(r)
    lib.recursive_sph_harm_vec(ctypes.c_int(nlm), ctypes.c_int(n), r.ctypes.data_as(ctypes.c_void_p), out.ctypes.data_as(ctypes.c_void_p))
    return out
for lmax in [1,2,10,24,25,26,30]:
    order = 2*lmax+1
    n = LEBEDEV_ORDER[min(k for k in LEBEDEV_ORDER if k>=2*lmax)]
    grid = gen_grid.MakeAngularGrid(n)
    y = ylm_c(lmax, grid[:,:3])
    ov = np.einsum('g,gi,gj->ij', 4*np.pi*grid[:,3], y, y)
    err = np.abs(ov-np.eye(ov.shape[0]))
    bad = np.argwhere(err>1e-8)
    print(lmax, n, err.max(), [ (int(np.sqrt(i)), i-int(np.sqrt(i))**2-int(np.sqrt(i))) for i in sorted(set(bad[:,0].tolist()))][:8])
