#!/usr/bin/env python3
"""C12 -- feature transforms and normalisers have derivatives matching their values.
Static rules (DESIGN.md §C12); the numeric *coefficients* of a derivative formula are
NOT decided (that needs differentiation), see `not_decided`.

 accumulate     fill_deriv_ only accumulates (+=/-=) into dfdx; normalisers: dfdx '=', dfdrho/dfdinh '+='
 index-set      {self.<idx> read as x[..] by fill_feat_} == {self.<idx> written as dfdx[..] by fill_deriv_}
 linear-dfdy    every increment has degree exactly one in dfdy (units engine, symbol F)
 units          every rescaling symmetry of the value routine is one of the derivative routine:
                unit(increment to dfdx[i]) = unit(dfdy) * unit(y) / unit(x_i)      (equations over Q)
 clamp          fill_feat_ and fill_deriv_ clamp the same inputs with the same constants
 transpose      normalisers: coefficients of (dx, drho, dinh) in get_normed_feature_deriv == coefficients
                of dfdxn in the stores to (dfdx, dfdrho, dfdinh) of fill_bwd == d(fill_fwd)/dx   (E-mono)
 sl-transpose   per slmode: coefficients of DX[k] in _get_drho_and_dinh == coefficients of
                (dfdrho, dfdinh) added to df_dX0T[:, k] in get_derivative_wrt_unnormed_features   (E-mono)
 list-iter      FeatureList.__call__/fill_vals_/fill_derivs_ pair row i with feat_list[i]
"""
import ast
import os
import sys
from fractions import Fraction

sys.path.insert(0, os.path.dirname(os.path.dirname(os.path.abspath(__file__))))
from sa import core, pyfacts as pf, mono, hinline  # noqa: E402
from sa.mono import Poly, Evaluator, NotComparable, UnitInfer, UVec, POLYM  # noqa: E402
from sa.selftest import Mutant  # noqa: E402

PROP = "C12"
TD = "ciderpress/dft/transform_data.py"
FN = "ciderpress/dft/feat_normalizer.py"

CLAMP_FUNCS = {"np.maximum": "max", "np.minimum": "min", "np.clip": "clip", "np.abs": "abs", "abs": "abs"}


# ----------------------------------------------------------------------------
# helpers for the map classes
# ----------------------------------------------------------------------------
def registry_classes(mod):
    v = mod.assigns.get("ALL_CLASSES")
    if not isinstance(v, (ast.List, ast.Tuple)) or not all(isinstance(e, ast.Name) for e in v.elts):
        raise core.AnalysisError("ALL_CLASSES is no longer a literal list of class names in %s" % mod.rel)
    return [e.id for e in v.elts]


def map_routines(prog, mod, cls):
    """fill_feat_ / fill_deriv_ of a map class with private helpers (methods of the class or
    module-level functions) inlined, so that an extracted helper is read as if written in place"""
    ms = pf.methods(cls)
    if "fill_feat_" not in ms or "fill_deriv_" not in ms:
        raise core.AnalysisError("%s lacks fill_feat_/fill_deriv_" % cls.name)
    res = hinline.class_resolver(prog, mod, cls)
    return hinline.inline_helpers(ms["fill_feat_"], res), hinline.inline_helpers(ms["fill_deriv_"], res)


def resolve_literal(prog, mod, cls, node, depth=0):
    """numeric value of a literal, a module-level named constant or a class-level constant (else None)"""
    v = _lit(node)
    if v is not None or depth > 4:
        return v
    if isinstance(node, ast.Name) and cls is not None and prog.find_class_attr(mod, cls, node.id) is not None and depth > 0:
        return resolve_literal(prog, mod, cls, prog.find_class_attr(mod, cls, node.id)[2], depth + 1)
    if isinstance(node, ast.Name) and node.id in mod.assigns:
        return resolve_literal(prog, mod, cls, mod.assigns[node.id], depth + 1)
    if pf.is_self_attr(node) and cls is not None:
        r = prog.find_class_attr(mod, cls, node.attr)
        if r is not None:
            return resolve_literal(prog, mod, cls, r[2], depth + 1)
    return None


def routine_params(fn, n):
    names = [a.arg for a in fn.args.args]
    if not names or names[0] != "self" or len(names) < n + 1:
        raise core.AnalysisError("%s: unexpected signature (%s)" % (pf.qualname(fn), ", ".join(names)))
    return names[1:n + 1]


def index_aliases(fn):
    """local name -> self attribute, for `i = self.i` / `i, j = self.i, self.j`
    (single assignment only; a name bound twice is dropped)."""
    out, seen = {}, {}
    for n in pf.walk_no_nested(fn):
        if isinstance(n, ast.Assign) and len(n.targets) == 1:
            pairs = []
            t, v = n.targets[0], n.value
            if isinstance(t, ast.Name):
                pairs = [(t, v)]
            elif isinstance(t, ast.Tuple) and isinstance(v, ast.Tuple) and len(t.elts) == len(v.elts):
                pairs = list(zip(t.elts, v.elts))
            for tt, vv in pairs:
                if isinstance(tt, ast.Name):
                    seen[tt.id] = seen.get(tt.id, 0) + 1
                    if pf.is_self_attr(vv):
                        out[tt.id] = vv.attr
        elif isinstance(n, (ast.AugAssign,)) and isinstance(n.target, ast.Name):
            seen[n.target.id] = seen.get(n.target.id, 0) + 2
    return {k: v for k, v in out.items() if seen.get(k) == 1}


def idx_attr(sl, aliases):
    """subscript slice -> self attribute name used as the index, or None"""
    if pf.is_self_attr(sl):
        return sl.attr
    if isinstance(sl, ast.Name) and sl.id in aliases:
        return aliases[sl.id]
    return None


def fancy_index(sl, fn, aliases):
    """If the subscript is an index *array* (list literal, np.array/np.asarray of one, or a local
    bound once to one) whose elements are index attributes: the list of attributes; else None.
    A tuple subscript is multi-dimensional indexing, not an index array."""
    def attrs_of(e, depth=0):
        if isinstance(e, ast.Call) and pf.call_name(e) in ("np.array", "np.asarray", "numpy.array", "list") \
                and len(e.args) >= 1:
            return attrs_of(e.args[0], depth)
        if isinstance(e, ast.List) or (depth and isinstance(e, ast.Tuple)):
            out = []
            for x in e.elts:
                a = idx_attr(x, aliases)
                if a is None:
                    return None
                out.append(a)
            return out
        return None

    r = attrs_of(sl)
    if r is not None:
        return r
    if isinstance(sl, ast.Name):
        defs = [n for n in pf.walk_no_nested(fn) if isinstance(n, ast.Assign)
                and any(isinstance(t, ast.Name) and t.id == sl.id for t in n.targets)]
        if len(defs) == 1:
            return attrs_of(defs[0].value, depth=1)
    return None


def array_subscripts(fn, arr, aliases):
    """all Subscript nodes arr[<idx>] in fn -> list of (node, attr|None)"""
    out = []
    for n in pf.walk_no_nested(fn):
        if isinstance(n, ast.Subscript) and isinstance(n.value, ast.Name) and n.value.id == arr:
            out.append((n, idx_attr(n.slice, aliases)))
    return out


def bare_uses(fn, arr):
    """uses of the name `arr` that are not the base of a subscript / attribute"""
    out = []
    for n in pf.walk_no_nested(fn):
        if isinstance(n, ast.Name) and n.id == arr:
            p = pf.parent(n)
            if isinstance(p, ast.Subscript) and p.value is n:
                continue
            if isinstance(p, ast.Attribute) and p.attr in ("size", "shape", "ndim", "dtype"):
                continue
            out.append(n)
    return out


# ----------------------------------------------------------------------------
# rule: additive accumulation + index-set agreement (maps)
# ----------------------------------------------------------------------------
def rule_maps_structure(chk, prog):
    mod = prog.module(TD)
    for cname in registry_classes(mod):
        cls = mod.cls(cname)
        feat, der = map_routines(prog, mod, cls)
        y, x = routine_params(feat, 2)
        dfdx, dfdy, dx = routine_params(der, 3)
        al_f, al_d = index_aliases(feat), index_aliases(der)
        # --- accumulate
        if bare_uses(der, dfdx):
            raise core.AnalysisError("%s.fill_deriv_: `%s` is aliased or passed on; cannot track its stores" % (cname, dfdx))
        written = set()
        nstores = 0
        for node, attr in array_subscripts(der, dfdx, al_d):
            st = pf.parent(node)
            while st is not None and not isinstance(st, ast.stmt):
                st = pf.parent(st)
            inst = "%s.fill_deriv_ %s" % (cname, pf.src(st)[:70])
            is_store = (isinstance(st, ast.AugAssign) and st.target is node) or (
                isinstance(st, ast.Assign) and any(t is node for t in st.targets))
            fancy = fancy_index(node.slice, der, al_d) if attr is None else None
            if is_store and fancy is not None:
                nstores += 1
                written.update(fancy)
                if len(fancy) <= 1:
                    if isinstance(st, ast.AugAssign) and isinstance(st.op, (ast.Add, ast.Sub)):
                        chk.ok("accumulate", inst)
                        continue
                chk.violation("accumulate", TD, cname + ".fill_deriv_", pf.src(st), st.lineno,
                              "store through the index array [%s]: numpy's fancy-indexed (augmented) assignment is "
                              "unbuffered, so rows whose indices coincide receive only the last contribution; the "
                              "indices are constructor arguments and not provably distinct (use one += per index or "
                              "np.add.at)" % ", ".join("self." + a for a in fancy), instance=inst)
                continue
            if isinstance(st, ast.AugAssign) and st.target is node:
                nstores += 1
                if isinstance(st.op, (ast.Add, ast.Sub)):
                    chk.ok("accumulate", inst)
                else:
                    chk.violation("accumulate", TD, cname + ".fill_deriv_", pf.src(st), st.lineno,
                                  "store to %s uses `%s=`; derivative contributions of several maps reading the "
                                  "same raw feature must add up, so only += / -= is admissible" % (
                                      pf.src(node), type(st.op).__name__), instance=inst)
                if attr is None:
                    raise core.AnalysisError("%s.fill_deriv_: index of `%s` is not a self attribute" % (cname, pf.src(node)))
                written.add(attr)
            elif isinstance(st, ast.Assign) and any(t is node for t in st.targets):
                nstores += 1
                v = st.value
                same = isinstance(v, ast.BinOp) and isinstance(v.op, (ast.Add, ast.Sub)) and pf.src(v.left) == pf.src(node)
                if same:
                    chk.ok("accumulate", inst)
                else:
                    chk.violation("accumulate", TD, cname + ".fill_deriv_", pf.src(st), st.lineno,
                                  "plain assignment to %s overwrites the contributions that other maps of the same "
                                  "FeatureList already added for this raw feature (expected += / -=)" % pf.src(node),
                                  instance=inst)
                if attr is None:
                    raise core.AnalysisError("%s.fill_deriv_: index of `%s` is not a self attribute" % (cname, pf.src(node)))
                written.add(attr)
            elif isinstance(node.ctx, ast.Load):
                # reading dfdx back (e.g. dfdx[i] = dfdx[i] + ...) is fine
                continue
            else:
                raise core.AnalysisError("%s.fill_deriv_: unrecognised store shape `%s`" % (cname, pf.src(st)[:80]))
        if nstores == 0:
            raise core.AnalysisError("%s.fill_deriv_ never stores into %s" % (cname, dfdx))
        # --- index sets
        read = set()
        for node, attr in array_subscripts(feat, x, al_f):
            if attr is None:
                raise core.AnalysisError("%s.fill_feat_: index of `%s` is not a self attribute" % (cname, pf.src(node)))
            read.add(attr)
        if not read:
            raise core.AnalysisError("%s.fill_feat_ reads no raw feature" % cname)
        dread = set()
        for node, attr in array_subscripts(der, dx, al_d):
            if attr is not None:
                dread.add(attr)
        inst = "%s reads %s / writes %s" % (cname, sorted(read), sorted(written))
        if read == written:
            chk.ok("index-set", inst)
        else:
            miss, extra = sorted(read - written), sorted(written - read)
            chk.violation("index-set", TD, cname, "x[%s] vs dfdx[%s]" % (",".join(sorted(read)), ",".join(sorted(written))),
                          der.lineno,
                          "fill_feat_ reads raw features indexed by self.{%s} but fill_deriv_ adds derivative "
                          "contributions to self.{%s}%s%s" % (
                              ",".join(sorted(read)), ",".join(sorted(written)),
                              ("; no derivative w.r.t. x[self.%s]" % ", self.".join(miss)) if miss else "",
                              ("; spurious derivative w.r.t. x[self.%s]" % ", self.".join(extra)) if extra else ""),
                          instance=inst)
        if not dread <= read:
            chk.violation("index-set", TD, cname, "fill_deriv_ reads x[%s]" % ",".join(sorted(dread - read)), der.lineno,
                          "fill_deriv_ evaluates the derivative at raw features self.{%s} that the value routine "
                          "never reads" % ",".join(sorted(dread - read)))
        else:
            chk.ok("index-set", "%s derivative evaluated at a subset of the value's inputs" % cname, nontrivial=bool(dread))


# ----------------------------------------------------------------------------
# rule: clamp consistency (maps)
# ----------------------------------------------------------------------------
def _lit(node):
    if isinstance(node, ast.Constant) and isinstance(node.value, (int, float)) and not isinstance(node.value, bool):
        return float(node.value)
    if isinstance(node, ast.UnaryOp) and isinstance(node.op, ast.USub):
        v = _lit(node.operand)
        return None if v is None else -v
    return None


def clamp_signature(fn, x, aliases, const_of=None):
    """input attr -> frozenset of clamp constants applied to the value flowing from x[self.attr]
    through clamp wrappers (np.maximum/minimum/clip/abs), simple rebinding of locals and masked
    stores of a non-zero literal.  Non-literal bounds are resolved through const_of (class
    constants) or kept as their source text."""
    root = {}  # local name -> input attr
    sig = {}

    def bound(a):
        v = _lit(a)
        if v is not None:
            return v
        if const_of is not None:
            v = const_of(a)
            if v is not None:
                return v
        return "expr:" + pf.src(a)

    def input_of(e):
        """(attr, [consts]) if e is x[attr] wrapped only by clamp functions / a local carrying one"""
        if isinstance(e, ast.Call) and pf.call_name(e) in ("np.where", "numpy.where") and len(e.args) == 3 \
                and not e.keywords:
            # np.where(mask, literal, v) / np.where(mask, v, literal): the functional form of the
            # masked store `v[mask] = literal` (same treatment: a non-zero literal is a clamp constant)
            hits = [(i, input_of(e.args[i])) for i in (1, 2)]
            hits = [(i, r) for i, r in hits if r is not None]
            if len(hits) == 1:
                i, (attr, consts) = hits[0]
                v = _lit(e.args[3 - i])
                if v is not None:
                    return attr, consts + ([v] if v != 0 else [])
                # replacement by a non-literal: keep the flow, record the replacement symbolically so
                # that the other routine has to do the same
                return attr, consts + [bound(e.args[3 - i])]
            return None
        if isinstance(e, ast.Call) and pf.call_name(e) in CLAMP_FUNCS and not e.keywords:
            kind = CLAMP_FUNCS[pf.call_name(e)]
            if kind == "abs":
                return input_of(e.args[0]) if len(e.args) == 1 else None
            cands = [(i, input_of(a)) for i, a in enumerate(e.args)]
            hits = [(i, r) for i, r in cands if r is not None]
            if len(hits) != 1:
                return None
            i, (attr, consts) = hits[0]
            return attr, consts + [bound(a) for j, a in enumerate(e.args) if j != i]
        if isinstance(e, ast.Subscript) and isinstance(e.value, ast.Name) and e.value.id == x:
            a = idx_attr(e.slice, aliases)
            if a is not None:
                return a, []
        if isinstance(e, ast.Name) and e.id in root:
            return root[e.id], []
        return None

    def visit(stmts):
        for st in stmts:
            if isinstance(st, ast.Assign) and len(st.targets) == 1:
                t = st.targets[0]
                if isinstance(t, ast.Name):
                    r = input_of(st.value)
                    if r is not None:
                        root[t.id] = r[0]
                        sig.setdefault(r[0], set()).update(r[1])
                    else:
                        root.pop(t.id, None)
                elif isinstance(t, ast.Subscript) and isinstance(t.value, ast.Name) and t.value.id in root:
                    v = _lit(st.value)
                    if v is not None and v != 0:
                        sig.setdefault(root[t.value.id], set()).add(v)
            elif isinstance(st, ast.If):
                visit(st.body)
                visit(st.orelse)
            # clamp wrappers used inline, not through a local
            for n in ast.walk(st):
                if isinstance(n, ast.Call) and pf.call_name(n) in CLAMP_FUNCS:
                    r = input_of(n)
                    if r is not None:
                        sig.setdefault(r[0], set()).update(r[1])

    visit(fn.body)
    return {k: frozenset(v) for k, v in sig.items() if v}


def rule_clamp(chk, prog):
    mod = prog.module(TD)
    for cname in registry_classes(mod):
        cls = mod.cls(cname)
        feat, der = map_routines(prog, mod, cls)
        x = routine_params(feat, 2)[1]
        dx = routine_params(der, 3)[2]

        def const_of(a, cls=cls):
            return resolve_literal(prog, mod, cls, a)

        sf = clamp_signature(feat, x, index_aliases(feat), const_of)
        sd = clamp_signature(der, dx, index_aliases(der), const_of)
        used_d = {a for _, a in array_subscripts(der, dx, index_aliases(der)) if a}
        keys = sorted(set(sf) | set(sd))
        if not keys:
            chk.ok("clamp", "%s: no clamped input" % cname, nontrivial=False)
            continue
        for k in keys:
            a, b = sf.get(k, frozenset()), sd.get(k, frozenset())
            inst = "%s x[self.%s] value:%s deriv:%s" % (cname, k, sorted(a, key=str), sorted(b, key=str))
            if k not in used_d and not b:
                chk.ok("clamp", inst + " (not read by the derivative)", nontrivial=False)
            elif a == b:
                chk.ok("clamp", inst)
            else:
                chk.violation("clamp", TD, cname, "clamp of x[self.%s]" % k, der.lineno,
                              "fill_feat_ clamps x[self.%s] with constants %s but fill_deriv_ with %s: the derivative "
                              "is evaluated at a different effective input than the value" % (
                                  k, sorted(a, key=str), sorted(b, key=str)),
                              instance=inst)


# ----------------------------------------------------------------------------
# rule: units / linearity in dfdy (maps)
# ----------------------------------------------------------------------------
class MapLeaf:
    """leaf resolver of the units engine for one routine of one map class"""

    def __init__(self, prog, mod, cls, fn, role, chk):
        self.prog, self.mod, self.cls, self.fn, self.role = prog, mod, cls, fn, role
        if role == "feat":
            self.y, self.x = routine_params(fn, 2)
            self.dfdx = self.dfdy = None
        else:
            self.dfdx, self.dfdy, self.x = routine_params(fn, 3)
            self.y = None
        self.incr = []  # (attr, UVec|POLYM, stmt)
        self.yeq = []
        self._depth = 0

    def class_const(self, attr):
        r = self.prog.find_class_attr(self.mod, self.cls, attr)
        if r is None:
            return None
        return r[2]

    def const_units(self, expr, depth=0):
        """unit of a class-level / module-level constant expression (numbers and other named constants)"""
        def leaf(n, ui):
            if isinstance(n, tuple):
                return None
            if isinstance(n, ast.Name) and depth < 4:
                r = self.prog.find_class_attr(self.mod, self.cls, n.id)  # class body names (_B = 0.5 / (_A - 1))
                if r is not None:
                    return self.const_units(r[2], depth + 1)
                if n.id in self.mod.assigns:
                    return self.const_units(self.mod.assigns[n.id], depth + 1)
            if pf.is_self_attr(n) and depth < 4:
                r = self.prog.find_class_attr(self.mod, self.cls, n.attr)
                if r is not None:
                    return self.const_units(r[2], depth + 1)
            return None
        return UnitInfer(leaf).u(expr)

    def __call__(self, node, ui):
        if isinstance(node, tuple):
            if node[0] == "const?":
                # a bound that is a literal through a module-level / class-level name is a clamp constant
                return resolve_literal(self.prog, self.mod, self.cls, node[1]) is not None
            if node[0] == "rvalue":
                e = node[1]
                if pf.is_self_attr(e) and self._is_index_attr(e.attr):
                    return ("idx", e.attr)
                return None
            if node[0] == "store":
                _, t, op, v, st = node
                base = pf.base_name(t)
                if base == self.y and self.role == "feat":
                    if v is not POLYM:
                        self.yeq.append((v, st))
                    return True
                if base == self.dfdx and self.role == "deriv":
                    a = self._idx(t.slice, ui)
                    if a is None:
                        raise core.AnalysisError("units: index of %s" % pf.src(t))
                    self.incr.append((a, v, st))
                    return True
                if base == self.x:
                    # in-place sanitising of the input (NaN -> 0): unit preserving
                    return True
                return None
            return None
        if isinstance(node, ast.Call):
            f = node.func
            if isinstance(f, ast.Attribute) and isinstance(f.value, ast.Name) and f.value.id == "self" \
                    and not node.keywords and self._depth < 4:
                r = self.prog.find_method(self.mod, self.cls, f.attr)
                if r is None:
                    return None
                callee = r[2]
                params = [a.arg for a in callee.args.args[1:]]
                if len(params) != len(node.args):
                    return None
                env = {p: ui.value(a) for p, a in zip(params, node.args)}
                sub = UnitInfer(self, env=env)
                self._depth += 1
                try:
                    sub.run(callee.body)
                finally:
                    self._depth -= 1
                ui.eqs.extend(sub.eqs)
                rets = [s for s in sub.sinks if s[0] == "return"]
                if len(rets) != 1:
                    return None
                return rets[0][3]
            return None
        if isinstance(node, ast.Name):
            if node.id == self.dfdy:
                return UVec({"F": 1, "Y": -1})
            if node.id == self.x:
                return UVec({"X*": 1})
            if node.id in self.mod.assigns and node.id not in ui.env:
                return self.const_units(self.mod.assigns[node.id])  # module-level named constant
            return None
        if isinstance(node, ast.Attribute):
            if pf.is_self_attr(node):
                cc = self.class_const(node.attr)
                if cc is not None:
                    return self.const_units(cc)  # numeric class constant
                return UVec({"p:" + node.attr: 1})
            return None
        if isinstance(node, ast.Subscript):
            b = node.value
            if isinstance(b, ast.Name) and b.id == self.x:
                a = self._idx(node.slice, ui)
                if a is None:
                    raise core.AnalysisError("units: index of %s" % pf.src(node))
                return UVec({"x:" + a: 1})
            if isinstance(b, ast.Name) and b.id == self.dfdy:
                return UVec({"F": 1, "Y": -1})
            if isinstance(b, ast.Name) and self.dfdx is not None and b.id == self.dfdx:
                a = self._idx(node.slice, ui)
                if a is None:
                    raise core.AnalysisError("units: index of %s" % pf.src(node))
                return UVec({"F": 1, "x:" + a: -1})  # reading the accumulator back
            return None
        return None

    def _is_index_attr(self, attr):
        # an attribute is an index when it is used to subscript x / dfdx somewhere in the class
        for m in pf.methods(self.cls).values():
            if m.name not in ("fill_feat_", "fill_deriv_"):
                continue
            al = index_aliases(m)
            for n in pf.walk_no_nested(m):
                if isinstance(n, ast.Subscript) and idx_attr(n.slice, al) == attr:
                    return True
        return False

    def _idx(self, sl, ui):
        if pf.is_self_attr(sl):
            return sl.attr
        if isinstance(sl, ast.Name):
            v = ui.env.get(sl.id)
            if isinstance(v, tuple) and len(v) == 2 and v[0] == "idx":
                return v[1]
        return None


def fmt_unit(vec):
    def nm(k):
        if k.startswith("x:"):
            return "[x[self.%s]]" % k[2:]
        if k.startswith("p:"):
            return "[self.%s]" % k[2:]
        return {"Y": "[y]", "F": "[f]"}.get(k, k)
    if not vec.d:
        return "1"
    return " * ".join("%s^%s" % (nm(k), v) if v != 1 else nm(k) for k, v in sorted(vec.d.items()))


def fmt_relation(vec):
    return fmt_unit(vec) + " = 1"


def rule_units(chk, prog):
    mod = prog.module(TD)
    for cname in registry_classes(mod):
        cls = mod.cls(cname)
        feat, der = map_routines(prog, mod, cls)
        lf = MapLeaf(prog, mod, cls, feat, "feat", chk)
        uf = UnitInfer(lf)
        uf.run(feat.body)
        if not lf.yeq:
            raise core.AnalysisError("%s.fill_feat_: no store to the output found" % cname)
        sysf = mono.LinSys()
        for e in uf.eqs:
            sysf.add(e.vec)
        for v, st in lf.yeq:
            sysf.add(v - UVec({"Y": 1}))
        ld = MapLeaf(prog, mod, cls, der, "deriv", chk)
        ud = UnitInfer(ld)
        ud.run(der.body)
        if not ld.incr:
            raise core.AnalysisError("%s.fill_deriv_: no increment found" % cname)
        chk.count("unit equations (value)", len(uf.eqs) + len(lf.yeq))
        chk.count("unit equations (derivative)", len(ud.eqs) + len(ld.incr))
        # internal equations of the derivative routine
        for e in ud.eqs:
            res = sysf.reduce(e.vec)
            inst = "%s.fill_deriv_ %s" % (cname, e.why[:80])
            rule = "linear-dfdy" if "F" in res.d else "units"
            if res.is_zero():
                chk.ok("units", inst)
            else:
                line = getattr(e.node, "lineno", der.lineno)
                if rule == "linear-dfdy":
                    msg = ("%s mixes terms of different degree in dfdy (the derivative routine must be linear "
                           "in dfdy)" % e.why)
                else:
                    msg = ("%s requires the unit relation %s, which the value routine does not imply: a rescaling "
                           "of raw features / parameters that leaves fill_feat_ covariant changes this expression "
                           "inconsistently" % (e.why, fmt_relation(res)))
                chk.violation(rule, TD, cname + ".fill_deriv_", e.why, line, msg, instance=inst)
        for attr, v, st in ld.incr:
            inst = "%s.fill_deriv_ %s" % (cname, pf.src(st)[:80])
            if v is POLYM:
                chk.violation("linear-dfdy", TD, cname + ".fill_deriv_", pf.src(st), st.lineno,
                              "increment to dfdx[self.%s] does not depend on dfdy" % attr, instance=inst)
                continue
            want = UVec({"F": 1, "x:" + attr: -1})
            res = sysf.reduce(v - want)
            # linearity: the F-degree of the increment itself
            fdeg = v.d.get("F", 0)
            if fdeg != 1:
                chk.violation("linear-dfdy", TD, cname + ".fill_deriv_", pf.src(st), st.lineno,
                              "increment to dfdx[self.%s] has degree %s in dfdy, expected exactly 1 (chain rule: "
                              "dfdx += dfdy * dy/dx)" % (attr, fdeg), instance=inst)
                continue
            chk.ok("linear-dfdy", inst)
            if res.is_zero():
                chk.ok("units", inst)
            else:
                chk.violation("units", TD, cname + ".fill_deriv_", pf.src(st), st.lineno,
                              "increment to dfdx[self.%s] has unit %s but the chain rule needs [f]/[x[self.%s]] "
                              "given the value routine's unit of y; residual relation %s is not implied by "
                              "fill_feat_ (a factor or power of a raw feature / parameter is missing or spurious)" % (
                                  attr, fmt_unit(v), attr, fmt_relation(res)), instance=inst)


# ----------------------------------------------------------------------------
# rule: FeatureList iteration
# ----------------------------------------------------------------------------
def _loop_pairs(fn, meth):
    """for the single loop of fn that calls <elem>.<meth>(...): returns
    (iter_src, elem_index_src, call) where elem_index_src is the expression indexing self.feat_list"""
    out = []
    for n in pf.walk_no_nested(fn):
        if isinstance(n, ast.For):
            for c in ast.walk(n):
                if isinstance(c, ast.Call) and isinstance(c.func, ast.Attribute) and c.func.attr == meth:
                    out.append((n, c))
    if len(out) != 1:
        raise core.AnalysisError("%s: expected exactly one loop calling %s, found %d" % (pf.qualname(fn), meth, len(out)))
    return out[0]


def rule_list_iter(chk, prog):
    mod = prog.module(TD)
    cls = mod.cls("FeatureList")
    ms = dict(pf.methods(cls))
    for nm in ("__call__", "fill_vals_", "fill_derivs_"):
        if nm not in ms:
            raise core.AnalysisError("FeatureList.%s vanished" % nm)
        ms[nm] = hinline.inline_helpers(ms[nm], hinline.class_resolver(prog, mod, cls))
    nfeat = ms.get("nfeat")
    nfeat_ok = nfeat is not None and any(
        isinstance(n, ast.Return) and pf.src(n.value) == "len(self.feat_list)" for n in ast.walk(nfeat))

    def analyse(fn, meth, row_args, whole_args):
        loop, call = _loop_pairs(fn, meth)
        it = pf.src(loop.iter)
        recv = call.func.value
        qn = "FeatureList." + fn.name
        zipped = None
        # canonical description of (element, row index)
        if it in ("range(self.nfeat)", "range(len(self.feat_list))") and isinstance(loop.target, ast.Name):
            if it == "range(self.nfeat)" and not nfeat_ok:
                raise core.AnalysisError("FeatureList.nfeat is no longer len(self.feat_list)")
            lv = loop.target.id
            elem_ok = pf.src(recv) == "self.feat_list[%s]" % lv
            rowidx = lv
        elif it == "enumerate(self.feat_list)" and isinstance(loop.target, ast.Tuple) and len(loop.target.elts) == 2:
            lv = pf.src(loop.target.elts[0])
            elem_ok = pf.src(recv) == pf.src(loop.target.elts[1])
            rowidx = lv
        elif pf.call_name(loop.iter) == "zip" and len(loop.iter.args) == 2 and pf.src(loop.iter.args[0]) == "self.feat_list" \
                and isinstance(loop.target, ast.Tuple) and len(loop.target.elts) == 2 \
                and all(isinstance(e, ast.Name) for e in loop.target.elts) and isinstance(loop.iter.args[1], ast.Name):
            # for f, row in zip(self.feat_list, ARR): the second target *is* row i of ARR
            elem_ok = pf.src(recv) == loop.target.elts[0].id
            rowidx = None
            zipped = (loop.iter.args[1].id, loop.target.elts[1].id)
        else:
            raise core.AnalysisError("%s: unrecognised iteration `for %s in %s`" % (qn, pf.src(loop.target), it))
        inst = "%s: for %s in %s -> %s" % (qn, pf.src(loop.target), it, pf.src(call)[:70])
        bad = []
        if not elem_ok:
            bad.append("receiver %s is not the element selected by the loop variable" % pf.src(recv))
        for pos, base in row_args:
            a = call.args[pos] if pos < len(call.args) else None
            if rowidx is None:
                if not (isinstance(a, ast.Name) and zipped == (base, a.id)):
                    bad.append("argument %d is `%s`, expected the row of `%s` zipped with the element" % (
                        pos, pf.src(a) if a is not None else None, base))
                continue
            if not (isinstance(a, ast.Subscript) and pf.src(a.slice) == rowidx and isinstance(a.value, ast.Name)
                    and a.value.id == base):
                bad.append("argument %d is `%s`, expected row `%s[%s]` of the same element" % (
                    pos, pf.src(a) if a is not None else None, base, rowidx))
        for pos, base in whole_args:
            a = call.args[pos] if pos < len(call.args) else None
            if not (isinstance(a, ast.Name) and a.id == base):
                bad.append("argument %d is `%s`, expected the whole array `%s`" % (
                    pos, pf.src(a) if a is not None else None, base))
        if bad:
            chk.violation("list-iter", TD, qn, pf.src(call), call.lineno, "; ".join(bad), instance=inst)
        else:
            chk.ok("list-iter", inst)

    f = ms["fill_vals_"]
    t, x = routine_params(f, 2)
    analyse(f, "fill_feat_", [(0, t)], [(1, x)])
    f = ms["fill_derivs_"]
    dfdx, dfdy, x = routine_params(f, 3)
    analyse(f, "fill_deriv_", [(1, dfdy)], [(0, dfdx), (2, x)])
    # __call__: locals tdesc / xdesc
    f = ms["__call__"]
    loop, call = _loop_pairs(f, "fill_feat_")
    if len(call.args) == 2 and isinstance(call.args[0], ast.Subscript) and isinstance(call.args[1], ast.Name):
        analyse(f, "fill_feat_", [(0, pf.base_name(call.args[0]))], [(1, call.args[1].id)])
    else:
        raise core.AnalysisError("FeatureList.__call__: unrecognised fill_feat_ call")


# ----------------------------------------------------------------------------
# normalisers (E-mono)
# ----------------------------------------------------------------------------
FWD_ROLES = ["X", "RHO", "INH", "xn"]
BWD_ROLES = ["DFDXN", "X", "RHO", "INH", "dfdx", "dfdrho", "dfdinh"]
GNFD_ROLES = ["X", "RHO", "INH", "DX", "DRHO", "DINH"]
BUF_ROLES = {"xn", "dfdx", "dfdrho", "dfdinh"}


def normalizer_classes(prog):
    mod = prog.module(FN)
    out = []
    for m, c in prog.subclasses("FeatNormalizer"):
        if m.rel != FN or c.name == "FeatNormalizer":
            continue
        out.append(c)
    if not out:
        raise core.AnalysisError("no FeatNormalizer subclasses found in %s" % FN)
    return mod, out


def method_evaluator(prog, mod, cls, fn, roles, assume=None):
    """Evaluator for one method with its parameters bound to canonical role atoms /
    buffers; calls to other methods of the same object are inlined."""
    params = [a.arg for a in fn.args.args[1:]]
    if len(params) != len(roles):
        raise core.AnalysisError("%s.%s: %d parameters, expected the %d of the abstract interface (%s)" % (
            cls.name, fn.name, len(params), len(roles), ", ".join(roles)))
    env = {}
    for p, r in zip(params, roles):
        if r in BUF_ROLES:
            env[p] = mono.Buf(r)
        elif isinstance(r, mono.ArrayIn):
            env[p] = r
        else:
            env[p] = Poly.name(r)

    numeric = {k: v for k, v in (assume or {}).items()
               if v is not mono.ELSE and isinstance(v, (int, float)) and not isinstance(v, bool)}

    def attr_leaf(node):
        # an instance attribute assumed to have a numeric value on this path is that value
        if isinstance(node, ast.Attribute) and pf.src(node) in numeric:
            return mono.num_const(numeric[pf.src(node)])
        return None

    def call_hook(node, ev, _depth=[0]):
        f = node.func
        if isinstance(f, ast.Attribute) and isinstance(f.value, ast.Name) and f.value.id == "self":
            r = prog.find_method(mod, cls, f.attr)
            if r is None or _depth[0] > 4:
                return None
            callee = r[2]
            vals = []
            for a in node.args:
                vals.append(ev._safe(lambda a=a: ev.ev(a)))
            cenv = mono.bind_params(callee, vals)
            names = [a.arg for a in callee.args.args[1:]]
            for kw in node.keywords:
                if kw.arg in names:
                    cenv[kw.arg] = ev._safe(lambda kw=kw: ev.ev(kw.value))
            sub = Evaluator(env=cenv, assume=ev.assume, leaf=attr_leaf, call=call_hook, module_consts=ev.module_consts)
            sub.elementwise_index = ev.elementwise_index
            _depth[0] += 1
            try:
                v = sub.run_function(callee)
            finally:
                _depth[0] -= 1
            ev.stores.extend(sub.stores)
            return v
        if isinstance(f, ast.Name) and f.id in mod.functions and _depth[0] <= 4:
            callee = mod.functions[f.id]
            vals = [ev._safe(lambda a=a: ev.ev(a)) for a in node.args]
            cenv = mono.bind_params(callee, vals, skip_self=False)
            names = [a.arg for a in callee.args.args]
            for kw in node.keywords:
                if kw.arg in names:
                    cenv[kw.arg] = ev._safe(lambda kw=kw: ev.ev(kw.value))
            sub = Evaluator(env=cenv, assume=ev.assume, leaf=attr_leaf, call=call_hook, module_consts=ev.module_consts)
            sub.elementwise_index = ev.elementwise_index
            _depth[0] += 1
            try:
                return sub.run_function(callee)
            finally:
                _depth[0] -= 1
        return None

    return Evaluator(env=env, assume=assume, leaf=attr_leaf, call=call_hook, module_consts=mod.assigns)


def split_linear(p, atoms, what):
    """p = sum_k coef_k * atom_k exactly; -> {atom: coef}.  Raises NonLinear/NotComparable."""
    out = {}
    rest = p
    for a in atoms:
        c, rest = mono.coefficient(rest, ("n", a))
        out[a] = c
    if not rest.is_zero():
        raise mono.NonLinear("%s has a term without any of %s: %s" % (what, "/".join(atoms), mono.show(rest)[:80]))
    for a, c in out.items():
        if c.atoms() & {("n", b) for b in atoms}:
            raise mono.NonLinear("%s: coefficient of %s contains another differential" % (what, a))
    return out


def attribute_guard_paths(prog, mod, cls, fns):
    """Outcomes of the guards `self.<attr> <op> <number>` in the given routines (helpers inlined):
    list of assumption dicts {'self.attr': number | ELSE}; [{}] when there is no such guard."""
    import itertools
    values = {}
    ordered = set()
    for fn in fns:
        fi = hinline.inline_helpers(fn, hinline.class_resolver(prog, mod, cls))
        for n in pf.walk_no_nested(fi):
            if isinstance(n, (ast.If, ast.IfExp, ast.While)):
                for c in ast.walk(n.test):
                    if isinstance(c, ast.Compare) and len(c.ops) == 1 and pf.is_self_attr(c.left) \
                            and _lit(c.comparators[0]) is not None:
                        v = _lit(c.comparators[0])
                        values.setdefault(pf.src(c.left), set()).add(int(v) if float(v).is_integer() else v)
                        if isinstance(c.ops[0], (ast.Lt, ast.LtE, ast.Gt, ast.GtE)):
                            ordered.add(pf.src(c.left))
    if not values:
        return [{}]
    keys = sorted(values)
    opts = []
    for k in keys:
        vs = sorted(values[k])
        if k in ordered and len(vs) == 1:
            opts.append(vs + [("lt", vs[0]), ("gt", vs[0])])  # below / at / above the bound
        else:
            opts.append(vs + [mono.ELSE])
    paths = [dict(zip(keys, combo)) for combo in itertools.product(*opts)]
    if len(paths) > 32:
        raise core.AnalysisError("%s: %d guard outcomes on instance attributes, too many to enumerate" % (cls.name, len(paths)))
    return paths


def path_text(path):
    if not path:
        return ""
    def one(v):
        if v is mono.ELSE:
            return "is any other value"
        if isinstance(v, tuple):
            return "%s %s" % ("<" if v[0] == "lt" else ">", v[1])
        return "== %s" % v
    return " [" + ", ".join("%s %s" % (k, one(v)) for k, v in sorted(path.items())) + "]"


def rule_normalizers(chk, prog):
    mod, classes = normalizer_classes(prog)
    for cls in classes:
        fns = []
        for nm in ("fill_fwd", "fill_bwd", "get_normed_feature_deriv"):
            r = prog.find_method(mod, cls, nm)
            if r is None or r[1].name == "FeatNormalizer":
                raise core.AnalysisError("%s does not implement %s" % (cls.name, nm))
            fns.append(r[2])
        for path in attribute_guard_paths(prog, mod, cls, fns):
            _normalizer_on_path(chk, prog, mod, cls, path)


def _normalizer_on_path(chk, prog, mod, cls, path):
    if True:
        cname = cls.name
        ptxt = path_text(path)
        ms = {}
        for nm in ("fill_fwd", "fill_bwd", "get_normed_feature_deriv"):
            r = prog.find_method(mod, cls, nm)
            if r is None or r[1].name == "FeatNormalizer":
                raise core.AnalysisError("%s does not implement %s" % (cname, nm))
            ms[nm] = r[2]
        # ---- fill_fwd
        ev = method_evaluator(prog, mod, cls, ms["fill_fwd"], FWD_ROLES, path)
        ev.run_function(ms["fill_fwd"])
        fst = [s for s in ev.stores if isinstance(s.target, mono.Buf) and s.target.role == "xn"]
        K = None
        why_nc = None
        if len(fst) == 1 and fst[0].op == "=" and fst[0].depth == 0 and isinstance(fst[0].value, Poly):
            try:
                K = split_linear(fst[0].value, ["X"], "%s.fill_fwd" % cname)["X"]
            except mono.NonLinear as e:
                chk.violation("transpose", FN, cname + ".fill_fwd", pf.src(fst[0].node), fst[0].node.lineno,
                              "normalised feature is not linear in x (%s); the forward/backward routines treat it "
                              "as x times a factor" % e)
            except NotComparable as e:
                why_nc = str(e)
        else:
            why_nc = "stores to xn: %r" % fst
        # ---- fill_bwd
        ev = method_evaluator(prog, mod, cls, ms["fill_bwd"], BWD_ROLES, path)
        ev.run_function(ms["fill_bwd"])
        bw = {"dfdx": Poly(), "dfdrho": Poly(), "dfdinh": Poly()}
        bw_nc = None
        seen_roles = set()
        for s in ev.stores:
            if not isinstance(s.target, mono.Buf) or s.target.role not in bw:
                continue
            role = s.target.role
            seen_roles.add(role)
            inst = "%s.fill_bwd %s" % (cname, pf.src(s.node)[:70])
            if role == "dfdx":
                if s.op == "=":
                    chk.ok("accumulate", inst)
                else:
                    chk.violation("accumulate", FN, cname + ".fill_bwd", pf.src(s.node), s.node.lineno,
                                  "dfdx is an uninitialised output (np.empty_like) and must be assigned, found `%s`" % s.op,
                                  instance=inst)
            else:
                if s.op in ("+=", "-="):
                    chk.ok("accumulate", inst)
                else:
                    chk.violation("accumulate", FN, cname + ".fill_bwd", pf.src(s.node), s.node.lineno,
                                  "%s is shared by all normalisers of a FeatNormalizerList and must be accumulated "
                                  "with +=, found `%s`: the contribution of the previous features through %s is "
                                  "overwritten" % (role, s.op, "rho" if role == "dfdrho" else "inh"), instance=inst)
            if s.key != () or s.depth != 0 or not isinstance(s.value, Poly):
                bw_nc = "store %s is partial, conditional or outside the monomial fragment (%r)" % (
                    pf.src(s.node)[:50], s.value)
                continue
            bw[role] = bw[role] + (-s.value if s.op == "-=" else s.value)
        if "dfdx" not in seen_roles:
            chk.violation("transpose", FN, cname + ".fill_bwd", "no store to dfdx", ms["fill_bwd"].lineno,
                          "fill_bwd never fills dfdx")
        # ---- get_normed_feature_deriv
        ev = method_evaluator(prog, mod, cls, ms["get_normed_feature_deriv"], GNFD_ROLES, path)
        R = ev.run_function(ms["get_normed_feature_deriv"])
        # ---- compare
        pairs = (("DX", "dfdx"), ("DRHO", "dfdrho"), ("DINH", "dfdinh"))
        try:
            if not isinstance(R, Poly):
                raise NotComparable("get_normed_feature_deriv returns %r" % (R,))
            if bw_nc:
                raise NotComparable(bw_nc)
            fw = split_linear(R, ["DX", "DRHO", "DINH"], "%s.get_normed_feature_deriv" % cname)
            bcoef = {}
            for role, p in bw.items():
                bcoef[role] = split_linear(p, ["DFDXN"], "%s.fill_bwd store to %s" % (cname, role))["DFDXN"]
        except mono.NonLinear as e:
            chk.violation("transpose", FN, cname, "linearity", cls.lineno,
                          "not linear in the differentials: %s" % e, instance="%s linearity%s" % (cname, ptxt))
            return
        except NotComparable as e:
            chk.note("transpose", "%s:%s" % (FN, cname), "not comparable: %s" % e)
            chk.count("transpose not-comparable")
            return
        for d, role in pairs:
            a, b = fw[d], bcoef[role]
            inst = "%s%s d(xn)/d%s: forward %s | reverse %s" % (cname, ptxt, d[1:].lower(), mono.show(a)[:60], mono.show(b)[:60])
            verdict = mono.definitely_different(a, b)
            if verdict == "equal":
                chk.ok("transpose", inst, nontrivial=not a.is_zero())
            elif verdict == "different":
                chk.violation("transpose", FN, cname, "coefficient of %s vs store to %s%s" % (d.lower(), role, ptxt), cls.lineno,
                              "on the path" + (ptxt or " without attribute guards") + ": "
                              "forward mode (get_normed_feature_deriv) multiplies %s by  %s  but reverse mode "
                              "(fill_bwd) adds dfdxn times  %s  to %s: the two are not transposes of each other" % (
                                  d.lower(), mono.show(a), mono.show(b), role), instance="%s %s%s" % (cname, d, ptxt))
            else:
                chk.note("transpose", "%s:%s" % (FN, cname), "coefficient of %s not comparable: %s vs %s" % (
                    d, mono.show(a), mono.show(b)))
                chk.count("transpose not-comparable")
        if K is not None:
            verdict = mono.definitely_different(K, fw["DX"])
            inst = "%s%s xn/x = %s vs d(xn)/dx = %s" % (cname, ptxt, mono.show(K)[:60], mono.show(fw["DX"])[:60])
            if verdict == "equal":
                chk.ok("transpose", inst)
            elif verdict == "different":
                chk.violation("transpose", FN, cname, "fill_fwd factor vs derivative w.r.t. x" + ptxt, cls.lineno,
                              "fill_fwd computes xn = x * (%s) but the derivative routines use d(xn)/dx = %s" % (
                                  mono.show(K), mono.show(fw["DX"])), instance="%s fwd-x%s" % (cname, ptxt))
            else:
                chk.count("transpose not-comparable")
        elif why_nc:
            chk.note("transpose", "%s:%s.fill_fwd" % (FN, cname), "not comparable: %s" % why_nc)
            chk.count("transpose not-comparable")
        # ---- symbolic derivative of the value routine against the forward-mode coefficients
        if len(fst) == 1 and fst[0].op == "=" and fst[0].depth == 0 and isinstance(fst[0].value, Poly):
            V = fst[0].value
            for role, d in (("X", "DX"), ("RHO", "DRHO"), ("INH", "DINH")):
                inst = "%s%s d(fill_fwd)/d%s" % (cname, ptxt, role.lower())
                try:
                    want = mono.diff(V, ("n", role))
                    verdict = mono.definitely_different(want, fw[d])
                except NotComparable as e:
                    chk.note("deriv-symbolic", "%s:%s" % (FN, cname), "d/d%s: %s" % (role.lower(), e))
                    chk.count("deriv-symbolic not-comparable")
                    continue
                if verdict == "equal":
                    chk.ok("deriv-symbolic", inst + " = " + mono.show(want)[:60], nontrivial=not want.is_zero())
                elif verdict == "different":
                    chk.violation("deriv-symbolic", FN, cname + ".get_normed_feature_deriv",
                                  "d(fill_fwd)/d%s%s" % (role.lower(), ptxt), ms["get_normed_feature_deriv"].lineno,
                                  "fill_fwd computes xn = %s ; its derivative with respect to %s is  %s  but "
                                  "get_normed_feature_deriv multiplies d%s by  %s" % (
                                      mono.show(V)[:120], role.lower(), mono.show(want)[:200], role.lower(),
                                      mono.show(fw[d])[:200]), instance=inst)
                else:
                    chk.note("deriv-symbolic", "%s:%s" % (FN, cname), "d/d%s not comparable: %s vs %s" % (
                        role.lower(), mono.show(want)[:80], mono.show(fw[d])[:80]))
                    chk.count("deriv-symbolic not-comparable")


def slmode_literals(fns):
    lits = []
    for fn in fns:
        for n in pf.walk_no_nested(fn):
            if isinstance(n, ast.Compare) and pf.src(n.left) == "self.slmode" and len(n.ops) == 1 \
                    and isinstance(n.ops[0], ast.Eq) and isinstance(n.comparators[0], ast.Constant):
                if n.comparators[0].value not in lits:
                    lits.append(n.comparators[0].value)
    return lits


def carriers(polys, prefix="X["):
    """row name -> set of top-level atoms through which that row enters the forms"""
    out = {}
    for p in polys:
        for m in p.terms:
            for a, ek in m:
                inner = Poly({((a, ek),): Fraction(1)}).atoms()
                for b in inner:
                    if b[0] == "n" and b[1].startswith(prefix):
                        out.setdefault(b[1], set()).add(a)
    return out


def rule_sl_transpose(chk, prog):
    mod = prog.module(FN)
    cls = mod.cls("FeatNormalizerList")
    ms = pf.methods(cls)
    for nm in ("_get_rho_and_inh", "_get_drho_and_dinh", "get_derivative_wrt_unnormed_features"):
        if nm not in ms:
            raise core.AnalysisError("FeatNormalizerList.%s vanished" % nm)
    res_ = hinline.class_resolver(prog, mod, cls, exclude=("_get_rho_and_inh", "_get_drho_and_dinh", "_check_shape"))
    ms = dict(ms)
    for nm in ("_get_drho_and_dinh", "get_derivative_wrt_unnormed_features"):
        ms[nm] = hinline.inline_helpers(ms[nm], res_)  # a driver split into private helpers reads as one routine
    f_fwd, f_rev = ms["_get_drho_and_dinh"], ms["get_derivative_wrt_unnormed_features"]
    # accumulators handed to fill_bwd
    acc = {}
    out_name = None
    for n in pf.walk_no_nested(f_rev):
        if isinstance(n, ast.Call) and isinstance(n.func, ast.Attribute) and n.func.attr == "fill_bwd":
            kws = {k.arg: k.value for k in n.keywords}
            pos = list(n.args)
            for i, role in enumerate(BWD_ROLES):
                v = kws.get(role, pos[i] if i < len(pos) else None)
                if role in ("dfdrho", "dfdinh"):
                    if not isinstance(v, ast.Name):
                        raise core.AnalysisError("fill_bwd call: %s is not passed as a plain local" % role)
                    acc[v.id] = role.upper()
                if role == "dfdx":
                    out_name = pf.base_name(v) if v is not None else None
    if len(acc) != 2 or out_name is None:
        raise core.AnalysisError("get_derivative_wrt_unnormed_features: fill_bwd call with dfdx/dfdrho/dfdinh not found")
    modes = slmode_literals([ms["_get_rho_and_inh"], f_fwd, f_rev])
    if len(modes) < 2:
        raise core.AnalysisError("slmode ladders not found in FeatNormalizerList")
    for mode in modes + [mono.ELSE]:
        mname = "<else>" if mode is mono.ELSE else mode
        assume = {"self.slmode": mode}
        ev = method_evaluator(prog, mod, cls, f_fwd, [mono.ArrayIn("X"), mono.ArrayIn("DX")], assume)
        r = ev.run_function(f_fwd)
        ev2 = method_evaluator(prog, mod, cls, f_rev, [mono.ArrayIn("X"), mono.ArrayIn("G")], assume)
        ev2.name_atoms = dict(acc)
        ev2.run_function(f_rev)
        tail = {}
        nc = None
        for s in ev2.stores:
            if s.base != out_name or s.depth != 0:
                continue
            if not (len(s.key) == 1 and isinstance(s.key[0], int)):
                continue
            inst = "slmode=%s %s" % (mname, pf.src(s.node)[:70])
            if s.op in ("+=", "-="):
                chk.ok("accumulate", inst)
            else:
                chk.violation("accumulate", FN, "FeatNormalizerList.get_derivative_wrt_unnormed_features",
                              pf.src(s.node), s.node.lineno,
                              "semilocal column %d already holds the direct contribution written by fill_bwd; the "
                              "contribution routed through rho / inh must be added, found `%s`" % (s.key[0], s.op),
                              instance=inst)
                continue
            if not isinstance(s.value, Poly):
                nc = "store %s: %r" % (pf.src(s.node)[:50], s.value)
                continue
            k = s.key[0]
            tail[k] = tail.get(k, Poly()) + (-s.value if s.op == "-=" else s.value)
        # clamp consistency: the derivative routines see each semilocal row through the same
        # (clamped) quantity as the value routine _get_rho_and_inh
        ev0 = method_evaluator(prog, mod, cls, ms["_get_rho_and_inh"], [mono.ArrayIn("X")], assume)
        val = ev0.run_function(ms["_get_rho_and_inh"])
        if isinstance(val, tuple) and all(isinstance(v, Poly) for v in val) and isinstance(r, tuple) \
                and all(isinstance(v, Poly) for v in r):
            cv = carriers(val)
            for who, polys in (("_get_drho_and_dinh", list(r)),
                               ("get_derivative_wrt_unnormed_features", list(tail.values()))):
                cd = carriers(polys)
                for row in sorted(cd):
                    extra = cd[row] - cv.get(row, set())
                    inst = "slmode=%s %s uses %s through %s" % (
                        mname, who, row, sorted(mono.show_atom(a) for a in cd[row]))
                    if extra:
                        chk.violation("clamp", FN, "FeatNormalizerList." + who, "slmode=%s %s" % (mname, row),
                                      (f_fwd if who.startswith("_") else f_rev).lineno,
                                      "slmode=%s: %s evaluates the derivative at %s while the value routine "
                                      "_get_rho_and_inh uses %s: value and derivative see different (clamped) inputs" % (
                                          mname, who, ", ".join(sorted(mono.show_atom(a) for a in extra)),
                                          ", ".join(sorted(mono.show_atom(a) for a in cv.get(row, set()))) or "no " + row),
                                      instance=inst)
                    else:
                        chk.ok("clamp", inst)
        else:
            chk.note("clamp", "%s slmode=%s" % (FN, mname), "_get_rho_and_inh not in the monomial fragment: %r" % (val,))
        try:
            if not (isinstance(r, tuple) and len(r) == 2 and all(isinstance(v, Poly) for v in r)):
                raise NotComparable("_get_drho_and_dinh returns %r" % (r,))
            if nc:
                raise NotComparable(nc)
            ks = set(tail)
            for v in r:
                for a in v.atoms(deep=False):
                    if a[0] == "n" and a[1].startswith("DX["):
                        ks.add(int(a[1][3:-1]))
            ks = sorted(ks)
            dxs = ["DX[%d]" % k for k in ks]
            fw = {"DFDRHO": split_linear(r[0], dxs, "drho"), "DFDINH": split_linear(r[1], dxs, "dinh")}
            rv = {k: split_linear(tail.get(k, Poly()), ["DFDRHO", "DFDINH"], "increment to column %d" % k) for k in ks}
        except mono.NonLinear as e:
            chk.violation("sl-transpose", FN, "FeatNormalizerList", "slmode=%s linearity" % mname, f_rev.lineno,
                          "slmode=%s: not linear in the differentials: %s" % (mname, e))
            continue
        except NotComparable as e:
            chk.note("sl-transpose", "%s slmode=%s" % (FN, mname), "not comparable: %s" % e)
            chk.count("sl-transpose not-comparable")
            continue
        # _get_drho_and_dinh is the differential of _get_rho_and_inh
        if isinstance(val, tuple) and len(val) == 2 and all(isinstance(v, Poly) for v in val):
            for k in ks:
                var = input_variable(list(val), "X[%d]" % k)
                for (accn, via), v in zip((("DFDRHO", "rho"), ("DFDINH", "inh")), val):
                    inst = "slmode=%s d(%s)/dX[%d] of _get_rho_and_inh vs _get_drho_and_dinh" % (mname, via, k)
                    if var is None:
                        chk.count("deriv-symbolic not-comparable")
                        continue
                    try:
                        want = mono.diff(v, var)
                        verdict = mono.definitely_different(want, fw[accn]["DX[%d]" % k])
                    except NotComparable as e:
                        chk.note("deriv-symbolic", "%s slmode=%s" % (FN, mname), "d%s/dX[%d]: %s" % (via, k, e))
                        chk.count("deriv-symbolic not-comparable")
                        continue
                    if verdict == "equal":
                        chk.ok("deriv-symbolic", inst, nontrivial=not want.is_zero())
                    elif verdict == "different":
                        chk.violation("deriv-symbolic", FN, "FeatNormalizerList._get_drho_and_dinh",
                                      "slmode=%s d%s/dX[%d]" % (mname, via, k), f_fwd.lineno,
                                      "slmode=%s: _get_rho_and_inh computes %s = %s, whose derivative with respect to row "
                                      "%d is  %s , but _get_drho_and_dinh uses  %s" % (
                                          mname, via, mono.show(v)[:100], k, mono.show(want)[:160],
                                          mono.show(fw[accn]["DX[%d]" % k])[:160]), instance=inst)
                    else:
                        chk.count("deriv-symbolic not-comparable")
        for k in ks:
            for accn, via in (("DFDRHO", "rho"), ("DFDINH", "inh")):
                a = fw[accn]["DX[%d]" % k]
                b = rv[k][accn]
                inst = "slmode=%s d(%s)/dX[%d]: forward %s | reverse %s" % (mname, via, k, mono.show(a)[:50], mono.show(b)[:50])
                verdict = mono.definitely_different(a, b)
                if verdict == "equal":
                    chk.ok("sl-transpose", inst, nontrivial=not a.is_zero())
                elif verdict == "different":
                    chk.violation("sl-transpose", FN, "FeatNormalizerList", "slmode=%s d%s/dX[%d]" % (mname, via, k),
                                  f_rev.lineno,
                                  "slmode=%s: _get_drho_and_dinh gives d(%s) = (%s) * DX[%d] but "
                                  "get_derivative_wrt_unnormed_features adds  (%s) * dfd%s  to column %d: forward and "
                                  "reverse mode are not transposes" % (mname, via, mono.show(a), k, mono.show(b), via, k),
                                  instance="slmode=%s %s X[%d]" % (mname, via, k))
                else:
                    chk.note("sl-transpose", "%s slmode=%s" % (FN, mname), "d%s/dX[%d] not comparable: %s vs %s" % (
                        via, k, mono.show(a), mono.show(b)))
                    chk.count("sl-transpose not-comparable")


# ----------------------------------------------------------------------------
# rule: parameter dependence of value and derivative agree
# ----------------------------------------------------------------------------
def param_attrs(fn, arrays, aliases):
    """self attributes read by the routine, other than those used to index the array arguments"""
    idx = set()
    for arr in arrays:
        for node, a in array_subscripts(fn, arr, aliases):
            if a is not None:
                idx.add(a)
            else:
                f = fancy_index(node.slice, fn, aliases)
                if f:
                    idx |= set(f)
    reads = {}
    for n in pf.walk_no_nested(fn):
        if pf.is_self_attr(n) and isinstance(n.ctx, ast.Load):
            p_ = pf.parent(n)
            if isinstance(p_, ast.Call) and p_.func is n:
                continue  # a method call, not a parameter
            reads.setdefault(n.attr, n)
    return {a: n for a, n in reads.items() if a not in idx}, idx


def value_form(fn, y, x, aliases):
    """canonical form of what fill_feat_ leaves in y (stores folded in order), raw features as atoms x:<attr>;
    None when outside the sum-of-monomials fragment"""
    def leaf(node):
        if isinstance(node, ast.Subscript) and isinstance(node.value, ast.Name) and node.value.id == x:
            a = idx_attr(node.slice, aliases)
            if a is not None:
                return Poly.name("x:" + a)
        return None

    ev = Evaluator(env={y: mono.Buf("y")}, leaf=leaf)
    ev.run_function(fn)
    val = None
    for st in ev.stores:
        if not (isinstance(st.target, mono.Buf) and st.target.role == "y"):
            continue
        if st.key != () or st.depth != 0 or not isinstance(st.value, Poly):
            return None
        try:
            if st.op == "=":
                val = st.value
            elif val is None:
                return None
            elif st.op == "+=":
                val = val + st.value
            elif st.op == "-=":
                val = val - st.value
            elif st.op == "*=":
                val = val * st.value
            elif st.op == "/=":
                val = val / st.value
            else:
                return None
        except NotComparable:
            return None
    return val


def rule_param_dependence(chk, prog):
    mod = prog.module(TD)
    for cname in registry_classes(mod):
        cls = mod.cls(cname)
        feat, der = map_routines(prog, mod, cls)
        y, x = routine_params(feat, 2)
        dfdx, dfdy, dx = routine_params(der, 3)
        pf_, _ = param_attrs(feat, [x], index_aliases(feat))
        pd_, _ = param_attrs(der, [dx, dfdx], index_aliases(der))
        # attributes that are methods / properties of the class are not parameters
        missing = sorted(a for a in pf_ if a not in pd_ and prog.find_method(mod, cls, a) is None)
        if not missing:
            chk.ok("param-dep", "%s: fill_deriv_ reads every parameter fill_feat_ reads (%s)" % (
                cname, ", ".join(sorted(pf_)) or "none"), nontrivial=bool(pf_))
            continue
        val = value_form(feat, y, x, index_aliases(feat))
        for a in missing:
            inst = "%s: self.%s read by fill_feat_ only" % (cname, a)
            if val is None:
                chk.note("param-dep", "%s:%s" % (TD, cname), "self.%s is read by fill_feat_ only; the value is outside "
                         "the monomial fragment, additivity not decided" % a)
                chk.ok("param-dep", inst + " (not decided)", nontrivial=False)
                continue
            atom = ("n", "self." + a)
            mixed = []
            for m, c in val.terms.items():
                t = Poly({m: c})
                ats = t.atoms()
                if atom in ats and any(b[0] == "n" and b[1].startswith("x:") for b in ats):
                    mixed.append(t)
            if not mixed:
                chk.ok("param-dep", inst + ", where it is an additive constant")
            else:
                chk.violation("param-dep", TD, cname + ".fill_deriv_", "self.%s" % a, der.lineno,
                              "fill_feat_ computes y = %s, in which self.%s multiplies / enters a term that depends on "
                              "the raw features (%s), but fill_deriv_ never reads self.%s: the derivative of c*f(x) is "
                              "c*f'(x), so the derivative cannot be the chain rule of the value for every value of "
                              "self.%s" % (mono.show(val)[:120], a, mono.show(mixed[0])[:80], a, a), instance=inst)


# ----------------------------------------------------------------------------
# rule: the derivative routine is the symbolic derivative of the value routine
# ----------------------------------------------------------------------------
def input_variable(forms, name):
    """The atom to differentiate with respect to for the raw input `name`: the name itself, or the
    single clamp max/min(name, constants) through which every occurrence passes (the derivative is
    then the one inside the unclamped region, which is what the repository computes).  None when
    the input occurs both raw and clamped, or under several different clamps."""
    raw = ("n", name)
    clamps = set()
    for p_ in forms:
        for a in p_.atoms():
            if a[0] == "f" and a[1] in ("max", "min") and Poly.atom(raw).key in a[2]:
                others = [from_k for from_k in a[2] if from_k != Poly.atom(raw).key]
                if all(not any(b[0] == "n" and b[1].startswith(("x:", "X[")) for b in mono.from_key(o).atoms()) for o in others):
                    clamps.add(a)
    if not clamps:
        return raw
    if len(clamps) > 1:
        return None
    c = next(iter(clamps))
    if any(mono.occurs(p_, raw, skip=c) for p_ in forms):
        return None
    return c


def deriv_coefficients(der, dfdx, dfdy, x, aliases):
    """attr -> canonical coefficient of dfdy accumulated into dfdx[self.attr]; raises NotComparable"""
    def leaf(node):
        if isinstance(node, ast.Subscript) and isinstance(node.value, ast.Name) and node.value.id == x:
            a = idx_attr(node.slice, aliases)
            if a is not None:
                return Poly.name("x:" + a)
        return None

    ev = Evaluator(env={dfdx: mono.Buf("dfdx"), dfdy: Poly.name("dfdy")}, leaf=leaf)
    ev.run_function(der)
    acc = {}
    for st in ev.stores:
        if not (isinstance(st.target, mono.Buf) and st.target.role == "dfdx"):
            continue
        tgt = st.node.target if isinstance(st.node, ast.AugAssign) else st.node.targets[0]
        a = idx_attr(tgt.slice, aliases) if isinstance(tgt, ast.Subscript) else None
        if a is None or st.depth != 0 or st.op not in ("+=", "-=") or not isinstance(st.value, Poly):
            raise NotComparable("store %s is conditional, not an accumulation, or outside the fragment (%r)" % (
                pf.src(st.node)[:60], st.value))
        acc[a] = acc.get(a, Poly()) + (st.value if st.op == "+=" else -st.value)
    out = {}
    for a, p_ in acc.items():
        c, rest = mono.coefficient(p_, ("n", "dfdy"))
        if not rest.is_zero() or mono.occurs(c, ("n", "dfdy")):
            raise mono.NonLinear("increment to dfdx[self.%s] is not dfdy times a coefficient" % a)
        out[a] = c
    return out


def rule_deriv_symbolic(chk, prog):
    mod = prog.module(TD)
    for cname in registry_classes(mod):
        cls = mod.cls(cname)
        feat, der = map_routines(prog, mod, cls)
        y, x = routine_params(feat, 2)
        dfdx, dfdy, dx = routine_params(der, 3)
        val = value_form(feat, y, x, index_aliases(feat))
        where = "%s:%s" % (TD, cname)
        if val is None:
            chk.note("deriv-symbolic", where, "value routine outside the differentiable fragment (clipping / masks / "
                     "unsupported calls); not decided")
            chk.count("deriv-symbolic not-decided classes")
            continue
        try:
            coef = deriv_coefficients(der, dfdx, dfdy, dx, index_aliases(der))
        except NotComparable as e:
            chk.note("deriv-symbolic", where, "derivative routine outside the fragment: %s" % e)
            chk.count("deriv-symbolic not-decided classes")
            continue
        inputs = sorted({a[1][2:] for a in val.atoms() if a[0] == "n" and a[1].startswith("x:")} | set(coef))
        for k in inputs:
            got = coef.get(k, Poly())
            var = input_variable([val, got], "x:" + k)
            inst = "%s d y / d x[self.%s]" % (cname, k)
            if var is None:
                chk.note("deriv-symbolic", where, "x[self.%s] enters both raw and clamped; not decided" % k)
                chk.count("deriv-symbolic not-comparable")
                continue
            try:
                want = mono.diff(val, var)
                # overflow-safe idiom: a form even in t evaluated at exp(-|t|) is that form at exp(t)
                verdict = mono.definitely_different(want, mono.resolve_even_exp_abs(got))
            except NotComparable as e:
                chk.note("deriv-symbolic", where, "d/dx[self.%s]: %s" % (k, e))
                chk.count("deriv-symbolic not-comparable")
                continue
            if verdict == "equal":
                chk.ok("deriv-symbolic", inst + " = " + mono.show(got)[:60])
            elif verdict == "different":
                chk.violation("deriv-symbolic", TD, cname + ".fill_deriv_", "d y / d x[self.%s]" % k, der.lineno,
                              "fill_feat_ computes y = %s ; its derivative with respect to x[self.%s] is  %s  but "
                              "fill_deriv_ accumulates dfdy times  %s  into dfdx[self.%s] (both in canonical form; the "
                              "two are not the same function)" % (
                                  mono.show(val)[:160], k, mono.show(want)[:260], mono.show(got)[:260], k), instance=inst)
            else:
                chk.note("deriv-symbolic", where, "d/dx[self.%s] not comparable: %s vs %s" % (
                    k, mono.show(want)[:80], mono.show(got)[:80]))
                chk.count("deriv-symbolic not-comparable")


# ----------------------------------------------------------------------------
# rule: evaluation routines do not reuse call-history state without looking at the data
# ----------------------------------------------------------------------------
META_ATTRS = {"shape", "strides", "ctypes", "data", "size", "dtype", "ndim", "nbytes", "flags", "base", "itemsize"}


def _self_store_attr(t):
    """self.A = / self.A[..] = / self.A.b =   -> 'A'"""
    while isinstance(t, (ast.Subscript, ast.Attribute)):
        if pf.is_self_attr(t):
            return t.attr
        t = t.value
    return None


def state_written(fn):
    out = {}
    for n in pf.walk_no_nested(fn):
        tgts = []
        if isinstance(n, ast.Assign):
            tgts = n.targets
        elif isinstance(n, (ast.AugAssign, ast.AnnAssign)):
            tgts = [n.target]
        for t in tgts:
            for e in (t.elts if isinstance(t, (ast.Tuple, ast.List)) else [t]):
                a = _self_store_attr(e)
                if a is not None:
                    out.setdefault(a, []).append(n)
    return out


def data_kinds(fn, arrays):
    """name -> subset of {'content','meta'}: how a local depends on the array arguments"""
    kinds = {}

    def kind(e):
        out = set()
        if isinstance(e, ast.Attribute) and isinstance(e.value, ast.Name) and e.value.id in arrays and e.attr in META_ATTRS:
            return {"meta"}
        if isinstance(e, ast.Call) and pf.call_name(e) in ("id", "len") and len(e.args) == 1 \
                and isinstance(e.args[0], ast.Name) and e.args[0].id in arrays:
            return {"meta"}
        if isinstance(e, ast.Compare) and all(isinstance(o, (ast.Is, ast.IsNot)) for o in e.ops):
            # object identity of the argument says nothing about the values it holds
            for c in [e.left] + list(e.comparators):
                if isinstance(c, ast.Name) and c.id in arrays:
                    out |= {"meta"}
                else:
                    out |= kind(c)
            return out
        if isinstance(e, ast.Name):
            if e.id in arrays:
                return {"content"}
            return set(kinds.get(e.id, ()))
        for c in ast.iter_child_nodes(e):
            if isinstance(c, (ast.expr, ast.keyword, ast.comprehension)):
                out |= kind(c if not isinstance(c, ast.keyword) else c.value)
        return out

    for _ in range(4):
        for n in pf.walk_no_nested(fn):
            if isinstance(n, ast.Assign):
                k = kind(n.value)
                for t in n.targets:
                    for x in ast.walk(t):
                        if isinstance(x, ast.Name) and isinstance(x.ctx, ast.Store):
                            kinds[x.id] = set(kinds.get(x.id, ())) | k
            elif isinstance(n, ast.AugAssign) and isinstance(n.target, ast.Name):
                kinds[n.target.id] = set(kinds.get(n.target.id, ())) | kind(n.value)
    return kind


def rule_stateless(chk, prog):
    targets = []
    mod = prog.module(TD)
    for cname in registry_classes(mod):
        cls = mod.cls(cname)
        feat, der = map_routines(prog, mod, cls)
        targets.append((TD, mod, cls, {"fill_feat_": feat, "fill_deriv_": der}))
    nmod, ncls = normalizer_classes(prog)
    for cls in ncls:
        rs = {}
        for nm in ("fill_fwd", "fill_bwd", "get_normed_feature_deriv"):
            r = prog.find_method(nmod, cls, nm)
            if r is not None and r[1].name != "FeatNormalizer":
                rs[nm] = hinline.inline_helpers(r[2], hinline.class_resolver(prog, nmod, cls))
        targets.append((FN, nmod, cls, rs))
    # the list classes: every method except the constructor is an evaluation / query routine
    for rel, m, cname in ((FN, nmod, "FeatNormalizerList"), (TD, mod, "FeatureList")):
        cls = m.cls(cname)
        rs = {nm: hinline.inline_helpers(fn, hinline.class_resolver(prog, m, cls))
              for nm, fn in pf.methods(cls).items() if nm != "__init__"}
        targets.append((rel, m, cls, rs))
    # one-shot iterators kept on the instance: zip / map / filter / enumerate / reversed / iter / a generator
    # expression are exhausted by the first pass, so a routine that walks self.<attr> does nothing the second time
    ONE_SHOT = {"zip", "map", "filter", "enumerate", "reversed", "iter"}
    for rel, m, cls, routines in targets:
        init = pf.methods(cls).get("__init__")
        shots = {}
        for n in (pf.walk_no_nested(init) if init is not None else []):
            if isinstance(n, ast.Assign) and len(n.targets) == 1 and pf.is_self_attr(n.targets[0]):
                v = n.value
                if isinstance(v, ast.GeneratorExp) or (isinstance(v, ast.Call) and isinstance(v.func, ast.Name)
                                                       and v.func.id in ONE_SHOT):
                    shots[n.targets[0].attr] = n
        for attr, node in shots.items():
            for nm, fn in routines.items():
                own = state_written(fn)
                for n in pf.walk_no_nested(fn):
                    if pf.is_self_attr(n, attr) and isinstance(n.ctx, ast.Load):
                        top = n
                        while pf.parent(top) is not fn and pf.parent(top) is not None:
                            top = pf.parent(top)
                        fresh = False
                        for s0 in fn.body:
                            if s0 is top:
                                break
                            if any(s0 is w for w in own.get(attr, [])):
                                fresh = True
                        inst = "%s.%s walks the one-shot iterator self.%s" % (cls.name, nm, attr)
                        if fresh:
                            chk.ok("stateless", inst + " after rebuilding it in the same call")
                        else:
                            chk.violation("stateless", rel, "%s.%s" % (cls.name, nm), "self.%s" % attr, n.lineno,
                                          "__init__ binds self.%s to `%s`, a one-shot iterator; %s consumes it, so the "
                                          "first call exhausts it and every later call iterates over nothing (the "
                                          "result depends on the call history)" % (attr, pf.src(node.value)[:70], nm),
                                          instance=inst)
                        break
    for rel, m, cls, routines in targets:
        written = {}
        for nm, fn in routines.items():
            for a, nodes in state_written(fn).items():
                written.setdefault(a, []).append(nm)
        if not written:
            chk.ok("stateless", "%s: evaluation routines keep no state on self" % cls.name, nontrivial=False)
            continue
        for nm, fn in routines.items():
            arrays = {a.arg for a in fn.args.args[1:]}
            kind = data_kinds(fn, arrays)
            own = state_written(fn)
            for n in pf.walk_no_nested(fn):
                if not (pf.is_self_attr(n) and isinstance(n.ctx, ast.Load) and n.attr in written):
                    continue
                p = pf.parent(n)
                if isinstance(p, (ast.Subscript, ast.Attribute)) and isinstance(getattr(p, "ctx", None), ast.Store):
                    continue
                attr = n.attr
                # reads inside the test that decides the refresh are the validation itself
                st = n
                in_test = False
                while st is not None and st is not fn:
                    par = pf.parent(st)
                    if isinstance(par, (ast.If, ast.IfExp, ast.While)) and par.test is st:
                        in_test = True
                    st = par
                if in_test:
                    continue
                inst = "%s.%s reads self.%s (written by %s)" % (cls.name, nm, attr, "/".join(sorted(set(written[attr]))))
                # fresh: an unconditional store to self.attr earlier in this routine's top-level statements
                top = None
                cur = n
                while pf.parent(cur) is not fn and pf.parent(cur) is not None:
                    cur = pf.parent(cur)
                top = cur
                fresh = False
                for s0 in fn.body:
                    if s0 is top:
                        break
                    if any(s0 is w for w in own.get(attr, [])):
                        fresh = True
                if fresh:
                    chk.ok("stateless", inst + " after recomputing it in the same call")
                    continue
                guards = []
                for w in own.get(attr, []):  # tests deciding a refresh in this routine
                    g = pf.parent(w)
                    while g is not None and g is not fn:
                        if isinstance(g, ast.If):
                            guards.append(g)
                        g = pf.parent(g)
                g, child = pf.parent(n), n  # tests deciding whether the stored value is used
                while g is not None and g is not fn:
                    if isinstance(g, (ast.If, ast.IfExp)) and g.test is not child:
                        guards.append(g)
                    child, g = g, pf.parent(g)
                def always_true(t):
                    if isinstance(t, ast.Constant):
                        return bool(t.value)
                    if isinstance(t, ast.BoolOp):
                        vals = [always_true(v) for v in t.values]
                        return any(vals) if isinstance(t.op, ast.Or) else all(vals)
                    return False

                if guards and all(always_true(g.test) for g in guards):
                    chk.ok("stateless", inst + " after an unconditional refresh in the same call")
                    continue
                if not guards:
                    chk.violation("stateless", rel, "%s.%s" % (cls.name, nm), "self.%s" % attr, n.lineno,
                                  "%s uses self.%s, which is written by %s of an earlier call, without recomputing or "
                                  "validating it: the result depends on the call history, not only on the arguments" % (
                                      nm, attr, "/".join(sorted(set(written[attr])))), instance=inst)
                    continue
                ks = set()
                for g in guards:
                    ks |= kind(g.test)
                if "content" in ks:
                    chk.note("stateless", "%s:%s.%s" % (rel, cls.name, nm),
                             "self.%s is reused under a test that reads the array contents; not decided" % attr)
                    chk.ok("stateless", inst + " under a content-dependent test (not decided)", nontrivial=False)
                else:
                    chk.violation("stateless", rel, "%s.%s" % (cls.name, nm), "self.%s" % attr, n.lineno,
                                  "%s reuses self.%s (computed by %s of an earlier call); whether it does is decided by "
                                  "`%s`, a test that looks only at %s, never at the values in the array, so a buffer that "
                                  "was updated in place (or an address handed out again) is evaluated with the factors "
                                  "of its old contents" % (
                                      nm, attr, "/".join(sorted(set(written[attr]))), pf.src(guards[0].test)[:90],
                                      "the identity / memory address / shape / strides of the argument" if "meta" in ks
                                      else "object state"), instance=inst)


# ----------------------------------------------------------------------------
# rule: mask symmetry between value, forward-mode and reverse-mode list routines
# ----------------------------------------------------------------------------
LIST_ROUTINES = (
    ("value", "get_normalized_feature_vector", ["X"]),
    ("forward", "get_derivative_of_normed_features", ["X", "DX"]),
    ("reverse", "get_derivative_wrt_unnormed_features", ["X", "G"]),
)


def live_output_masks(prog, mod, cls, fn, roles, assume):
    """masks under which the routine overwrites its returned array with a constant:
    -> (live {mask key: text}, dead [text], undecided [text])"""
    ev = method_evaluator(prog, mod, cls, fn, [mono.ArrayIn(r) for r in roles], assume)
    ret = ev.run_function(fn)
    if not isinstance(ret, mono.Buf):
        raise core.AnalysisError("%s.%s: the returned array is not a buffer allocated in the routine (%r)" % (
            cls.name, fn.name, ret))
    live, dead, und = {}, [], []
    for s in ev.stores:
        if s.target is not ret or not s.masks:
            continue
        const = isinstance(s.value, Poly) and s.value.as_const() is not None
        for m in s.masks:
            if not isinstance(m, mono.Mask):
                und.append(pf.src(s.node)[:80])
            elif m.dead():
                dead.append("%s  [%r is never true]" % (pf.src(s.node)[:60], m))
            elif not const or s.op != "=":
                und.append(pf.src(s.node)[:80])
            else:
                live[m.key] = repr(m)
    return live, dead, und


def rule_mask_symmetry(chk, prog):
    mod = prog.module(FN)
    cls = mod.cls("FeatNormalizerList")
    ms = pf.methods(cls)
    for _, nm, _ in LIST_ROUTINES:
        if nm not in ms:
            raise core.AnalysisError("FeatNormalizerList.%s vanished" % nm)
    modes = slmode_literals([ms["_get_rho_and_inh"], ms["_get_drho_and_dinh"], ms[LIST_ROUTINES[2][1]]])
    noted = set()
    res_ = hinline.class_resolver(prog, mod, cls, exclude=("_get_rho_and_inh", "_get_drho_and_dinh", "_check_shape"))
    ms = dict(ms)
    for _, nm, _ in LIST_ROUTINES:
        ms[nm] = hinline.inline_helpers(ms[nm], res_)
    for mode in modes + [mono.ELSE]:
        mname = "<else>" if mode is mono.ELSE else mode
        res = {}
        for tag, nm, roles in LIST_ROUTINES:
            live, dead, und = live_output_masks(prog, mod, cls, ms[nm], roles, {"self.slmode": mode})
            if und:
                raise core.AnalysisError("FeatNormalizerList.%s: masked store outside the recognised shapes: %s" % (nm, und[0]))
            for d in dead:
                if (nm, d) not in noted:
                    noted.add((nm, d))
                    chk.note("mask-sym", "%s:%s" % (FN, nm), "dead mask (not counted): %s" % d)
            res[tag] = live
        ref = res["value"]
        for tag, nm, _ in LIST_ROUTINES[1:]:
            inst = "slmode=%s %s masks %s vs value routine %s" % (
                mname, nm, sorted(res[tag].values()) or "none", sorted(ref.values()) or "none")
            if set(res[tag]) == set(ref):
                chk.ok("mask-sym", inst, nontrivial=bool(ref) or bool(res[tag]))
            else:
                extra = [res[tag][k] for k in res[tag] if k not in ref]
                missing = [ref[k] for k in ref if k not in res[tag]]
                other = "forward" if tag == "reverse" else "reverse"
                chk.violation("mask-sym", FN, "FeatNormalizerList." + nm, "masked zero under %s" % (
                    "; ".join(extra + missing)), ms[nm].lineno,
                    "slmode=%s: %s-mode routine %s zeroes its output where %s, but the value routine "
                    "get_normalized_feature_vector masks %s and the %s-mode routine masks %s: the derivative is "
                    "zeroed where the value still depends on the features, and forward and reverse mode are no "
                    "longer transposes at those points" % (
                        mname, tag, nm, "; ".join(extra) or "nothing (missing: %s)" % "; ".join(missing),
                        sorted(ref.values()) or "nothing", other, sorted(res[other].values()) or "nothing"),
                    instance="slmode=%s %s" % (mname, nm))

# ----------------------------------------------------------------------------
# rule: the per-feature dispatch of the list routines is decided by the list, not by the numbers
# ----------------------------------------------------------------------------
_META_ATTRS = {"shape", "ndim", "dtype", "size", "nbytes", "itemsize"}


def _content_names(e):
    """names whose *contents* the expression reads (metadata reads and *_like allocations excluded)"""
    out = set()

    def rec(n):
        if isinstance(n, ast.Attribute) and n.attr in _META_ATTRS:
            return
        if isinstance(n, ast.Call):
            f = pf.src(n.func)
            if f == "len" or f.endswith("_like") or f in ("isinstance", "type", "np.ndim", "np.shape"):
                return
        if isinstance(n, ast.Name):
            out.add(n.id)
        for c in ast.iter_child_nodes(n):
            rec(c)

    rec(e)
    return out


def _param_taint(fn):
    """local name -> set of array parameters whose contents it is computed from"""
    params = [a.arg for a in fn.args.posonlyargs + fn.args.args + fn.args.kwonlyargs if a.arg not in ("self", "cls")]
    taint = {p_: {p_} for p_ in params}

    def names_of(t):
        if isinstance(t, ast.Name):
            return [t.id]
        if isinstance(t, (ast.Tuple, ast.List)):
            return [x for e in t.elts for x in names_of(e)]
        if isinstance(t, ast.Starred):
            return names_of(t.value)
        return []

    for _ in range(3):
        for n in pf.walk_no_nested(fn):
            if isinstance(n, ast.Assign):
                tg, val = [x for t in n.targets for x in names_of(t)], n.value
            elif isinstance(n, (ast.AugAssign, ast.AnnAssign)) and n.value is not None:
                tg, val = names_of(n.target), n.value
            elif isinstance(n, ast.For):
                tg, val = names_of(n.target), n.iter
            elif isinstance(n, ast.NamedExpr):
                tg, val = names_of(n.target), n.value
            else:
                continue
            src_ = set()
            for nm in _content_names(val):
                src_ |= taint.get(nm, set())
            for t in tg:
                if src_:
                    taint.setdefault(t, set()).update(src_)
    return params, taint


def _exits(stmts):
    return bool(stmts) and isinstance(stmts[-1], (ast.Continue, ast.Return, ast.Raise, ast.Break))


def _dispatch_guards(call, fn):
    """tests that decide, inside the innermost per-feature loop, whether `call` is executed"""
    guards, node = [], call
    while node is not fn and getattr(node, "_parent", None) is not None:
        par = node._parent
        if isinstance(par, (ast.If, ast.While)) and node is not par.test:
            guards.append(par.test)
        elif isinstance(par, ast.IfExp) and node is not par.test:
            guards.append(par.test)
        elif isinstance(par, (ast.ListComp, ast.SetComp, ast.GeneratorExp, ast.DictComp)):
            for g in par.generators:
                guards.extend(g.ifs)
            return guards, par
        for fld in ("body", "orelse", "finalbody"):
            lst = getattr(par, fld, None)
            if isinstance(lst, list) and node in lst:
                for prev in lst[:lst.index(node)]:
                    if isinstance(prev, ast.If) and (_exits(prev.body) or _exits(prev.orelse)):
                        guards.append(prev.test)
        if isinstance(par, ast.For) and node is not par.iter:
            return guards, par
        node = par
    return guards, None


def rule_dispatch_static(chk, prog):
    """FeatNormalizerList: whether feature i goes through its normaliser or is copied is decided by the list
    (self[i] is None), in the value routine and in both derivative routines alike.  A test on the *contents* of an
    input array may only skip the delegated derivative call if the call is linear in what was tested, i.e. every
    tangent-derived argument of the call is the tested expression itself."""
    mod, ncls = normalizer_classes(prog)
    elem_methods = set()
    for c in ncls + [mod.cls("FeatNormalizer")]:
        elem_methods |= {m for m in pf.methods(c) if not m.startswith("__")}
    cls = mod.cls("FeatNormalizerList")
    ms = dict(pf.methods(cls))
    res_ = hinline.class_resolver(prog, mod, cls, exclude=("_get_rho_and_inh", "_get_drho_and_dinh", "_check_shape"))
    for tag, nm, roles in LIST_ROUTINES:
        if nm not in ms:
            raise core.AnalysisError("FeatNormalizerList.%s vanished" % nm)
        fn = hinline.inline_helpers(ms[nm], res_)
        params, taint = _param_taint(fn)
        if len(params) < len(roles):
            raise core.AnalysisError("FeatNormalizerList.%s: expected %d array parameters, found %r" % (nm, len(roles), params))
        primal, tangent = params[0], (params[1] if len(roles) > 1 else None)
        for call in pf.walk_no_nested(fn):
            if not (isinstance(call, ast.Call) and isinstance(call.func, ast.Attribute) and call.func.attr in elem_methods):
                continue
            recv = call.func.value
            if isinstance(recv, ast.Name) and recv.id in ("self", "cls", "np", "super"):
                continue
            if isinstance(recv, ast.Call) and pf.src(recv.func) == "super":
                continue
            guards, loop = _dispatch_guards(call, fn)
            if loop is None:
                continue  # not a per-feature dispatch
            inst = "%s routine %s: %s.%s(...) dispatched by [%s]" % (
                tag, nm, pf.src(recv), call.func.attr, "; ".join(pf.src(g)[:60] for g in guards) or "nothing")
            bad = None
            for g in guards:
                read = set()
                for x in _content_names(g):
                    read |= taint.get(x, set())
                read &= {primal, tangent}
                if not read:
                    continue
                if tag == "value":
                    chk.note("dispatch-static", "%s:%s" % (FN, nm), "the dispatch test `%s` reads the features; the value "
                             "routine is not decided by this rule" % pf.src(g)[:80])
                    continue
                if primal in read:
                    bad = (g, "the raw features (%s)" % primal, "the normalisation factor of feature i does not become 1 "
                           "where that test holds")
                    break
                tested = {pf.src(x) for x in ast.walk(g) if isinstance(x, ast.expr)}
                args = list(call.args) + [k.value for k in call.keywords]
                uncovered = []
                for a in args:
                    ta = set()
                    for x in _content_names(a):
                        ta |= taint.get(x, set())
                    if tangent in ta and pf.src(a) not in tested:
                        uncovered.append(pf.src(a))
                if uncovered:
                    bad = (g, "the %s array (%s)" % ("tangent" if tag == "forward" else "cotangent", tangent),
                           "the delegated call also receives %s, which are computed from %s and are not covered by "
                           "the test: their contribution (the part routed through the density / inhomogeneity "
                           "variable) is dropped where the test holds" % (", ".join(uncovered), tangent))
                    break
            if bad is None:
                chk.ok("dispatch-static", inst)
            else:
                g, what, why = bad
                chk.violation("dispatch-static", FN, "FeatNormalizerList." + nm,
                              "%s.%s dispatched by %s" % (pf.src(recv), call.func.attr, pf.src(g)), call.lineno,
                              "%s-mode routine %s decides whether feature i goes through %s.%s by `%s`, a test on the "
                              "contents of %s; the value routine applies the normaliser whenever the list has one, and %s: "
                              "the derivative no longer matches the value and forward and reverse mode are no longer "
                              "transposes" % (tag, nm, pf.src(recv), call.func.attr, pf.src(g), what, why),
                              instance=inst)


def analyse(chk):
    prog = pf.Program(chk.tree, [TD, FN])
    mono.link_imported_constants(prog)
    chk.rule("accumulate", "maps: every store to dfdx is += / -=; normalisers: dfdx '=', dfdrho/dfdinh and the "
                           "semilocal columns of df_dX0T '+='")
    chk.rule("index-set", "raw features read by fill_feat_ == raw features fill_deriv_ adds a derivative to")
    chk.rule("linear-dfdy", "every increment has degree exactly 1 in dfdy")
    chk.rule("units", "unit equations of fill_deriv_ (incl. increment = [f]/[x_i]) lie in the row space of the "
                      "unit equations of fill_feat_ (Gaussian elimination over Q)")
    chk.rule("clamp", "value and derivative routines clamp the same inputs with the same constants")
    chk.rule("transpose", "normalisers: forward-mode coefficients == reverse-mode coefficients == fill_fwd factor "
                          "(canonical monomial forms)")
    chk.rule("sl-transpose", "per slmode: d(rho, inh)/dX[k] in _get_drho_and_dinh == coefficients routed back to "
                             "column k in get_derivative_wrt_unnormed_features")
    chk.rule("mask-sym", "value, forward-mode and reverse-mode list routines overwrite their output under the same "
                         "live masks (a mask taken from an already clamped quantity is dead)")
    chk.rule("dispatch-static", "list routines: whether feature i goes through its normaliser is decided by the list "
                                "(self[i] is None), never by the contents of an input array unless the skipped call is "
                                "linear in exactly what was tested")
    chk.rule("stateless", "evaluation routines do not reuse state written by an earlier call unless a test that "
                          "reads the array contents validates it")
    chk.rule("param-dep", "every parameter (self.<p>, not an index) read by fill_feat_ is read by fill_deriv_ unless it "
                          "is an additive constant of the value (canonical form: no term contains both p and a raw feature)")
    chk.rule("deriv-symbolic", "d(value)/dx_k (product / power / chain rule on the canonical form; exp, log) == the "
                               "coefficient of dfdy that fill_deriv_ accumulates into dfdx[k], as rational-function identity; "
                               "normalisers: d(fill_fwd)/d(x, rho, inh) == forward-mode coefficients; "
                               "d(rho, inh)/dX[k] of _get_rho_and_inh == _get_drho_and_dinh")
    chk.rule("list-iter", "FeatureList pairs row i of y / dfdy with feat_list[i] and passes dfdx / x whole")
    chk.guard(rule_maps_structure, prog)
    chk.guard(rule_clamp, prog)
    chk.guard(rule_units, prog)
    chk.guard(rule_list_iter, prog)
    chk.guard(rule_normalizers, prog)
    chk.guard(rule_sl_transpose, prog)
    chk.guard(rule_mask_symmetry, prog)
    chk.guard(rule_dispatch_static, prog)
    chk.guard(rule_stateless, prog)
    chk.guard(rule_param_dependence, prog)
    chk.guard(rule_deriv_symbolic, prog)
    try:
        chk.count("map classes", len(registry_classes(prog.module(TD))))
    except core.AnalysisError:
        pass
    chk.floor("accumulate", 30, "one store per raw feature of 21 map classes + normaliser stores (66 today)")
    chk.floor("index-set", 21, "21 map classes")
    chk.floor("linear-dfdy", 21, "at least one increment per map class (47 today)")
    chk.floor("units", 50, "unit obligations of the 21 derivative routines (110 today)")
    chk.floor("clamp", 14, "21 map classes + normaliser list carriers (31 today)")
    chk.floor("transpose", 8, "4 normaliser classes x (dx, fill_fwd factor) at least")
    chk.floor("sl-transpose", 8, "4 slmode branches x (rho, inh)")
    chk.floor("mask-sym", 4, "4 slmode branches")
    chk.floor("dispatch-static", 2, "one delegated call in each of the 3 list routines")
    chk.floor("stateless", 12, "21 map classes + 4 normaliser classes")
    chk.floor("param-dep", 10, "21 map classes")
    chk.floor("deriv-symbolic", 30, "20 of 21 map classes decided today (42 inputs), 4 normaliser classes x 3, "
                                    "4 slmode branches x rows x (rho, inh)")
    chk.floor("list-iter", 2, "__call__, fill_vals_, fill_derivs_")
    chk.assumptions += [
        "numeric literals are dimensionless; clamp literals, literal 0 and additive regularisers <= 1e-6 are unit-polymorphic",
        "names, primes with fractional exponents and pi are algebraically independent (positive reals)",
        "calls made for effect keep the symbolic identity of their array arguments",
    ]
    chk.not_decided += [
        "derivatives of value routines outside the differentiable fragment (OmegaMap today: clipping, masks, NaN "
        "handling); derivatives at or below a clamp (the comparison is made on the unclamped region)",
    ]


def _one_shot_pairs(text):
    a = "        self.feat_list = feat_list\n"
    b = "        for i in range(self.nfeat):\n            self.feat_list[i].fill_deriv_(dfdx, dfdy[i], xdesc)"
    if a not in text or b not in text:
        return None
    text = text.replace(a, a + "        self._deriv_pairs = zip(range(len(feat_list)), feat_list)\n", 1)
    return text.replace(b, "        for i, feat in self._deriv_pairs:\n            feat.fill_deriv_(dfdx, dfdy[i], xdesc)", 1)


def mutants(tree):
    M = Mutant
    v3i = "dfdx[i] += dfdy * self.gamma / (1 + self.gamma * x[i]) ** 2\n        dfdx[j] -="
    v3j = "dfdx[j] -= dfdy * self.gamma / (1 + self.gamma * x[j]) ** 2"
    inh_bwd = "        dfdinh[:] += (\n            dfdxn * x * self.const1 * self.const2"
    return [
        M("reverse mode copies the cotangent where the raw feature vanishes", FN,
          "            if self[i] is not None:\n                self[i].fill_bwd(",
          "            if self[i] is not None and X0T[:, i].any():\n                self[i].fill_bwd(", expect="dispatch-static"),
        M("forward mode skips features whose own tangent vanishes", FN,
          "            if self[i] is not None:\n                DX0TN[i] = self[i].get_normed_feature_deriv(",
          "            if self[i] is not None and DX0T[i].any():\n                DX0TN[i] = self[i].get_normed_feature_deriv(",
          expect="dispatch-static"),
        M("V3Map += -> =", TD, v3i, v3i.replace("dfdx[i] +=", "dfdx[i] ="), expect="accumulate"),
        M("UMap += -> = (class tested only alone)", TD,
          "        i = self.i\n        dfdx[i] += dfdy * self.gamma / (1 + self.gamma * x[i]) ** 2",
          "        i = self.i\n        dfdx[i] = dfdy * self.gamma / (1 + self.gamma * x[i]) ** 2", expect="accumulate"),
        M("InhomogeneityNormalizer dfdinh += -> =", FN, inh_bwd, inh_bwd.replace("+=", "="), expect="accumulate"),
        M("V3Map writes dfdx[i] where x[j] was read", TD, v3j, v3j.replace("dfdx[j]", "dfdx[i]"), expect="index-set"),
        M("SLDMap writes dfdx[self.j] for tau", TD, "dfdx[self.k] += vt", "dfdx[self.j] += vt", count=2, expect="index-set"),
        M("V3Map gamma -> gamma**2 in derivative", TD, v3j, v3j.replace("self.gamma /", "self.gamma**2 /"), expect="units"),
        M("EMap drops scale", TD, "dfdx[i] -= dfdy * self.scale * np.exp(", "dfdx[i] -= dfdy * np.exp(", expect="units"),
        M("SLTWMap drops / rho", TD, "dfdx[self.i] -= vw * tauw / rho", "dfdx[self.i] -= vw * tauw", count=2, expect="units"),
        M("SLBMap rho**(2/3) -> rho**(5/3)", TD, "(5.0 / 3) * rho ** (2.0 / 3)", "(5.0 / 3) * rho ** (5.0 / 3)", expect="units"),
        M("SLNMap exponent -4/3 -> -1/3 keeps units, const dropped", TD,
          "dfdx[self.i] -= dfdy * const / 3.0 * (1 + const * rho) ** (-4.0 / 3)",
          "dfdx[self.i] -= dfdy / 3.0 * (1 + const * rho) ** (-4.0 / 3)", expect="units"),
        M("V3Map drops dfdy", TD, v3j, v3j.replace("dfdy * ", ""), expect="linear-dfdy"),
        M("V4Map dfdy squared", TD, "tmp = dfdy * self.gamma * tmp / (1 + tmp) ** 2",
          "tmp = dfdy * dfdy * self.gamma * tmp / (1 + tmp) ** 2", expect="linear-dfdy"),
        M("SLTMap derivative clamps at 1e-12", TD,
          "        rho = np.maximum(x[self.i], 1e-10)\n        tau0 = self.const * rho ** (5.0 / 3)\n        tau = x[self.j]\n        fac",
          "        rho = np.maximum(x[self.i], 1e-12)\n        tau0 = self.const * rho ** (5.0 / 3)\n        tau = x[self.j]\n        fac",
          expect="clamp"),
        M("SLXMap value clamps at 1e-8", TD,
          "        rho = np.maximum(x[self.i], 1e-10)\n        rho83 = rho ** (8.0 / 3)\n        const = 2 * (3 * np.pi**2) ** (1.0 / 3)\n        const = self.gamma / const**2\n        sigma = const * x[self.j]\n        y[:]",
          "        rho = np.maximum(x[self.i], 1e-8)\n        rho83 = rho ** (8.0 / 3)\n        const = 2 * (3 * np.pi**2) ** (1.0 / 3)\n        const = self.gamma / const**2\n        sigma = const * x[self.j]\n        y[:]",
          expect="clamp"),
        M("_get_drho_and_dinh clamps rho at 1e-12", FN, "rho = np.maximum(X0T[0], self.cutoff)",
          "rho = np.maximum(X0T[0], 1e-12)", expect="clamp"),
        M("InhomogeneityNormalizer.fill_bwd drops const2", FN,
          "dfdxn * x * self.const1 * self.const2 * self.power * inh ** (self.power - 1)",
          "dfdxn * x * self.const1 * self.power * inh ** (self.power - 1)", expect="transpose"),
        M("InhomogeneityNormalizer forward power-1 -> power", FN,
          "dinh * self.power * inh ** (\n            self.power - 1\n        )",
          "dinh * self.power * inh ** (\n            self.power\n        )", expect="transpose"),
        M("InhomogeneityNormalizer.fill_bwd routes the inh coefficient to dfdrho", FN, inh_bwd,
          inh_bwd.replace("dfdinh[:]", "dfdrho[:]"), expect="transpose"),
        M("InhomogeneityNormalizer.fill_fwd power differs from the derivatives", FN,
          "xn[:] = x * self.const1 * inh**self.power", "xn[:] = x * self.const1 * inh ** (self.power + 1)",
          expect="transpose"),
        # every slmode is finite-differenced by the pinned tests, so a test-surviving edit of the
        # reverse pass has to stay below their tolerance (5 decimals)
        M("reverse-mode ns coefficient differs from forward mode below the tests' tolerance", FN,
          "df_dX0T[:, 0] -= dfdinh * 8.0 / 3 * inh_term / rho_term",
          "df_dX0T[:, 0] -= dfdinh * 8.0000001 / 3 * inh_term / rho_term", expect="sl-transpose"),
        M("reverse pass takes its low-density mask from the raw density (mask becomes live)", FN,
          "        rho_term, inh_term = self._get_rho_and_inh(X0T)\n        dfdrho = np.zeros_like(rho_term)\n        dfdinh = np.zeros_like(inh_term)\n        cond = rho_term < self.cutoff\n        rho_term[cond] = self.cutoff\n",
          "        cond = X0T[:, 0] < self.cutoff\n        rho_term, inh_term = self._get_rho_and_inh(X0T)\n        dfdrho = np.zeros_like(rho_term)\n        dfdinh = np.zeros_like(inh_term)\n",
          expect="mask-sym"),
        M("forward pass alone zeroes sub-cutoff points", FN,
          "                DX0TN[i] = DX0T[i]\n        return DX0TN",
          "                DX0TN[i] = DX0T[i]\n        DX0TN[:, X0T[0] < self.cutoff] = 0.0\n        return DX0TN",
          expect="mask-sym"),
        M("WMap derivative vectorised with a fancy-indexed -= (tested only with distinct indices)", TD,
          "        dfdx[i] -= dfdy * (\n            (gammai**2 * np.sqrt(gammaj / (1 + gammaj * x[j])) * x[k])\n            / (1 + gammai * x[i]) ** 2\n        )\n",
          "        dfdx[[i, j]] -= dfdy * (\n            (gammai**2 * np.sqrt(gammaj / (1 + gammaj * x[j])) * x[k])\n            / (1 + gammai * x[i]) ** 2\n        ) * np.array([1.0, 0.0])[:, None]\n",
          expect="accumulate"),
        M("SignedUMap caches its denominator per memory block (key = address, shape, strides)", TD,
          "    def fill_feat_(self, y, x):\n        i = self.i\n        y[:] = x[i] / np.sqrt(self.gamma + x[i] * x[i])\n\n    def fill_deriv_(self, dfdx, dfdy, x):\n        i = self.i\n        dfdx[i] += dfdy * self.gamma / (self.gamma + x[i] * x[i]) ** 1.5\n",
          "    _key = None\n    _den = None\n\n    def _get_den(self, x, refresh=False):\n        key = (x.ctypes.data, x.shape, x.strides)\n        if refresh or self._den is None or key != self._key:\n            self._den = self.gamma + x[self.i] * x[self.i]\n            self._key = key\n        return self._den\n\n    def fill_feat_(self, y, x):\n        i = self.i\n        y[:] = x[i] / np.sqrt(self._get_den(x, refresh=True))\n\n    def fill_deriv_(self, dfdx, dfdy, x):\n        i = self.i\n        dfdx[i] += dfdy * self.gamma / self._get_den(x) ** 1.5\n",
          expect="stateless"),
        M("normaliser list keeps (X0T, rho, inh) of the forward pass and reuses them for the same array object", FN,
          "        rho_term, inh_term = self._get_rho_and_inh(X0T)\n        dfdrho = np.zeros_like(rho_term)",
          "        if getattr(self, \"_sl\", None) is not None and self._sl[0] is X0T:\n            rho_term, inh_term = self._sl[1:]\n        else:\n            rho_term, inh_term = self._get_rho_and_inh(X0T)\n        self._sl = (X0T, rho_term, inh_term)\n        dfdrho = np.zeros_like(rho_term)",
          expect="stateless"),
        M("forward mode drops the dinh term together with the (vanishing) drho term when power1 == 0", FN,
          "        res += x * fac2 * fac1 * self.power1 / rho * drho\n        res += x * fac1 * self.power2 * self.const2 * inh ** (self.power2 - 1) * dinh\n",
          "        if self.power1 != 0:\n            res += x * fac2 * fac1 * self.power1 / rho * drho\n            res += x * fac1 * self.power2 * self.const2 * inh ** (self.power2 - 1) * dinh\n",
          expect="transpose"),
        M("reverse mode skips the dfdrho accumulation unless power > 0 (wrong for negative powers)", FN,
          "        dfdrho[:] += dfdxn * self.power * fac * x / rho\n",
          "        if self.power > 0:\n            dfdrho[:] += dfdxn * self.power * fac * x / rho\n", expect="transpose"),
        M("ZMap value gets a constant prefactor the derivative does not know (scale moved out of fill_deriv_)", TD,
          "            2\n            * dfdy\n            * self.scale\n            * self.gamma\n",
          "            2\n            * dfdy\n            * self.gamma\n", expect="param-dep"),
        M("VZMap derivative reverted to the gamma-dependent polynomial (right only for gamma = 1)", TD,
          "dfdx[self.i] += fac * (1 + 2 * xi)",
          "dfdx[self.i] += fac * (1 + (self.gamma + 1) * xi + (self.gamma - 1) * xi * (3 * xi + 2 * xi * xi))",
          expect="deriv-symbolic"),
        M("SLTMap derivative loses a factor 2", TD, "v0 = -2 * dfdy * tau * fac * fac\n        vt = 2 * dfdy * tau0 * fac * fac\n        dfdx[self.i] += v0 * self.const * (5.0 / 3) * rho ** (2.0 / 3)\n        dfdx[self.j] += vt",
          "v0 = -dfdy * tau * fac * fac\n        vt = 2 * dfdy * tau0 * fac * fac\n        dfdx[self.i] += v0 * self.const * (5.0 / 3) * rho ** (2.0 / 3)\n        dfdx[self.j] += vt",
          expect="deriv-symbolic"),
        M("V4Map derivative signs swapped", TD, "        dfdx[i] -= tmp\n        dfdx[j] += tmp", "        dfdx[i] += tmp\n        dfdx[j] -= tmp",
          expect="deriv-symbolic"),
        M("V2Map derivative w.r.t. x[i] loses the dimensionless constant a = 2**1.5", TD,
          "        dfdx[i] += dfdy * tmp * a\n", "        dfdx[i] += dfdy * tmp\n", expect="deriv-symbolic"),
        M("InhomogeneityNormalizer forward derivative loses the factor power", FN,
          "dinh * self.power * inh ** (\n            self.power - 1\n        )", "dinh * inh ** (\n            self.power - 1\n        )",
          expect="deriv-symbolic"),
        M("_get_drho_and_dinh: d(inh)/d(rho) coefficient off below the tests' tolerance", FN,
          "dinh -= 8.0 / 3 * grad / (8 * CFC * rho ** (11.0 / 3)) * drho", "dinh -= 8.0000001 / 3 * grad / (8 * CFC * rho ** (11.0 / 3)) * drho",
          expect="deriv-symbolic"),
        M("FeatureList.fill_derivs_ walks a zip of (row, map) pairs built once in __init__", TD, fn=_one_shot_pairs,
          expect="stateless"),
        M("fill_vals_ writes every map into row 0", TD, "self.feat_list[i].fill_feat_(tdesc[i], xdesc)",
          "self.feat_list[i].fill_feat_(tdesc[0], xdesc)", count=2, expect="list-iter"),
    ]


if __name__ == "__main__":
    sys.exit(core.main(PROP, analyse, mutants, __doc__))
