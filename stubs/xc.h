#ifndef STUB_XC_H
#define STUB_XC_H
#include <stddef.h>
/* declaration-only stub used by /verif for parsing; not libxc */
typedef struct { int dummy; } xc_func_type;
int xc_func_init(xc_func_type *p, int functional, int nspin);
void xc_func_end(xc_func_type *p);
void xc_func_set_dens_threshold(xc_func_type *p, double t);
void xc_lda_exc_vxc(const xc_func_type *p, size_t np, const double *rho, double *zk, double *vrho);
void xc_gga_exc_vxc(const xc_func_type *p, size_t np, const double *rho, const double *sigma, double *zk, double *vrho, double *vsigma);
void xc_mgga_exc_vxc(const xc_func_type *p, size_t np, const double *rho, const double *sigma, const double *lapl, const double *tau, double *zk, double *vrho, double *vsigma, double *vlapl, double *vtau);
#endif
