import sys, os
sys.path.insert(0, os.path.dirname(__file__))
import cider_env; cider_env.install()
import numpy as np
from ciderpress.dft.lcao_convolutions import *
etb = [[(0, 3, 0.5, 2.0), (1, 2, 0.5, 2.0)]]
dat = get_gamma_lists_from_etb_list(etb)
atco_inp = ATCBasis(*dat)
alphas = 0.25 * 2.0 ** np.arange(6)
norms = (np.pi / (2 * alphas)) ** -0.75
dat2 = get_convolution_expnts_from_expnts(alphas, dat[0], dat[1], dat[2], dat[4], gbuf=4.0)
atco_out = ATCBasis(*dat2)
ccl = ConvolutionCollection(atco_inp, atco_out, alphas, norms, has_vj=True, ifeat_ids=[])
ccl.compute_integrals_(); ccl.solve_projection_coefficients()
rng = np.random.default_rng(0)
x = rng.normal(size=(atco_inp.nao, ccl.nalpha))
ref = ccl.multiply_atc_integrals(x)
try:
    o = ccl.multiply_atc_integrals(x.astype(np.float32))
    print("float32 accepted; max diff to float64 result", np.abs(o-ref).max())
except Exception as e: print("rejected", repr(e))
try:
    o = ccl.multiply_atc_integrals(x, output=np.zeros((atco_out.nao, ccl.nbeta), dtype=np.float32))
    print("float32 output accepted")
except Exception as e: print("rejected", repr(e))
