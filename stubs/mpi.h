/* declaration-only stub used by /verif for parsing (clang -fsyntax-only); nothing is linked or run */
#ifndef STUB_MPI_H
#define STUB_MPI_H
typedef int MPI_Comm;
typedef int MPI_Datatype;
typedef int MPI_Op;
typedef struct { int MPI_SOURCE, MPI_TAG, MPI_ERROR; } MPI_Status;
#define MPI_COMM_WORLD ((MPI_Comm)0x44000000)
#define MPI_COMM_NULL ((MPI_Comm)0x04000000)
#define MPI_DOUBLE ((MPI_Datatype)1)
#define MPI_INT ((MPI_Datatype)2)
#define MPI_C_DOUBLE_COMPLEX ((MPI_Datatype)3)
#define MPI_DOUBLE_COMPLEX ((MPI_Datatype)4)
#define MPI_SUM ((MPI_Op)1)
#define MPI_MAX ((MPI_Op)2)
#define MPI_IN_PLACE ((void *)1)
#define MPI_THREAD_FUNNELED 1
#define MPI_SUCCESS 0
int MPI_Init(int *, char ***);
int MPI_Initialized(int *);
int MPI_Query_thread(int *);
int MPI_Comm_size(MPI_Comm, int *);
int MPI_Comm_rank(MPI_Comm, int *);
int MPI_Barrier(MPI_Comm);
int MPI_Alltoall(const void *, int, MPI_Datatype, void *, int, MPI_Datatype, MPI_Comm);
int MPI_Allreduce(const void *, void *, int, MPI_Datatype, MPI_Op, MPI_Comm);
int MPI_Bcast(void *, int, MPI_Datatype, int, MPI_Comm);
int MPI_Sendrecv(const void *, int, MPI_Datatype, int, int, void *, int, MPI_Datatype, int, int, MPI_Comm, MPI_Status *);
#endif
