"""C04: MappedDFTKernel2 (xc_evaluator2.py), POL mode, nspin = 2: the low-density cutoff is
applied to the energy with one mask and to the feature derivative with another.

    cond  = rho_tuple[0] < rhocut            # per spin channel, shape (2, n)
    scond = rho_tuple[0].sum(0) < rhocut     # total density,    shape (n,)
    f[scond] = 0.0
    if self.mode == "POL":
        df[cond, :] = 0.0                    # <- per-spin mask
    else:
        df[scond, :] = 0.0

At a grid point where one spin density is below rhocut but the total density is not, the
energy f(X_a, X_b)*m is kept (and does depend on the features of that spin channel) while
its derivative with respect to that channel's features is set to zero.
"""
import os
import sys

sys.path.insert(0, os.path.join(os.path.dirname(os.path.abspath(__file__)), "..", "common"))
import hx  # noqa: E402

hx.install()

import numpy as np  # noqa: E402

from ciderpress.dft.transform_data import FeatureList, UMap  # noqa: E402
from ciderpress.dft.xc_evaluator import SpinRBFEvaluator  # noqa: E402
from ciderpress.dft.xc_evaluator2 import MappedDFTKernel2, MappedXC2  # noqa: E402
from ciderpress.models.kernels import DiffConstantKernel, DiffRBF  # noqa: E402

rng = np.random.default_rng(1)
N1, nctrl = 3, 6
fl = FeatureList([UMap(i + 1, 0.3) for i in range(N1)])
kern = DiffConstantKernel(1.7) * DiffRBF(length_scale=np.array([0.5, 0.7, 0.9]))
fev = SpinRBFEvaluator(kern, rng.uniform(0, 1, size=(2, nctrl, N1)), rng.normal(size=nctrl))
model = MappedXC2([MappedDFTKernel2(fev, fl, "POL", "LDA_X", None)], None)

rhocut = 1.0
#                 both above   a below, total above   total below   b below, total above
rho = np.asfortranarray([[1.5, 0.4, 0.3, 1.2], [1.2, 0.9, 0.2, 0.1]])
n = rho.shape[1]
X0T = rng.uniform(0.3, 2.0, size=(2, N1 + 1, n))


def energy(X):
    return model(X, (rho,), rhocut=rhocut)[0]


res, dres, vr = model(X0T, (rho,), rhocut=rhocut)
h = 1e-6
g = np.zeros_like(X0T)
for s in range(2):
    for i in range(N1 + 1):
        Xp = X0T.copy()
        Xp[s, i] += h
        Xm = X0T.copy()
        Xm[s, i] -= h
        g[s, i] = (energy(Xp) - energy(Xm)) / (2 * h)

print("rho_a      :", rho[0])
print("rho_b      :", rho[1])
print("rho_a+rho_b:", rho.sum(0), " rhocut =", rhocut)
print("energy     :", res)
fail = False
for p in range(n):
    for s in range(2):
        err = np.abs(g[s, :, p] - dres[s, :, p]).max()
        flag = "" if err < 1e-6 else "   <-- derivative zeroed, energy not"
        print("point %d spin %d: analytic %s  FD %s%s"
              % (p, s, np.round(dres[s, 1:, p], 5), np.round(g[s, 1:, p], 5), flag))
        fail |= err > 1e-6
if fail:
    print("FAIL: rhocut applied inconsistently to energy and derivative (POL, nspin=2)")
    sys.exit(1)
print("OK")
