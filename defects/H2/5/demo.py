"""
C02 / SDMX feature H_j^1d: the value produced by the code (fast and slow generators
agree) is NOT the integral written in docs/features/sdmx.rst,

    H_j^1d = 4 pi int dR R^(6-j) | d/dR rho^1(R; r) |^2            (documented)

but

    H_j^1d = 4 pi int dR R^(4-j) | d/dR [ R rho^1(R; r) ] |^2      (implemented: _get_int_1d)

The two differ by (j-4) * H_j^1, i.e. by 30-40 % for a molecule.  All the other
documented SDMX integrals (H^0, H^0d, H^1) are reproduced to 1e-5 by the same script.

The script reads the formula that is currently in the .rst file and evaluates *that*
integral by quadrature, so it fails as long as documentation and code disagree.
"""
import os
import re
import sys

sys.path.insert(0, os.path.dirname(os.path.abspath(__file__)))
import shim  # noqa

import numpy as np
from pyscf import dft, gto
from pyscf.gto.eval_gto import eval_gto
from pyscf.gto.mole import ANG_OF, NCTR_OF, NPRIM_OF, PTR_COEFF, PTR_EXP
from scipy.interpolate import CubicSpline

from ciderpress.dft.settings import SDMXFullSettings
from ciderpress.pyscf import sdmx as sdmx_fast
from ciderpress.pyscf import sdmx_slow

C = (2 / np.pi) ** 1.5 * 4 / (4 - np.sqrt(2))
RST = os.path.join(shim.ROOT, "docs", "features", "sdmx.rst")


def documented_form():
    for line in open(RST):
        if line.startswith(r".. math:: H_j^\text{1d}"):
            if re.search(r"R\^\{6-j\}", line) and "\\left[R" not in line:
                return "R^(6-j) |d rho1/dR|^2", line.strip()
            if re.search(r"R\^\{4-j\}", line) and "\\left[R\\,\\boldsymbol{\\rho}^1" in line:
                return "R^(4-j) |d(R rho1)/dR|^2", line.strip()
            raise RuntimeError("unrecognised formula: " + line)
    raise RuntimeError("H^1d formula not found in docs")


def conv_ao(mol, a, coords):
    env = mol._env.copy()
    done = set()
    for b in mol._bas:
        l, npr, nc, pe, pc = b[ANG_OF], b[NPRIM_OF], b[NCTR_OF], b[PTR_EXP], b[PTR_COEFF]
        if (pe, pc) in done:
            continue
        done.add((pe, pc))
        g = mol._env[pe : pe + npr]
        fac = (np.pi / (a + g)) ** 1.5 * (a / (a + g)) ** l
        env[pe : pe + npr] = a * g / (a + g)
        for ic in range(nc):
            sl = slice(pc + ic * npr, pc + (ic + 1) * npr)
            env[sl] = mol._env[sl] * fac
    m = mol.copy()
    m._env = env
    return eval_gto(m, "GTOval_sph_deriv1", coords)


def main():
    form, line = documented_form()
    print("formula in docs/features/sdmx.rst:", line)
    np.random.seed(1)
    mol = gto.M(atom="H 0 0 0; F 0 0 0.9", basis="def2-svp", verbose=0)
    ks = dft.RKS(mol)
    ks.xc = "PBE"
    ks.grids.level = 1
    ks.kernel()
    dm = ks.make_rdm1()
    coords = np.random.normal(size=(8, 3)) * 0.8 + np.array([0, 0, 0.85])
    c = eval_gto(mol, "GTOval_sph", coords).dot(dm)
    t = np.linspace(np.log(1e-3), np.log(3e2), 1500)
    R = np.exp(t)
    rho0 = np.zeros((t.size, len(coords)))
    rho1 = np.zeros((t.size, 3, len(coords)))
    for i, r in enumerate(R):
        v = (conv_ao(mol, 2 / r**2, coords) - conv_ao(mol, 4 / r**2, coords)) * C / r**3
        rho0[i] = np.einsum("gm,gm->g", v[0], c)
        rho1[i] = np.einsum("xgm,gm->xg", v[1:4], c)
    d0 = CubicSpline(t, rho0, axis=0)(t, 1) / R[:, None]
    d1 = CubicSpline(t, rho1, axis=0)(t, 1) / R[:, None, None]

    def integ(f):
        return -0.25 * 4 * np.pi * np.trapezoid(f * R[:, None], t, axis=0)

    pows = [0, 1, 2]
    ref = {"0": [], "0d": [], "1": [], "1d": []}
    for j in pows:
        Rj = R[:, None]
        ref["0"].append(integ(Rj ** (2 - j) * rho0**2))
        ref["0d"].append(integ(Rj ** (4 - j) * d0**2))
        ref["1"].append(integ(Rj ** (4 - j) * (rho1**2).sum(axis=1)))
        if form.startswith("R^(6-j)"):
            ref["1d"].append(integ(Rj ** (6 - j) * (d1**2).sum(axis=1)))
        else:
            dRr = rho1 + R[:, None, None] * d1
            ref["1d"].append(integ(Rj ** (4 - j) * (dRr**2).sum(axis=1)))
    s = SDMXFullSettings({1.0: (pows, [3, 3, 3, 3])})
    bad = False
    np.set_printoptions(precision=4, linewidth=150)
    for name, mod in [("fast", sdmx_fast), ("slow", sdmx_slow)]:
        gen = mod.EXXSphGenerator.from_settings_and_mol(s, 1, mol, lambd=1.7)
        f = gen.get_features(dm, mol, coords)
        for ik, kind in enumerate(["0", "0d", "1", "1d"]):
            r = np.array(ref[kind])
            p = f[3 * ik : 3 * ik + 3]
            dev = np.abs(p - r).max(axis=1) / np.abs(r).max(axis=1)
            print("%s  H_j^%-2s j=0,1,2  max rel. deviation from documented integral: %s" % (name, kind, dev))
            if kind == "1d":
                print("      documented integral (j=1):", r[1])
                print("      code                (j=1):", p[1])
            if dev.max() > 1e-2:
                bad = True
    if bad:
        print("FAIL: H_j^1d returned by the code is not the integral defined in the documentation")
        sys.exit(1)
    print("OK")


if __name__ == "__main__":
    main()
